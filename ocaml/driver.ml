(* driver.ml — generic glue between the Go harness and the extracted models.
   Usage: modelrun <model-name>    reads one S-expression per line on stdin,
   prints Model.dispatch name sx as one S-expression per line on stdout.
   All decoding of cases into model data types happens inside Coq
   (functions dec_* of each model); this file only converts text <-> Base.sx. *)
open Model

(* ---------- integers ---------- *)
let rec pos_of_int (i : int) : positive =
  if i = 1 then XH
  else if i land 1 = 0 then XO (pos_of_int (i lsr 1))
  else XI (pos_of_int (i lsr 1))

let rec pos_of_int64u (i : int64) : positive =
  if Int64.equal i 1L then XH
  else
    let h = Int64.shift_right_logical i 1 in
    if Int64.equal (Int64.logand i 1L) 0L then XO (pos_of_int64u h) else XI (pos_of_int64u h)

let z_of_int (i : int) : z =
  if i = 0 then Z0 else if i > 0 then Zpos (pos_of_int i) else Zneg (pos_of_int (- i))

let n_of_int (i : int) : n = if i = 0 then N0 else Npos (pos_of_int i)

let rec int_of_pos (p : positive) : int =
  match p with XH -> 1 | XO q -> 2 * int_of_pos q | XI q -> 2 * int_of_pos q + 1

let int_of_n (x : n) : int = match x with N0 -> 0 | Npos p -> int_of_pos p

let rec pos_bits (p : positive) : int = match p with XH -> 1 | XO q | XI q -> 1 + pos_bits q

let rec int64u_of_pos (p : positive) : int64 =
  match p with
  | XH -> 1L
  | XO q -> Int64.shift_left (int64u_of_pos q) 1
  | XI q -> Int64.logor (Int64.shift_left (int64u_of_pos q) 1) 1L

(* decimal text of a positive of any size (schoolbook, only used beyond 64 bits) *)
let string_of_pos (p : positive) : Stdlib.String.t =
  if pos_bits p <= 62 then string_of_int (int_of_pos p)
  else if pos_bits p <= 64 then Printf.sprintf "%Lu" (int64u_of_pos p)
  else begin
    (* digits little-endian *)
    let digits = ref [| 0 |] in
    let double_add c =
      let d = !digits in
      let carry = ref c in
      let out = Array.make (Array.length d + 1) 0 in
      Array.iteri (fun i x -> let v = 2 * x + !carry in out.(i) <- v mod 10; carry := v / 10) d;
      out.(Array.length d) <- !carry;
      let len = if !carry = 0 then Array.length d else Array.length d + 1 in
      digits := Array.sub out 0 len in
    let rec bits p acc = match p with XH -> 1 :: acc | XO q -> bits q (0 :: acc) | XI q -> bits q (1 :: acc) in
    List.iter (fun b -> double_add b) (bits p []);
    let d = !digits in
    let b = Buffer.create 32 in
    for i = Array.length d - 1 downto 0 do Buffer.add_char b (Char.chr (48 + d.(i))) done;
    Buffer.contents b
  end

let string_of_z (x : z) : Stdlib.String.t =
  match x with Z0 -> "0" | Zpos p -> string_of_pos p | Zneg p -> "-" ^ string_of_pos p

let pos_of_decimal (s : Stdlib.String.t) : positive =
  (* s: non-empty digits, value > 0 *)
  let len = String.length s in
  if len <= 18 then pos_of_int (int_of_string s)
  else
    match Int64.of_string_opt ("0u" ^ s) with
    | Some v -> pos_of_int64u v
    | None ->
      (* general path: repeated halving of the decimal string *)
      let d = Array.init len (fun i -> Char.code s.[i] - 48) in
      let is_zero () = Array.for_all (fun x -> x = 0) d in
      let halve () =
        let r = ref 0 in
        Array.iteri (fun i x -> let v = !r * 10 + x in d.(i) <- v / 2; r := v mod 2) d; !r in
      let rec go () : positive option =
        if is_zero () then None
        else let b = halve () in
          match go () with
          | None -> Some XH  (* b must be 1 *)
          | Some q -> Some (if b = 1 then XI q else XO q) in
      match go () with Some p -> p | None -> failwith "pos_of_decimal: zero"

let z_of_decimal (s : Stdlib.String.t) : z =
  let neg = String.length s > 0 && s.[0] = '-' in
  let body = if neg then String.sub s 1 (String.length s - 1) else s in
  if String.length body = 0 then failwith "bad integer";
  let allzero = ref true in
  String.iter (fun c -> if c <> '0' then allzero := false) body;
  if !allzero then Z0
  else if neg then Zneg (pos_of_decimal body) else Zpos (pos_of_decimal body)

(* ---------- strings: UTF-8 text <-> code points ---------- *)
(* invalid bytes decode to 0x110000 + byte, mirroring the model's convention *)
(* code points below 256 are shared, preallocated values (file contents travel one
   code point per byte: no allocation per byte) *)
let n_small : n array = Array.init 256 n_of_int
let n_of_cp (v : int) : n = if v < 256 then Array.unsafe_get n_small v else n_of_int v

let decode_utf8 (s : Stdlib.String.t) : n list =
  let len = String.length s in
  (* pass 1: code points into an int array *)
  let cps = Array.make len 0 in
  let k = ref 0 in
  let i = ref 0 in
  while !i < len do
    let c = Char.code (String.unsafe_get s !i) in
    let cont j = !i + j < len && (Char.code s.[!i + j]) land 0xC0 = 0x80 in
    let v, w =
      if c < 0x80 then c, 1
      else if c land 0xE0 = 0xC0 && c >= 0xC2 && cont 1 then
        (((c land 0x1F) lsl 6) lor (Char.code s.[!i+1] land 0x3F)), 2
      else if c land 0xF0 = 0xE0 && cont 1 && cont 2 then begin
        let v = ((c land 0x0F) lsl 12) lor ((Char.code s.[!i+1] land 0x3F) lsl 6) lor (Char.code s.[!i+2] land 0x3F) in
        if v >= 0x800 && not (v >= 0xD800 && v <= 0xDFFF) then v, 3 else (0x110000 + c), 1 end
      else if c land 0xF8 = 0xF0 && cont 1 && cont 2 && cont 3 then begin
        let v = ((c land 0x07) lsl 18) lor ((Char.code s.[!i+1] land 0x3F) lsl 12)
                lor ((Char.code s.[!i+2] land 0x3F) lsl 6) lor (Char.code s.[!i+3] land 0x3F) in
        if v >= 0x10000 && v <= 0x10FFFF then v, 4 else (0x110000 + c), 1 end
      else (0x110000 + c), 1 in
    Array.unsafe_set cps !k v; incr k; i := !i + w
  done;
  (* pass 2: build the list back to front *)
  let rec build j acc = if j < 0 then acc else build (j - 1) (n_of_cp (Array.unsafe_get cps j) :: acc) in
  build (!k - 1) []

let encode_utf8 (b : Buffer.t) (v : int) : unit =
  if v >= 0x110000 then Buffer.add_char b (Char.chr ((v - 0x110000) land 0xFF))
  else if v < 0x80 then Buffer.add_char b (Char.chr v)
  else if v < 0x800 then begin
    Buffer.add_char b (Char.chr (0xC0 lor (v lsr 6)));
    Buffer.add_char b (Char.chr (0x80 lor (v land 0x3F))) end
  else if v < 0x10000 then begin
    Buffer.add_char b (Char.chr (0xE0 lor (v lsr 12)));
    Buffer.add_char b (Char.chr (0x80 lor ((v lsr 6) land 0x3F)));
    Buffer.add_char b (Char.chr (0x80 lor (v land 0x3F))) end
  else begin
    Buffer.add_char b (Char.chr (0xF0 lor (v lsr 18)));
    Buffer.add_char b (Char.chr (0x80 lor ((v lsr 12) land 0x3F)));
    Buffer.add_char b (Char.chr (0x80 lor ((v lsr 6) land 0x3F)));
    Buffer.add_char b (Char.chr (0x80 lor (v land 0x3F))) end

(* ---------- reader ---------- *)
exception Parse_error of Stdlib.String.t

let parse_line (s : Stdlib.String.t) : sx =
  let len = String.length s in
  let pos = ref 0 in
  let peek () = if !pos < len then Some s.[!pos] else None in
  let skip_ws () = while !pos < len && (s.[!pos] = ' ' || s.[!pos] = '\t' || s.[!pos] = '\r') do incr pos done in
  let hex c = match c with
    | '0'..'9' -> Char.code c - 48 | 'a'..'f' -> Char.code c - 87 | 'A'..'F' -> Char.code c - 55
    | _ -> raise (Parse_error "hex") in
  let rec value () : sx =
    skip_ws ();
    match peek () with
    | None -> raise (Parse_error "eof")
    | Some '(' ->
      incr pos;
      let items = ref [] in
      let rec loop () =
        skip_ws ();
        match peek () with
        | Some ')' -> incr pos
        | None -> raise (Parse_error "unclosed")
        | _ -> items := value () :: !items; loop () in
      loop (); Lst (List.rev !items)
    | Some '"' ->
      incr pos;
      let b = Buffer.create 16 in
      let rec loop () =
        match peek () with
        | None -> raise (Parse_error "unterminated string")
        | Some '"' -> incr pos
        | Some '\\' ->
          (match (if !pos + 1 < len then s.[!pos+1] else raise (Parse_error "esc")) with
           | 'n' -> Buffer.add_char b '\n'; pos := !pos + 2
           | 't' -> Buffer.add_char b '\t'; pos := !pos + 2
           | 'r' -> Buffer.add_char b '\r'; pos := !pos + 2
           | 'x' -> Buffer.add_char b (Char.chr (hex s.[!pos+2] * 16 + hex s.[!pos+3])); pos := !pos + 4
           | c -> Buffer.add_char b c; pos := !pos + 2);
          loop ()
        | Some c -> Buffer.add_char b c; incr pos; loop () in
      loop (); Str (decode_utf8 (Buffer.contents b))
    | Some _ ->
      let start = !pos in
      while !pos < len && (match s.[!pos] with ' ' | '\t' | '(' | ')' | '"' | '\r' -> false | _ -> true) do incr pos done;
      let tok = String.sub s start (!pos - start) in
      let is_int =
        let l = String.length tok in
        l > 0 &&
        (let st = if tok.[0] = '-' then 1 else 0 in
         l > st && (let ok = ref true in for i = st to l - 1 do if tok.[i] < '0' || tok.[i] > '9' then ok := false done; !ok)) in
      if is_int then Int (z_of_decimal tok) else Sym (decode_utf8 tok) in
  let v = value () in
  skip_ws ();
  if !pos <> len then raise (Parse_error "trailing input");
  v

(* ---------- printer ---------- *)
let rec print_sx (b : Buffer.t) (x : sx) : unit =
  match x with
  | Sym s -> List.iter (fun c -> encode_utf8 b (int_of_n c)) s
  | Int z -> Buffer.add_string b (string_of_z z)
  | Str s ->
    Buffer.add_char b '"';
    List.iter (fun c ->
        let v = int_of_n c in
        if v = 34 then Buffer.add_string b "\\\""
        else if v = 92 then Buffer.add_string b "\\\\"
        else if v = 10 then Buffer.add_string b "\\n"
        else if v = 9 then Buffer.add_string b "\\t"
        else if v = 13 then Buffer.add_string b "\\r"
        else if v < 32 || v = 127 then Buffer.add_string b (Printf.sprintf "\\x%02x" v)
        else if v >= 0x110000 then Buffer.add_string b (Printf.sprintf "\\x%02x" ((v - 0x110000) land 0xFF))
        else encode_utf8 b v) s;
    Buffer.add_char b '"'
  | Lst l ->
    Buffer.add_char b '(';
    List.iteri (fun i y -> if i > 0 then Buffer.add_char b ' '; print_sx b y) l;
    Buffer.add_char b ')'

let () =
  let name = if Array.length Sys.argv > 1 then Sys.argv.(1) else "" in
  let name_s = decode_utf8 name in
  let b = Buffer.create 65536 in
  (try
     while true do
       let line = input_line stdin in
       Buffer.clear b;
       (try
          let x = parse_line line in
          let r = (try dispatch name_s x with
                   | Stack_overflow -> Sym (decode_utf8 "model-stack-overflow")
                   | Out_of_memory -> Gc.compact (); Sym (decode_utf8 "model-out-of-memory")) in
          print_sx b r
        with Parse_error m -> Buffer.add_string b ("(driver-parse-error \"" ^ m ^ "\")"));
       Buffer.add_char b '\n';
       print_string (Buffer.contents b);
       flush stdout
     done
   with End_of_file -> ())
