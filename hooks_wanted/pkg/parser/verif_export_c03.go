//go:build verif

package parser

import "evylang.dev/evy/pkg/lexer"

// This file is compiled only with the "verif" build tag (add-only, read-only).
// Wanted by /verif check C03: the token a parse error is attached to. Without
// it the harness reads the position from the "line L column C: " prefix of
// (*Error).Error(), which is enough for the property as stated; with it the
// check can also compare Offset and token type.

// VerifErrorToken returns the token a parse error is located at.
func VerifErrorToken(e *Error) *lexer.Token { return e.token }

// VerifErrorMessage returns the message of a parse error without its location prefix.
func VerifErrorMessage(e *Error) string { return e.message }
