(* PermProofs.v — C08: order-(in)dependence of every map-range loop, one
   lemma per loop shape, instantiated per site. *)
From Coq Require Import ZArith NArith List Bool Permutation Lia.
From EvyV Require Import Base Perm.
Import ListNotations.

(* ================================================================== *)
(* build loops                                                          *)
Definition fmap_eq {V} (m1 m2 : fmap V) : Prop := forall k, m1 k = m2 k.

Lemma fupd_ext {V} (m1 m2 : fmap V) k v : fmap_eq m1 m2 -> fmap_eq (fupd m1 k v) (fupd m2 k v).
Proof. intros H k'. unfold fupd. destruct (str_eqb k' k); auto. Qed.

Lemma fupd_swap {V} (m : fmap V) k1 v1 k2 v2 :
  k1 <> k2 -> fmap_eq (fupd (fupd m k1 v1) k2 v2) (fupd (fupd m k2 v2) k1 v1).
Proof.
  intros N k'. unfold fupd.
  destruct (str_eqb k' k2) eqn:E2, (str_eqb k' k1) eqn:E1; auto.
  apply str_eqb_eq in E1, E2. congruence.
Qed.

Section Build.
  Context {A B : Type}.
  Variable key : str -> A -> str.
  Variable f : str -> A -> B.
  Definition dkey (kv : str * A) := key (fst kv) (snd kv).

  Lemma build_ext pi : forall m1 m2, fmap_eq m1 m2 -> fmap_eq (build_loop key f pi m1) (build_loop key f pi m2).
  Proof.
    induction pi as [|kv pi IH]; intros m1 m2 H; simpl; auto.
    apply IH. apply fupd_ext. exact H.
  Qed.

  (* the destination map does not depend on the iteration order, provided the
     destination keys are pairwise distinct *)
  Lemma build_perm pi1 pi2 : Permutation pi1 pi2 -> NoDup (map dkey pi1) ->
    forall m, fmap_eq (build_loop key f pi1 m) (build_loop key f pi2 m).
  Proof.
    induction 1 as [|x l l' P IH|x y l|l l' l'' P1 IH1 P2 IH2]; intros ND m.
    - intro; reflexivity.
    - simpl. inversion ND; subst. apply IH; assumption.
    - simpl. apply build_ext. apply fupd_swap.
      inversion ND as [|? ? Hnin _]; subst. intro E. apply Hnin. left. unfold dkey. symmetry. exact E.
    - intro k. rewrite (IH1 ND m k). apply IH2.
      eapply Permutation_NoDup; [apply Permutation_map; exact P1 | exact ND].
  Qed.
End Build.

(* ================================================================== *)
(* all-loops                                                            *)
Lemma all_loop_TT {A} (body : A -> tri) pi : all_loop body pi = TT <-> forall x, In x pi -> body x = TT.
Proof.
  induction pi as [|x r IH]; simpl; [split; [intros _ ? [] | reflexivity]|].
  destruct (body x) eqn:E; split; intro H; try discriminate.
  - intros y [<-|Hy]; [exact E | apply IH; assumption].
  - apply IH. intros y Hy. apply H. right; exact Hy.
  - specialize (H x (or_introl eq_refl)). congruence.
  - specialize (H x (or_introl eq_refl)). congruence.
Qed.

Lemma all_loop_no_panic {A} (body : A -> tri) pi :
  (forall x, In x pi -> body x <> PP) -> all_loop body pi <> PP.
Proof.
  induction pi as [|x r IH]; simpl; intros H; [discriminate|].
  destruct (body x) eqn:E.
  - apply IH. intros y Hy. apply H. right; exact Hy.
  - discriminate.
  - exfalso. apply (H x (or_introl eq_refl)). exact E.
Qed.

(* if no element makes the body panic, the answer is the conjunction *)
Lemma all_loop_perm {A} (body : A -> tri) pi1 pi2 :
  Permutation pi1 pi2 -> (forall x, In x pi1 -> body x <> PP) -> all_loop body pi1 = all_loop body pi2.
Proof.
  intros P NP.
  assert (NP2 : forall x, In x pi2 -> body x <> PP).
  { intros x Hx. apply NP. eapply Permutation_in; [apply Permutation_sym; exact P | exact Hx]. }
  destruct (all_loop body pi1) eqn:E1.
  - symmetry. apply all_loop_TT. intros x Hx. apply (proj1 (all_loop_TT body pi1) E1).
    eapply Permutation_in; [apply Permutation_sym; exact P | exact Hx].
  - destruct (all_loop body pi2) eqn:E2; auto.
    + assert (all_loop body pi1 = TT); [|congruence].
      apply all_loop_TT. intros x Hx. apply (proj1 (all_loop_TT body pi2) E2).
      eapply Permutation_in; [exact P | exact Hx].
    + exfalso. exact (all_loop_no_panic body pi2 NP2 E2).
  - exfalso. exact (all_loop_no_panic body pi1 NP E1).
Qed.


Lemma forallb_perm {A} (p : A -> bool) pi1 pi2 : Permutation pi1 pi2 -> forallb p pi1 = forallb p pi2.
Proof.
  induction 1; simpl; auto.
  - rewrite IHPermutation; reflexivity.
  - destruct (p x), (p y); reflexivity.
  - congruence.
Qed.

(* ================================================================== *)
(* first-error loops                                                    *)
Lemma first_err_None {A E} (body : A -> option E) pi : first_err body pi = None <-> forall x, In x pi -> body x = None.
Proof.
  induction pi as [|x r IH]; simpl; [split; [intros _ ? [] | reflexivity]|].
  destruct (body x) eqn:Ex; split; intro H; try discriminate.
  - specialize (H x (or_introl eq_refl)). congruence.
  - intros y [<-|Hy]; [exact Ex | apply IH; assumption].
  - apply IH. intros y Hy. apply H. right; exact Hy.
Qed.

Lemma first_err_Some {A E} (body : A -> option E) pi e : first_err body pi = Some e -> exists x, In x pi /\ body x = Some e.
Proof.
  induction pi as [|x r IH]; simpl; [discriminate|].
  destruct (body x) eqn:Ex; intro H.
  - inversion H; subst. exists x; auto.
  - destruct (IH H) as [y [Hy E']]. exists y; auto.
Qed.

(* deterministic as soon as all failing entries fail with the same error *)
Lemma first_err_perm {A E} (body : A -> option E) pi1 pi2 :
  Permutation pi1 pi2 ->
  (forall x y e1 e2, In x pi1 -> In y pi1 -> body x = Some e1 -> body y = Some e2 -> e1 = e2) ->
  first_err body pi1 = first_err body pi2.
Proof.
  intros P U.
  destruct (first_err body pi1) eqn:E1, (first_err body pi2) eqn:E2; auto.
  - apply first_err_Some in E1 as [x [Hx Ex]]. apply first_err_Some in E2 as [y [Hy Ey]].
    f_equal. apply (U x y e e0 Hx); auto. eapply Permutation_in; [apply Permutation_sym; exact P | exact Hy].
  - apply first_err_Some in E1 as [x [Hx Ex]].
    rewrite (proj1 (first_err_None body pi2) E2 x) in Ex; [discriminate|].
    eapply Permutation_in; [exact P | exact Hx].
  - apply first_err_Some in E2 as [y [Hy Ey]].
    rewrite (proj1 (first_err_None body pi1) E1 y) in Ey; [discriminate|].
    eapply Permutation_in; [apply Permutation_sym; exact P | exact Hy].
Qed.

(* whether there is an error at all never depends on the order *)
Lemma first_err_is_some_perm {A E} (body : A -> option E) pi1 pi2 :
  Permutation pi1 pi2 -> (first_err body pi1 = None <-> first_err body pi2 = None).
Proof.
  intros P. rewrite !first_err_None. split; intros H x Hx; apply H.
  - eapply Permutation_in; [apply Permutation_sym; exact P | exact Hx].
  - eapply Permutation_in; [exact P | exact Hx].
Qed.

(* ================================================================== *)
(* collect loops: same elements, order follows the iteration            *)
Lemma collect_perm {A B} (p : A -> bool) (g : A -> B) pi1 pi2 :
  Permutation pi1 pi2 -> Permutation (collect_loop p g pi1) (collect_loop p g pi2).
Proof.
  intro P. unfold collect_loop. apply Permutation_map.
  induction P; simpl; auto.
  - destruct (p x); auto.
  - destruct (p x), (p y); auto. apply perm_swap.
  - eapply Permutation_trans; eauto.
Qed.

Lemma collect_le1 {A B} (p : A -> bool) (g : A -> B) pi1 pi2 :
  Permutation pi1 pi2 -> (List.length (filter p pi1) <= 1)%nat -> collect_loop p g pi1 = collect_loop p g pi2.
Proof.
  intros P L. pose proof (collect_perm p g _ _ P) as Q. unfold collect_loop in *.
  rewrite <- (map_length g) in L.
  destruct (map g (filter p pi1)) as [|a [|b t]].
  - apply Permutation_nil in Q. auto.
  - apply Permutation_length_1_inv in Q. auto.
  - simpl in L. lia.
Qed.

(* ================================================================== *)
(* insertion sort by a key that is total, transitive, and strict on the
   elements at hand: the result does not depend on the input order        *)
Section Sort.
  Context {A : Type}.
  Variable leb : A -> A -> bool.
  Hypothesis leb_total : forall x y, leb x y = true \/ leb y x = true.
  Hypothesis leb_trans : forall x y z, leb x y = true -> leb y z = true -> leb x z = true.

  Lemma insert_swap x y : (leb x y = true -> leb y x = false) -> (leb y x = true -> leb x y = false) ->
    forall l, insert_by leb x (insert_by leb y l) = insert_by leb y (insert_by leb x l).
  Proof.
    intros S1 S2.
    assert (D : (leb x y = true /\ leb y x = false) \/ (leb x y = false /\ leb y x = true)).
    { destruct (leb_total x y) as [T|T]; destruct (leb x y) eqn:Exy, (leb y x) eqn:Eyx; auto; try discriminate;
        try (specialize (S1 eq_refl); discriminate). }
    clear S1 S2.
    induction l as [|h t IH]; simpl.
    - destruct D as [[Exy Eyx]|[Exy Eyx]]; rewrite Exy, Eyx; reflexivity.
    - destruct (leb y h) eqn:Eyh, (leb x h) eqn:Exh; simpl.
      + destruct D as [[Exy Eyx]|[Exy Eyx]]; rewrite Exy, Eyx; simpl; rewrite ?Exh, ?Eyh; reflexivity.
      + destruct D as [[Exy Eyx]|[Exy Eyx]].
        * rewrite (leb_trans x y h Exy Eyh) in Exh. discriminate.
        * rewrite Exy. simpl. rewrite Exh, Eyh. reflexivity.
      + destruct D as [[Exy Eyx]|[Exy Eyx]].
        * rewrite Eyx. simpl. rewrite Exh, Eyh. reflexivity.
        * rewrite (leb_trans y x h Eyx Exh) in Eyh. discriminate.
      + rewrite Exh, Eyh. f_equal. exact IH.
  Qed.

  Definition strict_on (l : list A) : Prop :=
    forall x y, In x l -> In y l -> x <> y -> leb x y = true -> leb y x = false.

  Lemma isort_perm l1 l2 : Permutation l1 l2 -> NoDup l1 -> strict_on l1 -> isort leb l1 = isort leb l2.
  Proof.
    induction 1 as [|x l l' P IH|x y l|l l' l'' P1 IH1 P2 IH2]; intros ND ST; simpl; auto.
    - inversion ND; subst. f_equal. apply IH; auto.
      intros a b Ha Hb. apply ST; right; assumption.
    - inversion ND as [|? ? Hy ND']; subst.
      assert (y <> x) by (intro; subst; apply Hy; left; reflexivity).
      apply insert_swap; intro L.
      + apply (ST y x); simpl; auto.
      + apply (ST x y); simpl; auto.
    - rewrite IH1 by assumption. apply IH2.
      + eapply Permutation_NoDup; eauto.
      + intros a b Ha Hb. apply ST; eapply Permutation_in; try (apply Permutation_sym; exact P1); assumption.
  Qed.
End Sort.

(* ================================================================== *)
(* Per site                                                             *)

(* ---------- parser.validateScope ---------- *)
Lemma validateScope_same_errors pi1 pi2 :
  Permutation pi1 pi2 -> Permutation (validateScope pi1) (validateScope pi2).
Proof. apply collect_perm. Qed.

Lemma validateScope_le1 pi1 pi2 :
  Permutation pi1 pi2 -> (List.length (filter (fun kv => negb (v_used (snd kv))) pi1) <= 1)%nat ->
  validateScope pi1 = validateScope pi2.
Proof. apply collect_le1. Qed.

Lemma pos_leb_total x y : pos_leb x y = true \/ pos_leb y x = true.
Proof.
  destruct x as [[l1 c1] n1], y as [[l2 c2] n2]. unfold pos_leb.
  destruct (N.ltb_spec l1 l2), (N.ltb_spec l2 l1), (N.eqb_spec l1 l2), (N.eqb_spec l2 l1),
    (N.leb_spec c1 c2), (N.leb_spec c2 c1); simpl; auto; lia.
Qed.

Lemma pos_leb_trans x y z : pos_leb x y = true -> pos_leb y z = true -> pos_leb x z = true.
Proof.
  destruct x as [[l1 c1] n1], y as [[l2 c2] n2], z as [[l3 c3] n3]. unfold pos_leb.
  destruct (N.ltb_spec l1 l2), (N.ltb_spec l2 l3), (N.ltb_spec l1 l3), (N.eqb_spec l1 l2), (N.eqb_spec l2 l3),
    (N.eqb_spec l1 l3), (N.leb_spec c1 c2), (N.leb_spec c2 c3), (N.leb_spec c1 c3); simpl; auto; lia.
Qed.

Lemma pos_leb_antisym x y : pos_leb x y = true -> pos_leb y x = true -> fst x = fst y.
Proof.
  destruct x as [[l1 c1] n1], y as [[l2 c2] n2]. unfold pos_leb. simpl.
  destruct (N.ltb_spec l1 l2), (N.ltb_spec l2 l1), (N.eqb_spec l1 l2), (N.eqb_spec l2 l1),
    (N.leb_spec c1 c2), (N.leb_spec c2 c1); simpl; intros; try discriminate; try lia.
  f_equal; lia.
Qed.

Lemma NoDup_map_inv {A B} (f : A -> B) l : NoDup (map f l) -> NoDup l.
Proof.
  induction l as [|a l IH]; simpl; intro H; [constructor|].
  inversion H; subst. constructor; auto. intro Hin. apply H2. apply in_map. exact Hin.
Qed.

Lemma NoDup_map_neq {A B} (f : A -> B) l x y : NoDup (map f l) -> In x l -> In y l -> x <> y -> f x <> f y.
Proof.
  induction l as [|a l IH]; simpl; intros ND Hx Hy N; [contradiction|].
  inversion ND as [|? ? Hn ND']; subst.
  destruct Hx as [<-|Hx], Hy as [<-|Hy].
  - congruence.
  - intro E. apply Hn. rewrite E. apply in_map. exact Hy.
  - intro E. apply Hn. rewrite <- E. apply in_map. exact Hx.
  - apply IH; auto.
Qed.

(* the proposed fix: with pairwise distinct declaration positions (every
   variable has its own declaring token) the reported list is a function of
   the set of variables *)
Lemma validateScope_fixed_perm pi1 pi2 :
  Permutation pi1 pi2 -> NoDup (map fst (validateScope pi1)) ->
  validateScope_fixed pi1 = validateScope_fixed pi2.
Proof.
  intros P ND. unfold validateScope_fixed.
  apply (isort_perm pos_leb pos_leb_total pos_leb_trans).
  - apply validateScope_same_errors. exact P.
  - eapply NoDup_map_inv. exact ND.
  - intros x y Hx Hy N L. destruct (pos_leb y x) eqn:E; [|reflexivity].
    exfalso. apply (NoDup_map_neq fst _ x y ND Hx Hy N). apply pos_leb_antisym; assumption.
Qed.

(* ---------- wrapAny over Pairs ---------- *)
Section Wrap.
  Context {V : Type}.
  Variable w : V -> option V.
  Definition wforce (v : V) : V := match w v with Some v' => v' | None => v end.
  Definition wok (kv : str * V) : bool := match w (snd kv) with Some _ => true | None => false end.

  Lemma wrap_loop_ok pi : forall m, forallb wok pi = true ->
    wrap_loop w pi m = WrapOk (build_loop (fun k _ => k) (fun _ v => wforce v) pi m).
  Proof.
    induction pi as [|[k v] r IH]; intros m H; simpl in *; [reflexivity|].
    apply andb_true_iff in H as [H1 H2]. unfold wok in H1. simpl in H1. unfold wforce at 2.
    destruct (w v) eqn:E; [|discriminate]. rewrite IH by assumption. reflexivity.
  Qed.

  Lemma wrap_loop_panics pi : forall m, wrap_panics (wrap_loop w pi m) = negb (forallb wok pi).
  Proof.
    induction pi as [|[k v] r IH]; intros m; simpl; [reflexivity|].
    unfold wok at 1. simpl. destruct (w v); simpl; auto.
  Qed.

  (* whether wrapAny panics does not depend on the order … *)
  Lemma wrap_loop_panics_perm pi1 pi2 m : Permutation pi1 pi2 ->
    wrap_panics (wrap_loop w pi1 m) = wrap_panics (wrap_loop w pi2 m).
  Proof. intro P. rewrite !wrap_loop_panics. f_equal. apply forallb_perm. exact P. Qed.

  (* … and when it does not panic, neither does the rewritten map *)
  Lemma wrap_loop_ok_perm pi1 pi2 m m1 : Permutation pi1 pi2 -> NoDup (map fst pi1) ->
    wrap_loop w pi1 m = WrapOk m1 -> exists m2, wrap_loop w pi2 m = WrapOk m2 /\ fmap_eq m1 m2.
  Proof.
    intros P ND H.
    assert (A1 : forallb wok pi1 = true).
    { pose proof (wrap_loop_panics pi1 m) as Q. rewrite H in Q. simpl in Q. destruct (forallb wok pi1); auto; discriminate. }
    assert (A2 : forallb wok pi2 = true) by (rewrite <- (forallb_perm wok _ _ P); exact A1).
    rewrite (wrap_loop_ok pi1 m A1) in H. inversion H; subst.
    eexists. split; [apply wrap_loop_ok; exact A2|].
    apply build_perm; auto.
  Qed.
End Wrap.

Lemma infer_loop_perm {V} (inf : V -> V) pi1 pi2 m : Permutation pi1 pi2 -> NoDup (map fst pi1) ->
  fmap_eq (infer_loop inf pi1 m) (infer_loop inf pi2 m).
Proof.
  intros P ND. apply build_perm; auto.
Qed.

(* ---------- evaluator.evalMapLiteral ---------- *)
Section EvalMapLit.
  Context {S Nd Vl E : Type}.
  Variable ev : Nd -> S -> S * (E + Vl).
  Variable pv : Nd -> Vl.
  (* the value expression is pure: no effect on the state, no error *)
  Definition pure_entry (kn : str * Nd) : Prop := forall s, ev (snd kn) s = (s, inr (pv (snd kn))).

  Lemma evalMapLiteral_loop_pure pi : forall s pairs, Forall pure_entry pi ->
    evalMapLiteral_loop ev pi s pairs = (s, inr (build_loop (fun k _ => k) (fun _ n => pv n) pi pairs)).
  Proof.
    induction pi as [|[k n] r IH]; intros s pairs F; simpl; [reflexivity|].
    inversion F as [|? ? H1 H2]; subst. unfold pure_entry in H1. simpl in H1. rewrite (H1 s). apply IH. exact H2.
  Qed.

  Lemma evalMapLiteral_pure_perm pi1 pi2 s : Permutation pi1 pi2 -> NoDup (map fst pi1) -> Forall pure_entry pi1 ->
    exists m1 m2, evalMapLiteral ev pi1 s = (s, inr m1) /\ evalMapLiteral ev pi2 s = (s, inr m2) /\ fmap_eq m1 m2.
  Proof.
    intros P ND F.
    assert (F2 : Forall pure_entry pi2).
    { apply Forall_forall. intros x Hx. eapply Forall_forall; [exact F|]. eapply Permutation_in; [apply Permutation_sym; exact P | exact Hx]. }
    unfold evalMapLiteral. rewrite (evalMapLiteral_loop_pure pi1 s fempty F), (evalMapLiteral_loop_pure pi2 s fempty F2).
    do 2 eexists. split; [reflexivity|]. split; [reflexivity|].
    apply build_perm; auto.
  Qed.
End EvalMapLit.

(* the loop over m.Order (the code since 7307e12): effects happen in source order *)
Definition mnode_effects (kn : str * mnode) : list Z := match snd kn with MPrint z => [z] | _ => [] end.
Lemma evalMapLiteral_loop_source_order order : forall s pairs,
  (forall kn, In kn order -> snd kn <> MPanic) ->
  fst (evalMapLiteral_loop mev order s pairs) = s ++ flat_map mnode_effects order.
Proof.
  induction order as [|[k n] r IH]; intros s pairs NP; simpl.
  - rewrite app_nil_r. reflexivity.
  - destruct n as [z|z|]; simpl.
    + rewrite IH by (intros kn H; apply NP; right; exact H). unfold mnode_effects at 2. simpl. rewrite <- app_assoc. reflexivity.
    + rewrite IH by (intros kn H; apply NP; right; exact H). reflexivity.
    + exfalso. apply (NP (k, MPanic)); [left; reflexivity | reflexivity].
Qed.

(* ---------- mapVal.Equals / sameMap ---------- *)
Lemma mapVal_Equals_perm {V} (eqv : V -> V -> tri) pi1 pi2 len2 m2 :
  Permutation pi1 pi2 -> (forall kv, In kv pi1 -> equals_body eqv m2 kv <> PP) ->
  mapVal_Equals eqv pi1 len2 m2 = mapVal_Equals eqv pi2 len2 m2.
Proof.
  intros P NP. unfold mapVal_Equals. rewrite (Permutation_length P).
  destruct (negb (Nat.eqb (List.length pi2) len2)); [reflexivity|]. apply all_loop_perm; assumption.
Qed.

Lemma sameMap_perm {V} (same : V -> option V -> bool) pi1 pi2 len2 got :
  Permutation pi1 pi2 -> sameMap same pi1 len2 got = sameMap same pi2 len2 got.
Proof.
  intros P. unfold sameMap. rewrite (Permutation_length P).
  destruct (negb (Nat.eqb (List.length pi2) len2)); [reflexivity|]. apply forallb_perm; assumption.
Qed.

(* ---------- builtin.parseFontProps ---------- *)
Definition fres_eq (r1 r2 : ferr + fmap fval) : Prop :=
  match r1, r2 with
  | inl e1, inl e2 => e1 = e2
  | inr m1, inr m2 => fmap_eq m1 m2
  | _, _ => False
  end.

Lemma parseFontProps_perm pi1 pi2 :
  Permutation pi1 pi2 -> NoDup (map fst pi1) ->
  (forall x y e1 e2, In x pi1 -> In y pi1 -> font_body x = Some e1 -> font_body y = Some e2 -> e1 = e2) ->
  fres_eq (parseFontProps pi1) (parseFontProps pi2).
Proof.
  intros P ND U. unfold parseFontProps. rewrite <- (first_err_perm font_body pi1 pi2 P U).
  destruct (first_err font_body pi1); simpl; [reflexivity|].
  apply build_perm; auto.
Qed.

(* ---------- copy loops ---------- *)
Lemma key_is_fst {A} (pi : list (str * A)) : map (dkey (fun k (_ : A) => k)) pi = map fst pi.
Proof. apply map_ext. intros []; reflexivity. Qed.

Lemma newParser_copy_perm {F} (pi1 pi2 : list (str * F)) :
  Permutation pi1 pi2 -> NoDup (map fst pi1) -> fmap_eq (newParser_copy pi1) (newParser_copy pi2).
Proof. intros P ND. apply build_perm; auto. Qed.

Lemma builtinsDecls_copy_perm {B D} (decl : B -> D) pi1 pi2 :
  Permutation pi1 pi2 -> NoDup (map fst pi1) -> fmap_eq (builtinsDecls_copy decl pi1) (builtinsDecls_copy decl pi2).
Proof. intros P ND. apply build_perm; auto. Qed.

(* keyed by the Name FIELD of the entry: needs the names to be distinct *)
Lemma parseProgram_globals_perm pi1 pi2 :
  Permutation pi1 pi2 -> NoDup (map (fun kv => v_name (snd kv)) pi1) ->
  fmap_eq (parseProgram_globals pi1) (parseProgram_globals pi2).
Proof. intros P ND. apply build_perm; auto. Qed.

Lemma newEvaluator_globals_perm {G Vl} (name : G -> str) (gval : G -> Vl) pi1 pi2 :
  Permutation pi1 pi2 -> NoDup (map (fun kv => name (snd kv)) pi1) ->
  fmap_eq (newEvaluator_globals name gval pi1) (newEvaluator_globals name gval pi2).
Proof. intros P ND. apply build_perm; auto. Qed.

(* ---------- name lists ---------- *)
Lemma calledBuiltinFuncs_set isb pi1 pi2 :
  Permutation pi1 pi2 -> Permutation (calledBuiltinFuncs isb pi1) (calledBuiltinFuncs isb pi2).
Proof. apply collect_perm. Qed.

Lemma eventHandlerNames_set {H} (pi1 pi2 : list (str * H)) :
  Permutation pi1 pi2 -> Permutation (eventHandlerNames pi1) (eventHandlerNames pi2).
Proof. apply collect_perm. Qed.

(* ================================================================== *)
(* combineTypes: on types without any Fixed flag (literals only, no
   variables of composite type) it is the join of a semilattice, hence
   independent of the order of its arguments                            *)
Fixpoint clean (t : ty) : bool :=
  match t with
  | TBase BNone => false
  | TBase _ => true
  | TComp _ f s => negb f && clean s
  | TEmpty _ => true
  end.

Definition base_eqb (x y : base) : bool := N.eqb (base_code x) (base_code y).
Lemma base_eqb_eq x y : base_eqb x y = true <-> x = y.
Proof. destruct x, y; unfold base_eqb; simpl; split; intro; try reflexivity; try discriminate. Qed.

Fixpoint join (a b : ty) : ty :=
  match a, b with
  | TBase x, TBase y => if base_eqb x y then a else TAny
  | TComp ka _ sa, TComp kb _ sb => if Bool.eqb ka kb then TComp ka false (join sa sb) else TAny
  | TComp ka _ _, TEmpty kb => if Bool.eqb ka kb then a else TAny
  | TEmpty ka, TComp kb _ _ => if Bool.eqb ka kb then b else TAny
  | TEmpty ka, TEmpty kb => if Bool.eqb ka kb then a else TAny
  | _, _ => TAny
  end.

Lemma chain_nonempty t : chain t <> [].
Proof. destruct t; simpl; discriminate. Qed.

Lemma chain_none_not_clean s : chain s = [5%N] -> clean s = false.
Proof.
  destruct s as [[]|k f s'|k]; simpl; intro H; try discriminate; try reflexivity.
  destruct k; discriminate.
Qed.

Lemma chain_inj a : forall b, clean a = true -> clean b = true -> chain a = chain b -> a = b.
Proof.
  induction a as [x|ka fa sa IH|ka]; intros [y|kb fb sb|kb] Ca Cb H; simpl in *.
  - destruct x, y; simpl in H; try discriminate; reflexivity.
  - destruct x, kb; simpl in H; discriminate.
  - destruct x, kb; simpl in H; discriminate.
  - destruct y, ka; simpl in H; discriminate.
  - apply andb_true_iff in Ca as [Fa Ca]. apply andb_true_iff in Cb as [Fb Cb].
    destruct fa, fb; try discriminate. inversion H as [[Hk Hs]].
    assert (ka = kb) by (destruct ka, kb; simpl in Hk; try discriminate; reflexivity). subst.
    f_equal. apply IH; assumption.
  - apply andb_true_iff in Ca as [Fa Ca]. inversion H as [[Hk Hs]].
    rewrite (chain_none_not_clean sa Hs) in Ca. discriminate.
  - destruct y, ka; simpl in H; discriminate.
  - apply andb_true_iff in Cb as [Fb Cb]. inversion H as [[Hk Hs]].
    rewrite (chain_none_not_clean sb (eq_sym Hs)) in Cb. discriminate.
  - inversion H as [[Hk]]. destruct ka, kb; simpl in Hk; try discriminate; reflexivity.
Qed.

Lemma teq_clean a b : clean a = true -> clean b = true -> (teq a b = true <-> a = b).
Proof.
  intros Ca Cb. unfold teq. rewrite str_eqb_eq. split; [apply chain_inj; assumption | congruence].
Qed.

Lemma bool_eqb_refl k : Bool.eqb k k = true. Proof. destruct k; reflexivity. Qed.
Lemma base_eqb_refl x : base_eqb x x = true. Proof. destruct x; reflexivity. Qed.

Lemma join_idem a : clean a = true -> join a a = a.
Proof.
  induction a as [x|k f s IH|k]; simpl; intro C.
  - rewrite base_eqb_refl. reflexivity.
  - apply andb_true_iff in C as [F C]. destruct f; [discriminate|]. rewrite bool_eqb_refl, IH by assumption. reflexivity.
  - rewrite bool_eqb_refl. reflexivity.
Qed.

Lemma join_clean a : forall b, clean a = true -> clean b = true -> clean (join a b) = true.
Proof.
  induction a as [x|ka fa sa IH|ka]; intros [y|kb fb sb|kb] Ca Cb; simpl in *; try reflexivity.
  - destruct (base_eqb x y); [exact Ca | reflexivity].
  - apply andb_true_iff in Ca as [Fa Ca]. apply andb_true_iff in Cb as [Fb Cb].
    destruct (Bool.eqb ka kb); [simpl; apply IH; assumption | reflexivity].
  - destruct (Bool.eqb ka kb); [exact Ca | reflexivity].
  - destruct (Bool.eqb ka kb); [exact Cb | reflexivity].
  - destruct (Bool.eqb ka kb); reflexivity.
Qed.

Lemma join_comm a : forall b, clean a = true -> clean b = true -> join a b = join b a.
Proof.
  induction a as [x|ka fa sa IH|ka]; intros [y|kb fb sb|kb] Ca Cb; simpl in *; try reflexivity.
  - destruct (base_eqb x y) eqn:E.
    + apply base_eqb_eq in E. subst. rewrite base_eqb_refl. reflexivity.
    + destruct (base_eqb y x) eqn:E2; [|reflexivity]. apply base_eqb_eq in E2. subst. rewrite base_eqb_refl in E. discriminate.
  - apply andb_true_iff in Ca as [Fa Ca]. apply andb_true_iff in Cb as [Fb Cb].
    destruct ka, kb; simpl; try reflexivity; rewrite (IH sb) by assumption; reflexivity.
  - destruct ka, kb; reflexivity.
  - destruct ka, kb; reflexivity.
  - destruct ka, kb; reflexivity.
Qed.

Lemma join_any_l b : join TAny b = TAny.
Proof. destruct b as [y| |]; simpl; try reflexivity. destruct (base_eqb BAny y); reflexivity. Qed.
Lemma join_any_r a : join a TAny = TAny.
Proof.
  destruct a as [x| |]; simpl; try reflexivity. destruct (base_eqb x BAny) eqn:E; [|reflexivity].
  apply base_eqb_eq in E. subst. reflexivity.
Qed.

Lemma join_assoc a : forall b c, clean a = true -> clean b = true -> clean c = true ->
  join (join a b) c = join a (join b c).
Proof.
  induction a as [x|ka fa sa IH|ka]; intros b c Ca Cb Cc; destruct b as [y|kb fb sb|kb]; destruct c as [z|kc fc sc|kc];
    simpl in Ca, Cb, Cc;
    repeat match goal with H : _ && _ = true |- _ => apply andb_true_iff in H as [? ?] end;
    repeat match goal with x : base |- _ => destruct x end;
    repeat match goal with k : bool |- _ => destruct k end;
    simpl; try reflexivity; try congruence; try (rewrite IH by assumption; reflexivity).
Qed.
