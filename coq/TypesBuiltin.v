(* TypesBuiltin.v — calls of BUILT-IN functions as a value form of C04.

   FuncCall.Type() is fixedType(FuncDef.ReturnType) for every call node, whoever
   declared the function: the result of  split "a b" " "  is a value of type
   []string that is "treated like a variable" exactly like the result of a
   user-defined  func f:[]string.  The expression language of TypesSyntax has one
   constructor for both (ECall t, t the result type); what differs is where t
   comes from: for a built-in it is the b_ret column of the table regenerated
   from evaluator.BuiltinDecls() of /repo (Gen/BuiltinSigs.v).

   This file resolves the wire form  (bcall "name")  of a request to
   (call T)  with T looked up in that table, so that the harness names the
   built-in only and the result type is the regenerated table's, and wraps the
   two wire entries of C04 (implementation model Types.types_case, specification
   TypesEntry.typespec_case) accordingly.  No semantics of its own. *)
From Coq Require Import List Bool String.
From EvyV Require Import Base TypesSyntax Types TypesEntry BuiltinTy.
From EvyV.Gen Require Import BuiltinSigs.
Import ListNotations.
Local Open Scope string_scope.

(* a built-in's result type as a source type; None: no value (TNone) or a
   generic parameter type (never a result type) *)
Fixpoint sty_of_bty (t : BuiltinTy.ty) : option sty :=
  match t with
  | BuiltinTy.TNum => Some SNum
  | BuiltinTy.TStr => Some SString
  | BuiltinTy.TBool => Some SBool
  | BuiltinTy.TAny => Some SAny
  | BuiltinTy.TArr s => option_map SArr (sty_of_bty s)
  | BuiltinTy.TMap s => option_map SMap (sty_of_bty s)
  | BuiltinTy.TNone | BuiltinTy.TGenArr | BuiltinTy.TGenMap => None
  end.

Fixpoint find_ret (name : str) (l : list bsig) : option sty :=
  match l with
  | [] => None
  | s :: r => if str_eqb (s_ (b_name s)) name then sty_of_bty (b_ret s) else find_ret name r
  end.

Definition builtin_ret (name : str) : option sty := find_ret name builtin_sigs.

(* the built-ins that return a value, with their result type *)
Definition builtin_results : list (string * sty) :=
  flat_map (fun s => match sty_of_bty (b_ret s) with Some t => [(b_name s, t)] | None => [] end) builtin_sigs.

Fixpoint enc_sty (t : sty) : sx :=
  match t with
  | SNum => Sym (s_ "num") | SString => Sym (s_ "string") | SBool => Sym (s_ "bool") | SAny => Sym (s_ "any")
  | SArr s => Lst [Sym (s_ "arr"); enc_sty s]
  | SMap s => Lst [Sym (s_ "map"); enc_sty s]
  | SEmptyArr => Sym (s_ "earr") | SEmptyMap => Sym (s_ "emap")
  end.

(* (bcall "name")  ->  (call T) ; an unknown name or a built-in without result
   becomes a symbol no decoder accepts (the entry answers decode-error) *)
Fixpoint resolve_bcalls (x : sx) : sx :=
  match x with
  | Lst l =>
      match l with
      | [k; Str name] =>
          if sym_is k "bcall" then
            match builtin_ret name with
            | Some t => Lst [Sym (s_ "call"); enc_sty t]
            | None => Sym (s_ "builtin-without-result")
            end
          else Lst (map resolve_bcalls l)
      | _ => Lst (map resolve_bcalls l)
      end
  | _ => x
  end.

(* (builtins)  ->  (("name" T) …): the table the harness enumerates *)
Definition enc_builtin_results : sx :=
  Lst (map (fun p => Lst [Str (s_ (fst p)); enc_sty (snd p)]) builtin_results).

Definition types_b_case (x : sx) : sx :=
  match x with
  | Lst [k] => if sym_is k "builtins" then enc_builtin_results else types_case x
  | _ => types_case (resolve_bcalls x)
  end.

Definition typespec_b_case (x : sx) : sx := typespec_case (resolve_bcalls x).
