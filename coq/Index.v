(* Index.v — model of the index / slice arithmetic of the evaluator
   (pkg/evaluator/value.go: normalizeIndex, normalizeSliceIndices,
   arrayVal.Index / SetIndex / Slice / Copy-or-ref, stringVal.runes / Index /
   Slice) and of the three evaluator entry points that reach them
   (evaluator.go: evalIndexExpr, evalSliceExpr, evalAssignIndexExpr).
   No proofs here (see IndexProofs.v).

   Numbers are IEEE-754 binary64 (Coq primitive floats).  Go's conversions
   int(f) and float64(i) are written out explicitly because the property is
   about exactly that boundary.  Strings are lists of code points (the Go code
   indexes []rune(s)).  Arrays live in a heap of array objects so that the
   sharing that arrayVal.Slice creates (fresh outer array, copyOrRef'd
   elements) can be stated. *)
From Coq Require Import ZArith NArith List Bool Floats String.
From EvyV Require Import Base.
Import ListNotations.
Open Scope Z_scope.

(* ---------- outcomes ---------- *)
(* ErrIndexValue, ErrBounds, ErrSlice (all wrap ErrPanic) *)
Inductive perr := EIndexValue | EBounds | ESlice.

(* [HostCrash] is what Go does when an unchecked slice access elements[i],
   runes[a:b] or make([]value, n) is reached with a bad argument: a Go
   run-time panic, not an evy panic.  The model has it at exactly those
   sites; the theorems say it is unreachable. *)
Inductive res (A : Type) : Type :=
| Ok (a : A)
| Panic (e : perr)
| HostCrash.
Arguments Ok {A} a.
Arguments Panic {A} e.
Arguments HostCrash {A}.

(* ---------- Go's numeric conversions ---------- *)
Definition min_int64 : Z := - 2 ^ 63.          (* math.MinInt64, 0x8000000000000000 *)
Definition in_int64 (z : Z) : bool := (min_int64 <=? z) && (z <? 2 ^ 63).

(* truncation toward zero of a finite binary64, as an unbounded integer *)
Definition sf_trunc (x : SpecFloat.spec_float) : option Z :=
  match x with
  | SpecFloat.S754_zero _ => Some 0
  | SpecFloat.S754_finite s m e =>
      let v := if 0 <=? e then Z.pos m * 2 ^ e else Z.pos m / 2 ^ (- e) in
      Some (if s then - v else v)
  | _ => None
  end.

(* Go: int(f) for a float64 f on amd64 (CVTTSD2SQ): truncation toward zero
   when the result fits in int64, otherwise — NaN, ±Inf, |f| too large — the
   "integer indefinite" value 0x8000000000000000 = -2^63. *)
Definition go_int (f : float) : Z :=
  match sf_trunc (Prim2SF f) with
  | Some t => if in_int64 t then t else min_int64
  | None => min_int64
  end.

(* Go: float64(i) for an int i: round to nearest, ties to even. *)
Definition go_float64 (i : Z) : float := float_of_Z i.

(* ---------- normalizeIndex ---------- *)
(* func normalizeIndex(idx value, length int, indexType indexType) (int, error)
   [slice] = (indexType == sliceExpression).  Go's int arithmetic is done in
   Z: i is in [-2^63, 2^63) and 0 <= length <= maxInt, so -length, length-1+1
   and length+i (taken only when -length <= i < 0) cannot wrap. *)
Definition normalize_index (f : float) (length : Z) (slice : bool) : res Z :=
  let limit := length - 1 in
  let limit := if slice then limit + 1 else limit in
  let i := go_int f in
  if negb (PrimFloat.eqb f (go_float64 i)) then Panic EIndexValue   (* index.V != float64(i) *)
  else if (i <? - length) || (limit <? i) then Panic EBounds
  else if i <? 0 then Ok (length + i)
  else Ok i.

(* func normalizeSliceIndices(start, end value, length int) (int, int, error)
   a nil start / end is [None]. *)
Definition normalize_slice_indices (start end_ : option float) (length : Z) : res (Z * Z) :=
  let rs := match start with
            | Some f => normalize_index f length true
            | None => Ok 0
            end in
  match rs with
  | Panic e => Panic e
  | HostCrash => HostCrash
  | Ok startIdx =>
      let re := match end_ with
                | Some f => normalize_index f length true
                | None => Ok length
                end in
      match re with
      | Panic e => Panic e
      | HostCrash => HostCrash
      | Ok endIdx =>
          if endIdx <? startIdx then Panic ESlice else Ok (startIdx, endIdx)
      end
  end.

(* ---------- Go slice accesses (host-level, may crash) ---------- *)
Definition zlen {A} (s : list A) : Z := Z.of_nat (List.length s).

(* elements[i] *)
Definition go_nth {A} (s : list A) (i : Z) : option A :=
  if i <? 0 then None else nth_error s (Z.to_nat i).

(* elements[i] = v *)
Fixpoint list_update {A} (s : list A) (n : nat) (v : A) : option (list A) :=
  match s, n with
  | [], _ => None
  | _ :: t, O => Some (v :: t)
  | x :: t, S n' => match list_update t n' v with Some t' => Some (x :: t') | None => None end
  end.
Definition go_set_nth {A} (s : list A) (i : Z) (v : A) : option (list A) :=
  if i <? 0 then None else list_update s (Z.to_nat i) v.

(* runes[a:b] : Go panics unless 0 <= a <= b <= len *)
Definition go_subslice {A} (s : list A) (a b : Z) : option (list A) :=
  if (0 <=? a) && (a <=? b) && (b <=? zlen s)
  then Some (firstn (Z.to_nat (b - a)) (skipn (Z.to_nat a) s)) else None.

(* the loop of arrayVal.Slice:
     elements := make([]value, endIdx-startIdx)
     for i := startIdx; i < endIdx; i++ { elements[i-startIdx] = copyOrRef(a.Elements[i]) }
   [n] is the number of iterations left, [i] the loop variable. *)
Fixpoint slice_loop {A} (copy : A -> A) (s : list A) (i : Z) (n : nat) : option (list A) :=
  match n with
  | O => Some []
  | S n' => match go_nth s i with
            | None => None
            | Some x => match slice_loop copy s (i + 1) n' with
                        | Some r => Some (copy x :: r)
                        | None => None
                        end
            end
  end.

(* ---------- arrayVal on a list of elements ---------- *)
(* func (a *arrayVal) Index(idx value) (value, error) *)
Definition arr_index {A} (s : list A) (f : float) : res A :=
  match normalize_index f (zlen s) false with
  | Panic e => Panic e
  | HostCrash => HostCrash
  | Ok i => match go_nth s i with Some x => Ok x | None => HostCrash end
  end.

(* func (a *arrayVal) SetIndex(idx, val value) error : the array afterwards;
   on an error nothing has been written (the caller keeps [s]). *)
Definition arr_set_index {A} (s : list A) (f : float) (v : A) : res (list A) :=
  match normalize_index f (zlen s) false with
  | Panic e => Panic e
  | HostCrash => HostCrash
  | Ok i => match go_set_nth s i v with Some s' => Ok s' | None => HostCrash end
  end.

(* func (a *arrayVal) Slice(start, end value) (value, error) : the elements of
   the new array; [copy] is copyOrRef *)
Definition arr_slice {A} (copy : A -> A) (s : list A) (start end_ : option float) : res (list A) :=
  match normalize_slice_indices start end_ (zlen s) with
  | Panic e => Panic e
  | HostCrash => HostCrash
  | Ok (a, b) =>
      if b - a <? 0 then HostCrash   (* make([]value, negative) *)
      else match slice_loop copy s a (Z.to_nat (b - a)) with
           | Some r => Ok r
           | None => HostCrash
           end
  end.

(* ---------- stringVal ---------- *)
(* s.runes() is the code-point list itself *)
(* func (s *stringVal) Index(idx value) (value, error) : string(runes[i]) *)
Definition str_index (s : str) (f : float) : res str :=
  match normalize_index f (zlen s) false with
  | Panic e => Panic e
  | HostCrash => HostCrash
  | Ok i => match go_nth s i with Some c => Ok [c] | None => HostCrash end
  end.

(* func (s *stringVal) Slice(start, end value) (value, error) : string(runes[a:b]) *)
Definition str_slice (s : str) (start end_ : option float) : res str :=
  match normalize_slice_indices start end_ (zlen s) with
  | Panic e => Panic e
  | HostCrash => HostCrash
  | Ok (a, b) => match go_subslice s a b with Some r => Ok r | None => HostCrash end
  end.

(* ---------- values and the heap of array objects ---------- *)
(* An evy array value is a pointer to its element slice (arrayVal.Elements
   *[]value); copyOrRef returns the same pointer for arrays and a fresh cell
   with the same content for num / string / bool.  At the level of this model
   a basic element is its content and an array element is the address of an
   array object, so copyOrRef is the identity on [val] — sharing is carried by
   addresses. *)
Inductive val :=
| VNum (f : float)
| VStr (s : str)
| VArr (addr : nat).

(* func copyOrRef(val value) value *)
Definition copy_or_ref (v : val) : val :=
  match v with
  | VNum f => VNum f
  | VStr s => VStr s
  | VArr a => VArr a
  end.

Definition heap := list (list val).

Definition h_get (h : heap) (a : nat) : option (list val) := nth_error h a.

(* evalIndexExpr on an array object *)
Definition h_index (h : heap) (a : nat) (f : float) : res val :=
  match h_get h a with
  | None => HostCrash
  | Some s => arr_index s f
  end.

(* evalAssignIndexExpr on an array object: the heap afterwards *)
Definition h_set_index (h : heap) (a : nat) (f : float) (v : val) : res heap :=
  match h_get h a with
  | None => HostCrash
  | Some s => match arr_set_index s f v with
              | Panic e => Panic e
              | HostCrash => HostCrash
              | Ok s' => match list_update h a s' with Some h' => Ok h' | None => HostCrash end
              end
  end.

(* evalSliceExpr on an array object: allocates the new array object at the
   next free address, returns the heap and that address *)
Definition h_slice (h : heap) (a : nat) (start end_ : option float) : res (heap * nat) :=
  match h_get h a with
  | None => HostCrash
  | Some s => match arr_slice copy_or_ref s start end_ with
              | Panic e => Panic e
              | HostCrash => HostCrash
              | Ok r => Ok (h ++ [r], List.length h)
              end
  end.

(* array literal of values: a new object *)
Definition h_alloc (h : heap) (s : list val) : heap * nat := (h ++ [s], List.length h).

(* ---------- wire format ---------- *)
Definition enc_perr (e : perr) : sx :=
  Sym (s_ (match e with EIndexValue => "IndexValue" | EBounds => "Bounds" | ESlice => "Slice" end)%string).

Definition enc_res {A} (enc : A -> sx) (r : res A) : sx :=
  match r with
  | Ok a => Lst [Sym (s_ "ok"); enc a]
  | Panic e => Lst [Sym (s_ "panic"); enc_perr e]
  | HostCrash => Lst [Sym (s_ "hostcrash")]
  end.

(* numbers travel as bit patterns; a missing slice bound is the symbol none *)
Definition dec_float (x : sx) : option float :=
  match x with Int b => Some (float_of_bits b) | _ => None end.

Definition dec_bound (x : sx) : option (option float) :=
  match x with
  | Int b => Some (Some (float_of_bits b))
  | Sym _ => Some None
  | _ => None
  end.

Fixpoint dec_list {A} (d : sx -> option A) (l : list sx) : option (list A) :=
  match l with
  | [] => Some []
  | x :: t => match d x, dec_list d t with
              | Some a, Some r => Some (a :: r)
              | _, _ => None
              end
  end.

Definition enc_floats (l : list float) : sx := Lst (map sx_float l).

(* printing of a heap value as a nested list: (arr addr elem...) *)
Fixpoint enc_val (fuel : nat) (h : heap) (v : val) : sx :=
  match v with
  | VNum f => sx_float f
  | VStr s => Str s
  | VArr a =>
      match fuel with
      | O => Sym (s_ "deep")
      | S fuel' =>
          match h_get h a with
          | None => Sym (s_ "dangling")
          | Some s => Lst (Sym (s_ "arr") :: Int (Z.of_nat a) :: map (enc_val fuel' h) s)
          end
      end
  end.

Definition decode_error : sx := Sym (s_ "decode-error").

(* all pairs, row-major *)
Definition all_pairs {A B} (l : list A) (k : A -> A -> B) : list B :=
  flat_map (fun a => map (fun b => k a b) l) l.

(* for every float of the sweep also report what the model's two conversions
   give, so that the harness can compare int(f) and the round trip
   float64(int(f)) == f against Go directly (link "Prim2SF decoding <-> Go") *)
Definition conv_probe (f : float) : sx :=
  let i := go_int f in
  Lst [Int i; sx_float (go_float64 i); sx_bool (PrimFloat.eqb f (go_float64 i));
       match float_to_Z f with Some z => Lst [Int z] | None => Lst [] end].

(* the nested-array script used for the sharing check:
     aa := [[e0] [e1] ...]          inner arrays one element each
     bb := aa[st:en]
     bb[j][0] = w                   (write through the slice into an inner array)
     bb[j] = [w2]                   (replace an element of the slice)
   reported: status of each step and both arrays after each step *)
Definition nested_script (elems : list float) (st en : option float) (j : float) (w w2 : float) : sx :=
  let inner := map (fun e => [VNum e]) elems in
  let n := List.length inner in
  let h0 : heap := inner ++ [map VArr (seq 0 n)] in
  let aa := n in
  let show h vars := Lst (map (enc_val 4 h) vars) in
  match h_slice h0 aa st en with
  | Panic e => Lst [Lst [Sym (s_ "panic"); enc_perr e]; show h0 [VArr aa]]
  | HostCrash => Lst [Lst [Sym (s_ "hostcrash")]]
  | Ok (h1, bb) =>
      let s1 := show h1 [VArr aa; VArr bb] in
      (* bb[j][0] = w : evalAssignIndexExpr evaluates expr.Left = bb[j] (an index read), then SetIndex *)
      match h_index h1 bb j with
      | Panic e => Lst [Lst [Sym (s_ "ok")]; s1; Lst [Sym (s_ "panic"); enc_perr e]; show h1 [VArr aa; VArr bb]]
      | HostCrash => Lst [Lst [Sym (s_ "hostcrash")]]
      | Ok (VArr x) =>
          match h_set_index h1 x 0%float (VNum w) with
          | Ok h2 =>
              let s2 := show h2 [VArr aa; VArr bb] in
              (* bb[j] = [w2] : the value is evaluated first (new object), then the target *)
              let '(h3, lit) := h_alloc h2 [VNum w2] in
              match h_set_index h3 bb j (VArr lit) with
              | Ok h4 => Lst [Lst [Sym (s_ "ok")]; s1; Lst [Sym (s_ "ok")]; s2; Lst [Sym (s_ "ok")]; show h4 [VArr aa; VArr bb]]
              | Panic e => Lst [Lst [Sym (s_ "ok")]; s1; Lst [Sym (s_ "ok")]; s2; Lst [Sym (s_ "panic"); enc_perr e]; show h3 [VArr aa; VArr bb]]
              | HostCrash => Lst [Lst [Sym (s_ "hostcrash")]]
              end
          | Panic e => Lst [Lst [Sym (s_ "ok")]; s1; Lst [Sym (s_ "panic"); enc_perr e]; show h1 [VArr aa; VArr bb]]
          | HostCrash => Lst [Lst [Sym (s_ "hostcrash")]]
          end
      | Ok _ => Lst [Lst [Sym (s_ "hostcrash")]]
      end
  end.

(* array elements on the wire: a number (bit pattern) or a string *)
Definition dec_elem (x : sx) : option val :=
  match x with
  | Int b => Some (VNum (float_of_bits b))
  | Str s => Some (VStr s)
  | _ => None
  end.

Definition enc_elems (l : list val) : sx := Lst (map (enc_val 0 []) l).

Definition st_ok : sx := Lst [Sym (s_ "ok")].
Definition st_panic (e : perr) : sx := Lst [Sym (s_ "panic"); enc_perr e].
Definition st_crash : sx := Lst [Sym (s_ "hostcrash")].

(* entry point.  Cases:
     (read-arr  (elem…) (f…))          ↦ one result per f
     (read-str  "s"     (f…))
     (slice-arr (elem…) (bound…))      ↦ one result per pair of bounds, row-major
     (slice-str "s"     (bound…))
     (write-arr (elem…) v (f…))        ↦ per f: (status array-afterwards)
     (fresh-arr (elem…) st en tgt j v) ↦ b := a[st:en]; then a[j] = v (tgt = 0) or b[j] = v (tgt = 1):
                                          (status-of-slice status-of-write a b)
     (nested    (elem…) st en j w w2)  ↦ see nested_script
     (conv (f…))                       ↦ conv_probe per f
   array elements are numbers (bit patterns) or strings; v, j are numbers. *)
Definition index_case (x : sx) : sx :=
  match x with
  | Lst [tag; Lst elems; Lst fs] =>
      if sym_is tag "read-arr" then
        match dec_list dec_elem elems, dec_list dec_float fs with
        | Some s, Some fl => Lst (map (fun f => enc_res (enc_val 0 []) (arr_index s f)) fl)
        | _, _ => decode_error
        end
      else if sym_is tag "slice-arr" then
        match dec_list dec_elem elems, dec_list dec_bound fs with
        | Some s, Some bl =>
            Lst (all_pairs bl (fun a b => enc_res enc_elems (arr_slice copy_or_ref s a b)))
        | _, _ => decode_error
        end
      else decode_error
  | Lst [tag; Str s; Lst fs] =>
      if sym_is tag "read-str" then
        match dec_list dec_float fs with
        | Some fl => Lst (map (fun f => enc_res Str (str_index s f)) fl)
        | None => decode_error
        end
      else if sym_is tag "slice-str" then
        match dec_list dec_bound fs with
        | Some bl => Lst (all_pairs bl (fun a b => enc_res Str (str_slice s a b)))
        | None => decode_error
        end
      else decode_error
  | Lst [tag; Lst elems; v; Lst fs] =>
      if sym_is tag "write-arr" then
        match dec_list dec_elem elems, dec_elem v, dec_list dec_float fs with
        | Some s, Some v, Some fl =>
            Lst (map (fun f =>
                        match arr_set_index s f v with
                        | Ok s' => Lst [st_ok; enc_elems s']
                        | Panic e => Lst [st_panic e; enc_elems s]
                        | HostCrash => Lst [st_crash; enc_elems s]
                        end) fl)
        | _, _, _ => decode_error
        end
      else decode_error
  | Lst [tag; Lst elems; st; en; Int tgt; Int j; v] =>
      if sym_is tag "fresh-arr" then
        match dec_list dec_elem elems, dec_bound st, dec_bound en, dec_elem v with
        | Some s, Some st, Some en, Some v =>
            let h0 : heap := [s] in
            match h_slice h0 0 st en with
            | Panic e => Lst [st_panic e; Lst []; enc_val 2 h0 (VArr 0); Lst []]
            | HostCrash => Lst [st_crash]
            | Ok (h1, b) =>
                let t := if tgt =? 0 then O else b in
                match h_set_index h1 t (float_of_bits j) v with
                | Ok h2 => Lst [st_ok; st_ok; enc_val 2 h2 (VArr 0); enc_val 2 h2 (VArr b)]
                | Panic e => Lst [st_ok; st_panic e; enc_val 2 h1 (VArr 0); enc_val 2 h1 (VArr b)]
                | HostCrash => Lst [st_crash]
                end
            end
        | _, _, _, _ => decode_error
        end
      else if sym_is tag "nested" then
        match dec_list dec_float elems, dec_bound st, dec_bound en, dec_float v with
        | Some s, Some st, Some en, Some w2 =>
            nested_script s st en (float_of_bits tgt) (float_of_bits j) w2
        | _, _, _, _ => decode_error
        end
      else decode_error
  | Lst [tag; Lst fs] =>
      if sym_is tag "conv" then
        match dec_list dec_float fs with
        | Some fl => Lst (map conv_probe fl)
        | None => decode_error
        end
      else decode_error
  | _ => decode_error
  end.
