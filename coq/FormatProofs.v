(* FormatProofs.v — lemmas about the formatter model (Format.v).
   Part 1 (C06): the formatter emits exactly the tree's tokens.
   Part 2 (C07): shape of the output, blank-line logic, idempotence on the skeleton. *)
From Coq Require Import ZArith NArith List Bool Lia Arith.
From EvyV Require Import Base FmtAst Format.
Import ListNotations.
Open Scope N_scope.

(* ====================================================================== *)
(* Part 1 — C06                                                            *)
(* ====================================================================== *)

(* the token texts among the pieces *)
Definition toks1 (p : piece) : list str := match p with T s | Q s | Cm s => [s] | _ => [] end.
Definition toks (ps : list piece) : list str := flat_map toks1 ps.

Lemma render_app a b : render (a ++ b) = render a ++ render b.
Proof. apply flat_map_app. Qed.

Lemma toks_app a b : toks (a ++ b) = toks a ++ toks b.
Proof. apply flat_map_app. Qed.

Lemma render_cons p ps : render (p :: ps) = render1 p ++ render ps.
Proof. reflexivity. Qed.

Lemma toks_cons p ps : toks (p :: ps) = toks1 p ++ toks ps.
Proof. reflexivity. Qed.

(* [closed ps]: scanning the rendering of ps in code mode yields exactly its
   tokens and leaves the scanner in code mode, whatever follows. *)
Definition closed (ps : list piece) : Prop :=
  forall rest, strip MCode (render ps ++ rest) = concat (toks ps) ++ strip MCode rest.

Lemma closed_nil : closed [].
Proof. intro rest. reflexivity. Qed.

Lemma closed_app a b : closed a -> closed b -> closed (a ++ b).
Proof.
  intros Ha Hb rest. rewrite render_app, toks_app, concat_app, <- !app_assoc, Ha, Hb. reflexivity.
Qed.

Lemma closed_cons p ps : closed [p] -> closed ps -> closed (p :: ps).
Proof. intros. change (p :: ps) with ([p] ++ ps). apply closed_app; assumption. Qed.

Lemma closed_Sp : closed [Sp].
Proof. intro rest. reflexivity. Qed.

Lemma closed_NL : closed [NL].
Proof. intro rest. reflexivity. Qed.

Lemma strip_spaces n rest : strip MCode (spaces n ++ rest) = strip MCode rest.
Proof. induction n; simpl; auto. Qed.

Lemma closed_Ind n : closed [Ind n].
Proof. intro rest. unfold render; simpl. rewrite app_nil_r. apply strip_spaces. Qed.

Lemma plain_char_spec c : plain_char c = true -> is_ws c = false /\ (c =? 34) = false /\ (c =? 47) = false.
Proof.
  unfold plain_char, is_ws. intro H.
  apply andb_true_iff in H as [H H3]. apply andb_true_iff in H as [H1 H2].
  apply negb_true_iff in H1, H2, H3. repeat split; auto.
  unfold is_space in H1. repeat (apply orb_false_iff in H1 as [H1 ?]).
  apply orb_false_iff; split; auto.
  destruct (N.eqb_spec c 10); auto. subst c. discriminate.
Qed.

Lemma strip_plain s rest : forallb plain_char s = true ->
  strip MCode (s ++ rest) = s ++ strip MCode rest.
Proof.
  induction s as [|c s IH]; simpl; intro H; auto.
  apply andb_true_iff in H as [Hc Hs]. apply plain_char_spec in Hc as (H1 & H2 & H3).
  rewrite H1, H2, H3. simpl. rewrite IH; auto.
Qed.

Lemma closed_T_plain s : forallb plain_char s = true -> closed [T s].
Proof. intros H rest. unfold render, toks; simpl. rewrite !app_nil_r. apply strip_plain, H. Qed.

Lemma plain_forall s : plain s = true -> forallb plain_char s = true.
Proof. unfold plain. intro H. apply andb_true_iff in H. tauto. Qed.

Lemma closed_T s : plain s = true -> closed [T s].
Proof. intro H. apply closed_T_plain, plain_forall, H. Qed.

(* string literals *)
Lemma strip_scan_str r : forall esc rest, scan_str esc r = true ->
  strip (if esc then MStrEsc else MStr) (r ++ rest) = r ++ strip MCode rest.
Proof.
  induction r as [|c r IH]; simpl; intros esc rest H; [discriminate|].
  destruct (c =? 10) eqn:E10; [discriminate|].
  destruct esc.
  - rewrite (IH false); auto.
  - destruct (c =? 92) eqn:E92.
    + rewrite (IH true); auto.
    + destruct (c =? 34) eqn:E34.
      * destruct r; [reflexivity | discriminate].
      * rewrite (IH false); auto.
Qed.

Lemma closed_Q q : quoted_ok q = true -> closed [Q q].
Proof.
  intros H rest. unfold render, toks; simpl. rewrite !app_nil_r.
  destruct q as [|c r]; [discriminate|]. simpl in H. apply andb_true_iff in H as [Hc Hr].
  simpl. unfold is_ws. apply N.eqb_eq in Hc. subst c. simpl.
  f_equal. apply (strip_scan_str r false rest Hr).
Qed.

(* comments: "//..." up to the newline that follows *)
Lemma strip_comment_body c rest : no_nl c = true ->
  strip MComment (c ++ 10 :: rest) = c ++ strip MCode rest.
Proof.
  induction c as [|x c IH]; simpl; intro H; auto.
  apply andb_true_iff in H as [Hx Hc]. apply negb_true_iff in Hx. rewrite Hx. f_equal. auto.
Qed.

Lemma comment_text_ok_spec c : comment_text_ok c = true ->
  exists r, c = 47 :: 47 :: r /\ no_nl r = true.
Proof.
  unfold comment_text_ok. intro H. apply andb_true_iff in H as [H _]. apply andb_true_iff in H as [Hp Hn].
  destruct c as [|a [|b r]]; unfold k_slashes in Hp; cbn [has_prefix] in Hp; try rewrite andb_false_r in Hp; try discriminate Hp.
  apply andb_true_iff in Hp as [Ha Hb]. apply andb_true_iff in Hb as [Hb _].
  apply N.eqb_eq in Ha, Hb. subst. exists r. split; auto.
Qed.

Lemma closed_Cm_NL c : comment_text_ok c = true -> closed [Cm c; NL].
Proof.
  intros H rest. apply comment_text_ok_spec in H as (r & -> & Hr).
  unfold render, toks; simpl. rewrite !app_nil_r. f_equal. f_equal.
  rewrite <- app_assoc. simpl. apply strip_comment_body, Hr.
Qed.

(* the division operator: "/" must not be followed by another "/" *)
Definition starts_ns (ps : list piece) : Prop :=
  exists c r, render ps = c :: r /\ (c =? 47) = false.

Lemma strip_slash c r : (c =? 47) = false -> strip MCode (47 :: c :: r) = 47 :: strip MCode (c :: r).
Proof.
  intro H.
  change (strip MCode (47 :: c :: r)) with
    (if is_ws 47 then strip MCode (c :: r)
     else if 47 =? 34 then 47 :: strip MStr (c :: r)
     else if (47 =? 47) && (c =? 47) then 47 :: strip MComment (c :: r)
     else 47 :: strip MCode (c :: r)).
  rewrite H. reflexivity.
Qed.

Lemma closed_slash ps : starts_ns ps -> closed ps -> closed (T (op_str OpSlash) :: ps).
Proof.
  intros (c & r & Hr & Hc) Hcl rest.
  rewrite render_cons, toks_cons, concat_app.
  change (render1 (T (op_str OpSlash))) with [47].
  change (concat (toks1 (T (op_str OpSlash)))) with [47].
  rewrite <- !app_assoc. rewrite <- (Hcl rest). rewrite Hr.
  change ([47] ++ (c :: r) ++ rest) with (47 :: c :: (r ++ rest)).
  change ((c :: r) ++ rest) with (c :: (r ++ rest)).
  rewrite strip_slash; auto.
Qed.

Lemma starts_ns_app a b : starts_ns a -> starts_ns (a ++ b).
Proof. intros (c & r & H & Hc). exists c, (r ++ render b). rewrite render_app, H. split; auto. Qed.

Lemma starts_ns_T s ps : plain s = true -> starts_ns (T s :: ps).
Proof.
  intro H. unfold plain in H. apply andb_true_iff in H as [Hne Hall].
  destruct s as [|c s]; [discriminate|]. simpl in Hall. apply andb_true_iff in Hall as [Hc _].
  apply plain_char_spec in Hc as (_ & _ & H47).
  exists c, (s ++ render ps). split; auto.
Qed.

Lemma op_str_cases o : o = OpSlash \/ plain (op_str o) = true.
Proof. destruct o; auto; right; reflexivity. Qed.

(* ---------- multi-line items ---------- *)
Lemma item_nl_not_el m : item_is_nl m = true -> item_is_el m = false.
Proof. unfold item_is_nl, item_is_el. intro H. apply str_eqb_eq in H. subst. reflexivity. Qed.

Lemma item_nl_not_comment m : item_is_nl m = true -> item_is_comment m = false.
Proof. unfold item_is_nl. intro H. apply str_eqb_eq in H. subst. reflexivity. Qed.

Lemma item_nl_not_key m : item_is_nl m = true -> item_is_key m = false.
Proof. unfold item_is_key. intro H. rewrite H. reflexivity. Qed.

(* formatMultiline only drops newline items *)
Lemma fm_loop_Forall (P : str -> Prop) items : forall n, Forall P items -> Forall P (format_multiline_loop n items).
Proof.
  induction items as [|m items IH]; simpl; intros n H; auto.
  inversion H; subst.
  match goal with |- Forall P (if ?b then _ else _) => destruct b end; auto.
Qed.

Lemma fm_loop_filter (f : str -> bool) items :
  (forall m, item_is_nl m = true -> f m = false) ->
  forall n, filter f (format_multiline_loop n items) = filter f items.
Proof.
  intros Hf. induction items as [|m items IH]; simpl; intro n; auto.
  destruct (item_is_nl m) eqn:Enl.
  - rewrite (Hf m Enl). destruct (S n <=? 2)%nat; simpl; rewrite ?(Hf m Enl); auto.
  - destruct (item_is_comment m); simpl; rewrite IH; reflexivity.
Qed.

Lemma raw_item_closed m : item_ws_ok m = true -> closed (raw_item m).
Proof.
  unfold item_ws_ok, raw_item. intro H. destruct (item_is_nl m); [apply closed_NL|].
  simpl in H. apply andb_true_iff in H as [He Hc]. rewrite He. apply closed_Cm_NL, Hc.
Qed.

Lemma closed_opt (b : bool) ps : closed ps -> closed (if b then ps else []).
Proof. destruct b; auto using closed_nil. Qed.

Lemma arr_loop_closed lvl' multi : forall els,
  Forall (fun m => item_is_el m = true \/ item_ws_ok m = true) multi ->
  (List.length (filter item_is_el multi) <= List.length els)%nat ->
  Forall closed els ->
  closed (arr_loop lvl' multi els).
Proof.
  induction multi as [|m rest IH]; simpl; intros els Hm Hlen Hels; [apply closed_nil|].
  inversion Hm as [|? ? Hm1 Hm2]; subst.
  destruct (item_is_el m) eqn:Eel.
  - simpl in Hlen. destruct els as [|e els']; [simpl in Hlen; lia|].
    inversion Hels; subst. apply closed_app; auto. apply closed_app.
    + apply closed_opt, closed_Sp.
    + apply IH; auto. simpl in Hlen. lia.
  - destruct Hm1 as [Hm1|Hm1]; [congruence|].
    apply closed_app; [apply raw_item_closed, Hm1|]. apply closed_app.
    + apply closed_opt, closed_Ind.
    + apply IH; auto.
Qed.

Lemma lookup_closed k kvs : In k (map fst kvs) -> Forall closed (map snd kvs) -> closed (lookup_pieces k kvs).
Proof.
  induction kvs as [|[k' v] t IH]; simpl; intros Hin Hall; [contradiction|].
  inversion Hall; subst. destruct (str_eqb k' k) eqn:E; auto.
  apply IH; auto. destruct Hin as [->|]; auto. rewrite str_eqb_refl in E. discriminate.
Qed.

Lemma ws_ok_not_key m : item_ws_ok m = true -> item_is_key m = false.
Proof.
  unfold item_ws_ok, item_is_key. intro H. destruct (item_is_nl m); [reflexivity|].
  simpl in H. apply andb_true_iff in H as [_ Hc]. apply comment_text_ok_spec in Hc as (r & Hr & _).
  destruct m as [|a [|b [|c t]]]; try discriminate Hr.
  change (removelast (a :: b :: c :: t)) with (a :: b :: removelast (c :: t)) in Hr.
  injection Hr as -> -> _. reflexivity.
Qed.

Lemma map_loop_closed lvl' kvs multi :
  Forall closed (map snd kvs) ->
  Forall (fun m => (item_is_key m = true /\ plain m = true /\ In m (map fst kvs)) \/ item_ws_ok m = true) multi ->
  closed (map_loop lvl' multi kvs).
Proof.
  intro Hk. induction multi as [|m rest IH]; simpl; intro Hm; [apply closed_nil|].
  inversion Hm as [|? ? Hm1 Hm2]; subst.
  destruct (item_is_key m) eqn:Ek.
  - destruct Hm1 as [(_ & Hp & Hin)|Hws].
    + apply closed_cons; [apply closed_T, Hp|]. apply closed_cons; [apply closed_T; reflexivity|].
      apply closed_app; [apply lookup_closed; auto|]. apply closed_app; [apply closed_opt, closed_Sp|]. auto.
    + apply ws_ok_not_key in Hws. congruence.
  - destruct Hm1 as [(Hk' & _)|Hws]; [congruence|].
    apply closed_app; [apply raw_item_closed, Hws|]. apply closed_app; [apply closed_opt, closed_Ind|]. auto.
Qed.

(* ---------- small list facts ---------- *)
Lemma map_fst_combine {A B} (l : list A) (l' : list B) :
  List.length l = List.length l' -> map fst (combine l l') = l.
Proof.
  revert l'. induction l as [|a l IH]; intros [|b l'] H; simpl in *; try discriminate; auto.
  f_equal. apply IH. lia.
Qed.

Lemma map_snd_combine {A B} (l : list A) (l' : list B) :
  List.length l = List.length l' -> map snd (combine l l') = l'.
Proof.
  revert l'. induction l as [|a l IH]; intros [|b l'] H; simpl in *; try discriminate; auto.
  f_equal. apply IH. lia.
Qed.

Lemma Forall_map_closed {A} (f : A -> list piece) (wf : A -> bool) l :
  Forall (fun x => wf x = true -> closed (f x)) l -> forallb wf l = true -> Forall closed (map f l).
Proof.
  induction l as [|x l IH]; simpl; intros H Hw; [constructor|].
  inversion H; subst. apply andb_true_iff in Hw as [Hw1 Hw2]. constructor; auto.
Qed.

Lemma closed_flat_map {A} (f : A -> list piece) l : Forall (fun x => closed (f x)) l -> closed (flat_map f l).
Proof.
  induction l as [|x l IH]; simpl; intro H; [apply closed_nil|]. inversion H; subst. apply closed_app; auto.
Qed.

Lemma closed_write_wss w : closed (write_wss w).
Proof. destruct w; [apply closed_nil | apply closed_Sp]. Qed.

Lemma tyname_closed n : closed (tyname_pieces n).
Proof. destruct n; simpl; repeat (apply closed_cons; [apply closed_T; reflexivity|]); apply closed_nil. Qed.

Fixpoint fmt_type_closed (t : fty) : closed (fmt_type t).
Proof.
  destruct t as [n sub]. simpl. apply closed_app; [apply tyname_closed|].
  destruct sub as [s|]; [apply fmt_type_closed | apply closed_nil].
Qed.

Lemma write_decl_closed n t : plain n = true -> closed (write_decl n t).
Proof.
  intro H. unfold write_decl. apply closed_app; [|apply fmt_type_closed].
  apply closed_cons; [apply closed_T, H|]. apply closed_cons; [apply closed_T; reflexivity | apply closed_nil].
Qed.

Lemma fmt_array_closed fx lvl multi els :
  Forall (fun m => item_is_el m = true \/ item_ws_ok m = true) multi ->
  (List.length (filter item_is_el multi) <= List.length els)%nat ->
  Forall closed els ->
  closed (fmt_array fx lvl multi els).
Proof.
  intros Hm Hl He. unfold fmt_array. destruct multi as [|m0 multi'].
  - apply closed_cons; [apply closed_T; reflexivity|]. apply closed_cons; [apply closed_T; reflexivity | apply closed_nil].
  - apply closed_app; [apply closed_T; reflexivity|]. apply closed_app; [apply closed_opt, closed_Sp|].
    apply closed_app; [apply arr_loop_closed; auto|]. apply closed_app; [apply closed_opt, closed_Ind|].
    apply closed_T; reflexivity.
Qed.

Lemma fmt_map_closed fx lvl multi kvs :
  Forall closed (map snd kvs) ->
  Forall (fun m => (item_is_key m = true /\ plain m = true /\ In m (map fst kvs)) \/ item_ws_ok m = true) multi ->
  closed (fmt_map fx lvl multi kvs).
Proof.
  intros Hk Hm. unfold fmt_map. destruct multi as [|m0 multi'].
  - apply closed_cons; [apply closed_T; reflexivity|]. apply closed_cons; [apply closed_T; reflexivity | apply closed_nil].
  - apply closed_app; [apply closed_T; reflexivity|]. apply closed_app; [apply closed_opt, closed_Sp|].
    apply closed_app; [apply map_loop_closed; auto|]. apply closed_app; [apply closed_opt, closed_Ind|].
    apply closed_T; reflexivity.
Qed.

Lemma forallb_Forall {A} (f : A -> bool) l : forallb f l = true -> Forall (fun x => f x = true) l.
Proof. intro H. apply Forall_forall. apply forallb_forall. exact H. Qed.

Section Part1.
  Variable fx : fixes.

  Lemma starts_ns_expr e : forall lvl, wf_expr e = true -> starts_ns (fmt_expr fx lvl e).
  Proof.
    induction e as [n|b t|v q|b|e IH|items els IH|items keys vals IH|n args IH|op r IH|op w l r IHl IHr|l i IHl IHi|l s e IHl IHs IHe|l k IHl|l t IHl|e IH] using fexpr_ind'; intros lvl Hwf; cbn [fmt_expr]; cbn [wf_expr] in Hwf.
    - apply starts_ns_T, Hwf.
    - apply starts_ns_T, Hwf.
    - destruct q as [|c r]; [discriminate|]. simpl in Hwf. apply andb_true_iff in Hwf as [Hc _].
      apply N.eqb_eq in Hc. subst. exists 34, r. split; [unfold render; simpl; rewrite app_nil_r|]; reflexivity.
    - destruct b; apply starts_ns_T; reflexivity.
    - auto.
    - unfold fmt_array. destruct (format_multiline items); apply starts_ns_T; reflexivity.
    - unfold fmt_map. destruct (format_multiline items); apply starts_ns_T; reflexivity.
    - apply andb_true_iff in Hwf as [Hn _]. apply starts_ns_T, Hn.
    - apply andb_true_iff in Hwf as [Ho _]. apply starts_ns_T.
      destruct (op_str_cases op) as [->|Hp]; [discriminate | exact Hp].
    - apply andb_true_iff in Hwf as [Hl _]. apply starts_ns_app; auto.
    - apply andb_true_iff in Hwf as [Hl _]. apply starts_ns_app; auto.
    - apply andb_true_iff in Hwf as [Hl _]. apply andb_true_iff in Hl as [Hl _]. apply starts_ns_app; auto.
    - apply andb_true_iff in Hwf as [Hl _]. apply starts_ns_app; auto.
    - apply starts_ns_app; auto.
    - apply starts_ns_T; reflexivity.
  Qed.

  Lemma closed_expr e : forall lvl, wf_expr e = true -> closed (fmt_expr fx lvl e).
  Proof.
    induction e as [n|b t|v q|b|e IH|items els IH|items keys vals IH|n args IH|op r IH|op w l r IHl IHr|l i IHl IHi|l s e IHl IHs IHe|l k IHl|l t IHl|e IH] using fexpr_ind'; intros lvl Hwf; cbn [fmt_expr]; cbn [wf_expr] in Hwf.
    - apply closed_T, Hwf.
    - apply closed_T, Hwf.
    - apply closed_Q, Hwf.
    - destruct b; apply closed_T; reflexivity.
    - auto.
    - (* array literal *)
      apply andb_true_iff in Hwf as [Hwf Hels]. apply andb_true_iff in Hwf as [Hit Hlen].
      apply Nat.eqb_eq in Hlen.
      apply fmt_array_closed.
      + apply fm_loop_Forall. apply forallb_Forall in Hit. eapply Forall_impl; [|exact Hit].
        intros m Hm. simpl in Hm. apply orb_true_iff in Hm. exact Hm.
      + unfold format_multiline. rewrite fm_loop_filter by apply item_nl_not_el. rewrite map_length. lia.
      + apply (Forall_map_closed (fmt_expr fx (S lvl)) wf_expr); auto.
        eapply Forall_impl; [|exact IH]. intros a Ha. apply Ha.
    - (* map literal *)
      repeat (apply andb_true_iff in Hwf as [Hwf ?]).
      match goal with Hl : (_ =? _)%nat = true |- _ => apply Nat.eqb_eq in Hl; rename Hl into Hlen end.
      match goal with Hf : (if list_eq_dec _ _ _ then true else false) = true |- _ => rename Hf into Hkeys end.
      destruct (list_eq_dec str_eq_dec (filter item_is_key items) keys) as [Hk|]; [|discriminate].
      assert (Hl2 : List.length keys = List.length (map (fmt_expr fx (S lvl)) vals)) by (rewrite map_length; exact Hlen).
      apply fmt_map_closed.
      + rewrite map_snd_combine by exact Hl2.
        apply (Forall_map_closed (fmt_expr fx (S lvl)) wf_expr); auto.
        eapply Forall_impl; [|exact IH]. intros a Ha. apply Ha.
      + rewrite map_fst_combine by exact Hl2.
        apply fm_loop_Forall. apply Forall_forall. intros m Hin.
        assert (Hm := proj1 (forallb_forall _ _) Hwf m Hin). simpl in Hm.
        apply orb_true_iff in Hm as [Hm|Hm]; [left|right; exact Hm].
        apply andb_true_iff in Hm as [Hk1 Hp]. repeat split; auto.
        rewrite <- Hk. apply filter_In. split; auto.
    - (* call *)
      apply andb_true_iff in Hwf as [Hn Hargs].
      apply closed_cons; [apply closed_T, Hn|]. apply closed_flat_map.
      apply Forall_forall. intros a Hin. apply closed_cons; [apply closed_Sp|].
      apply (proj1 (Forall_forall _ _) IH a Hin). apply (proj1 (forallb_forall _ _) Hargs a Hin).
    - apply andb_true_iff in Hwf as [Ho Hr]. apply closed_cons; auto. apply closed_T.
      destruct (op_str_cases op) as [->|Hp]; [discriminate | exact Hp].
    - (* binary *)
      apply andb_true_iff in Hwf as [Hl Hr].
      apply closed_app; auto. apply closed_app; [apply closed_write_wss|].
      destruct (op_str_cases op) as [->|Hp].
      + cbn [app]. apply closed_slash.
        * destruct w; cbn [write_wss app]; [apply starts_ns_expr; auto|].
          exists 32, (render (fmt_expr fx lvl r)). split; reflexivity.
        * apply closed_app; [apply closed_write_wss | auto].
      + apply closed_app; [apply closed_T, Hp|]. apply closed_app; [apply closed_write_wss | auto].
    - apply andb_true_iff in Hwf as [Hl Hr].
      apply closed_app; auto. apply closed_app; [apply closed_T; reflexivity|].
      apply closed_app; auto. apply closed_T; reflexivity.
    - (* slice *)
      apply andb_true_iff in Hwf as [Hwf He]. apply andb_true_iff in Hwf as [Hl Hs].
      apply closed_app; auto. apply closed_app; [apply closed_T; reflexivity|].
      apply closed_app; [destruct s as [x|]; [apply (IHs x eq_refl); auto | apply closed_nil]|].
      apply closed_app; [apply closed_T; reflexivity|].
      apply closed_app; [destruct e as [x|]; [apply (IHe x eq_refl); auto | apply closed_nil]|].
      apply closed_T; reflexivity.
    - apply andb_true_iff in Hwf as [Hl Hk]. apply closed_app; auto.
      apply closed_cons; [apply closed_T; reflexivity|]. apply closed_cons; [apply closed_T, Hk | apply closed_nil].
    - apply closed_app; auto. apply closed_app.
      + apply closed_cons; [apply closed_T; reflexivity|]. apply closed_cons; [apply closed_T; reflexivity | apply closed_nil].
      + apply closed_app; [apply fmt_type_closed | apply closed_T; reflexivity].
    - apply closed_app; [apply closed_T; reflexivity|]. apply closed_app; auto. apply closed_T; reflexivity.
  Qed.
End Part1.

(* ---------- the pieces carry exactly the tokens of the tree (no hypothesis) ---------- *)
Lemma toks_opt_Sp (b : bool) : toks (if b then [Sp] else []) = [].
Proof. destruct b; reflexivity. Qed.
Lemma toks_opt_Ind (b : bool) n : toks (if b then [Ind n] else []) = [].
Proof. destruct b; reflexivity. Qed.
Lemma toks_opt_NL (b : bool) : toks (if b then [] else [NL]) = [].
Proof. destruct b; reflexivity. Qed.
Lemma toks_opt_NL' (b : bool) : toks (if b then [NL] else []) = [].
Proof. destruct b; reflexivity. Qed.
Lemma toks_write_wss w : toks (write_wss w) = [].
Proof. destruct w; reflexivity. Qed.

Lemma toks_raw_item m : toks (raw_item m) = item_comment_tokens m.
Proof. unfold raw_item, item_comment_tokens. destruct (item_is_nl m); [reflexivity|]. destruct (ends_with_nl m); reflexivity. Qed.

Lemma arr_item_tokens_fm els items : forall n,
  arr_item_tokens (format_multiline_loop n items) els = arr_item_tokens items els.
Proof.
  revert els. induction items as [|m items IH]; intros els n; [reflexivity|].
  cbn [format_multiline_loop].
  destruct (item_is_nl m) eqn:Enl.
  - assert (Hskip : forall l, arr_item_tokens (m :: l) els = arr_item_tokens l els).
    { intro l. cbn [arr_item_tokens]. rewrite (item_nl_not_el m Enl). unfold item_comment_tokens. rewrite Enl. reflexivity. }
    rewrite Hskip. destruct (S n <=? 2)%nat; [rewrite Hskip|]; apply IH.
  - destruct (item_is_comment m).
    + simpl (1 <=? 2)%nat. cbn iota. cbn [arr_item_tokens]. destruct (item_is_el m); [destruct els|]; rewrite ?IH; reflexivity.
    + simpl (0 <=? 2)%nat. cbn iota. cbn [arr_item_tokens]. destruct (item_is_el m); [destruct els|]; rewrite ?IH; reflexivity.
Qed.

Lemma map_item_tokens_fm kvs items : forall n,
  map_item_tokens (format_multiline_loop n items) kvs = map_item_tokens items kvs.
Proof.
  induction items as [|m items IH]; intros n; [reflexivity|].
  cbn [format_multiline_loop].
  destruct (item_is_nl m) eqn:Enl.
  - assert (Hskip : forall l, map_item_tokens (m :: l) kvs = map_item_tokens l kvs).
    { intro l. cbn [map_item_tokens]. rewrite (item_nl_not_key m Enl). unfold item_comment_tokens. rewrite Enl. reflexivity. }
    rewrite Hskip. destruct (S n <=? 2)%nat; [rewrite Hskip|]; apply IH.
  - destruct (item_is_comment m).
    + simpl (1 <=? 2)%nat. cbn iota. cbn [map_item_tokens]. destruct (item_is_key m); rewrite ?IH; reflexivity.
    + simpl (0 <=? 2)%nat. cbn iota. cbn [map_item_tokens]. destruct (item_is_key m); rewrite ?IH; reflexivity.
Qed.

Lemma toks_arr_loop lvl' (f : fexpr -> list piece) (g : fexpr -> list str) multi : forall els,
  Forall (fun e => toks (f e) = g e) els ->
  toks (arr_loop lvl' multi (map f els)) = arr_item_tokens multi (map g els).
Proof.
  induction multi as [|m rest IH]; intros els H; simpl; auto.
  destruct (item_is_el m).
  - destruct els as [|e els']; simpl; [reflexivity|]. inversion H; subst.
    rewrite !toks_app, toks_opt_Sp, IH by auto. simpl. congruence.
  - rewrite !toks_app, toks_opt_Ind, toks_raw_item, IH by auto. reflexivity.
Qed.

Lemma toks_lookup (f : fexpr -> list piece) (g : fexpr -> list str) k keys : forall vals,
  Forall (fun e => toks (f e) = g e) vals ->
  toks (lookup_pieces k (combine keys (map f vals))) = lookup_tokens k (combine keys (map g vals)).
Proof.
  induction keys as [|k' keys IH]; intros vals H; simpl; [reflexivity|].
  destruct vals as [|v vals]; simpl; [reflexivity|]. inversion H; subst.
  destruct (str_eqb k' k); auto.
Qed.

Lemma toks_map_loop lvl' (f : fexpr -> list piece) (g : fexpr -> list str) keys vals multi :
  Forall (fun e => toks (f e) = g e) vals ->
  toks (map_loop lvl' multi (combine keys (map f vals))) = map_item_tokens multi (combine keys (map g vals)).
Proof.
  intro H. induction multi as [|m rest IH]; simpl; auto.
  destruct (item_is_key m).
  - rewrite !toks_cons, !toks_app, toks_opt_Sp, IH, (toks_lookup f g) by auto. reflexivity.
  - rewrite !toks_app, toks_opt_Ind, toks_raw_item, IH. reflexivity.
Qed.

Lemma toks_tyname n : toks (tyname_pieces n) = ty_tokens (FTy n None).
Proof. destruct n; reflexivity. Qed.

Fixpoint toks_fmt_type (t : fty) : toks (fmt_type t) = ty_tokens t.
Proof.
  destruct t as [n sub]. cbn [fmt_type]. rewrite toks_app, toks_tyname.
  destruct sub as [s|]; [rewrite toks_fmt_type|]; destruct n; reflexivity.
Qed.

Lemma toks_write_decl n t : toks (write_decl n t) = decl_tokens n t.
Proof. unfold write_decl, decl_tokens. rewrite toks_app, toks_fmt_type. reflexivity. Qed.

Lemma toks_write_comment c : toks (write_comment c) = comment_tokens c.
Proof. unfold write_comment, comment_tokens. destruct (is_empty c); reflexivity. Qed.

Lemma toks_write_comment_empty c : toks (write_comment_empty c) = comment_tokens c.
Proof. unfold write_comment_empty, comment_tokens. destruct (is_empty c); reflexivity. Qed.

Lemma toks_flat_map {A} (f : A -> list piece) (g : A -> list str) l :
  Forall (fun x => toks (f x) = g x) l -> toks (flat_map f l) = flat_map g l.
Proof.
  induction l as [|x l IH]; simpl; intro H; auto. inversion H; subst. rewrite toks_app, IH by auto. congruence.
Qed.

Section Part1b.
  Variable fx : fixes.

  Lemma toks_expr e : forall lvl, toks (fmt_expr fx lvl e) = expr_tokens e.
  Proof.
    induction e as [n|b t|v q|b|e IH|items els IH|items keys vals IH|n args IH|op r IH|op w l r IHl IHr|l i IHl IHi|l s e IHl IHs IHe|l k IHl|l t IHl|e IH] using fexpr_ind';
      intros lvl; cbn [fmt_expr expr_tokens]; try reflexivity.
    - auto.
    - (* array *)
      rewrite <- (arr_item_tokens_fm (map expr_tokens els) items 0). fold (format_multiline items).
      unfold fmt_array. destruct (format_multiline items) as [|m0 multi'] eqn:E; [reflexivity|].
      rewrite !toks_app, toks_opt_Sp, toks_opt_Ind.
      rewrite (toks_arr_loop (S lvl) (fmt_expr fx (S lvl)) expr_tokens) by (eapply Forall_impl; [|exact IH]; intros a Ha; apply Ha).
      reflexivity.
    - (* map *)
      rewrite <- (map_item_tokens_fm (combine keys (map expr_tokens vals)) items 0). fold (format_multiline items).
      unfold fmt_map. destruct (format_multiline items) as [|m0 multi'] eqn:E; [reflexivity|].
      rewrite !toks_app, toks_opt_Sp, toks_opt_Ind.
      rewrite (toks_map_loop (S lvl) (fmt_expr fx (S lvl)) expr_tokens) by (eapply Forall_impl; [|exact IH]; intros a Ha; apply Ha).
      reflexivity.
    - (* call *)
      rewrite toks_cons. simpl toks1. cbn [app]. f_equal.
      apply toks_flat_map. eapply Forall_impl; [|exact IH]. intros a Ha. rewrite toks_cons. apply Ha.
    - rewrite toks_cons, IH. reflexivity.
    - rewrite !toks_app, toks_write_wss, IHl, IHr. reflexivity.
    - rewrite !toks_app, IHl, IHi. reflexivity.
    - rewrite !toks_app, IHl.
      destruct s as [x|], e as [y|]; rewrite ?(IHs x eq_refl), ?(IHe y eq_refl); reflexivity.
    - rewrite !toks_app, IHl. reflexivity.
    - rewrite !toks_app, IHl, toks_fmt_type. reflexivity.
    - rewrite !toks_app, IH. reflexivity.
  Qed.
End Part1b.

(* ---------- statements ---------- *)
Lemma ck_T s ps : plain s = true -> closed ps -> closed (T s :: ps).
Proof. intros. apply closed_cons; auto using closed_T. Qed.
Lemma ck_Sp ps : closed ps -> closed (Sp :: ps).
Proof. intros. apply closed_cons; auto using closed_Sp. Qed.
Lemma ck_NL ps : closed ps -> closed (NL :: ps).
Proof. intros. apply closed_cons; auto using closed_NL. Qed.
Lemma ck_Ind n ps : closed ps -> closed (Ind n :: ps).
Proof. intros. apply closed_cons; auto using closed_Ind. Qed.

Lemma comment_ok_nonempty c : comment_ok c = true -> is_empty c = false -> comment_text_ok (trim c) = true.
Proof. unfold comment_ok. intros H E. rewrite E in H. exact H. Qed.

Lemma ck_wc c ps : comment_ok c = true -> closed ps -> closed (write_comment c ++ NL :: ps).
Proof.
  intros H Hp. unfold write_comment. destruct (is_empty c) eqn:E; cbn [app].
  - apply ck_NL, Hp.
  - apply ck_Sp. change (Cm (trim c) :: NL :: ps) with ([Cm (trim c); NL] ++ ps).
    apply closed_app; [apply closed_Cm_NL, comment_ok_nonempty; auto | exact Hp].
Qed.

Lemma ck_wce c ps : comment_ok c = true -> closed ps -> closed (write_comment_empty c ++ NL :: ps).
Proof.
  intros H Hp. unfold write_comment_empty. destruct (is_empty c) eqn:E; cbn [app].
  - apply ck_NL, Hp.
  - change (Cm (trim c) :: NL :: ps) with ([Cm (trim c); NL] ++ ps).
    apply closed_app; [apply closed_Cm_NL, comment_ok_nonempty; auto | exact Hp].
Qed.

Lemma ck_type t ps : closed ps -> closed (fmt_type t ++ ps).
Proof. intro. apply closed_app; auto using fmt_type_closed. Qed.

Lemma ck_decl n t ps : plain n = true -> closed ps -> closed (write_decl n t ++ ps).
Proof. intros. apply closed_app; auto using write_decl_closed. Qed.

Lemma ck_params ps rest : wf_params ps = true -> closed rest -> closed (fmt_params ps ++ rest).
Proof.
  intros H Hr. apply closed_app; auto. unfold fmt_params. apply closed_flat_map.
  apply Forall_forall. intros p Hin. apply ck_Sp. apply write_decl_closed.
  apply (proj1 (forallb_forall _ _) H p Hin).
Qed.

Section Part1c.
  Variable fx : fixes.

  Lemma ck_expr e lvl ps : wf_expr e = true -> closed ps -> closed (fmt_expr fx lvl e ++ ps).
  Proof. intros. apply closed_app; auto using closed_expr. Qed.

  Lemma ck_args lvl args ps : forallb wf_expr args = true -> closed ps ->
    closed (flat_map (fun a => Sp :: fmt_expr fx lvl a) args ++ ps).
  Proof.
    intros H Hp. apply closed_app; auto. apply closed_flat_map. apply Forall_forall. intros a Hin.
    apply ck_Sp, closed_expr. apply (proj1 (forallb_forall _ _) H a Hin).
  Qed.

  Lemma ck_range lvl r ps : wf_range r = true -> closed ps -> closed (fmt_range fx lvl r ++ ps).
  Proof.
    intros H Hp. apply closed_app; auto. destruct r as [a b c|e]; cbn [fmt_range wf_range] in *.
    - apply andb_true_iff in H as [H Hc]. apply andb_true_iff in H as [Ha Hb].
      apply closed_app; [destruct a; [apply ck_expr; auto; apply closed_Sp | apply closed_nil]|].
      apply closed_app; [apply closed_expr, Hb|]. destruct c; [apply ck_Sp, closed_expr, Hc | apply closed_nil].
    - apply closed_expr, H.
  Qed.

  Definition stmt_closedk (s : fstmt) : Prop :=
    forall lvl ps, wf_stmt s = true -> closed ps -> closed (fmt_stmt fx lvl s ++ NL :: ps).

  Lemma ck_stmts lvl' lvl'' body : Forall stmt_closedk body -> forallb wf_stmt body = true ->
    forall e ps, closed ps ->
    closed (stmts_loop lvl' e (map (fun x => (is_blank x, fmt_stmt fx lvl'' x)) body) ++ ps).
  Proof.
    induction body as [|s body IH]; intros HF Hwf e ps Hps; cbn [map stmts_loop app]; [exact Hps|].
    inversion HF as [|? ? Hs HF']; subst. cbn [forallb] in Hwf. apply andb_true_iff in Hwf as [Hw1 Hw2].
    destruct (is_blank s).
    - rewrite <- app_assoc. apply closed_app; [destruct e; [apply closed_nil | apply closed_NL]|]. apply IH; auto.
    - cbn [app]. rewrite <- app_assoc. cbn [app]. apply ck_Ind. apply Hs; auto.
  Qed.

  Ltac split_wf :=
    repeat match goal with
           | H : _ && _ = true |- _ => apply andb_true_iff in H; destruct H
           end.

  Ltac norm := repeat (progress (rewrite <- ?app_assoc; cbn [app])).

  Ltac ck1 :=
    lazymatch goal with
    | |- closed [] => apply closed_nil
    | |- closed (Sp :: _) => apply ck_Sp
    | |- closed (NL :: _) => apply ck_NL
    | |- closed (Ind _ :: _) => apply ck_Ind
    | |- closed (T _ :: _) => apply ck_T; [first [assumption | reflexivity] |]
    | |- closed (write_comment _ ++ NL :: _) => apply ck_wc; [assumption|]
    | |- closed (write_comment_empty _ ++ NL :: _) => apply ck_wce; [assumption|]
    | |- closed (fmt_expr _ _ _ ++ _) => apply ck_expr; [assumption|]
    | |- closed (flat_map (fun a => Sp :: fmt_expr _ _ a) _ ++ _) => apply ck_args; [assumption|]
    | |- closed (fmt_range _ _ _ ++ _) => apply ck_range; [assumption|]
    | |- closed (write_decl _ _ ++ _) => apply ck_decl; [assumption|]
    | |- closed (fmt_type _ ++ _) => apply ck_type
    | |- closed (fmt_params _ ++ _) => apply ck_params; [assumption|]
    | |- closed (stmts_loop _ _ _ ++ _) => apply ck_stmts; [assumption | assumption |]
    | |- closed _ => assumption
    end.
  Ltac ck := repeat ck1.

  Lemma closed_stmt s : stmt_closedk s.
  Proof.
    induction s as [c|n t c|n v c|t v c|n a c|v c|c|ifb elifs els cend IHif IHelifs IHels
                   |cond ch body ce IHb|lv r ch body ce IHb|n rt ps v ch body ce IHb|n ps ch body ce IHb]
      using fstmt_ind'; intros lvl rest Hwf Hps; cbn [fmt_stmt]; unfold fmt_call; cbn [wf_stmt] in Hwf.
    - ck.
    - split_wf. norm. ck.
    - split_wf. norm. ck.
    - split_wf. norm. ck.
    - split_wf. norm. ck.
    - split_wf. destruct v; norm; ck.
    - norm. ck.
    - (* if *)
      destruct ifb as [cond c body]. split_wf. cbn [Pblock] in IHif.
      norm. ck.
      (* else-if blocks *)
      match goal with |- closed (flat_map ?f elifs ++ ?r) =>
        assert (Hel : forall ps, closed ps -> closed (flat_map f elifs ++ ps)) end.
      { match goal with H : forallb _ elifs = true |- _ => rename H into Helifs end.
        clear - IHelifs Helifs.
        induction elifs as [|cb elifs IHl]; intros ps Hp; cbn [flat_map app]; [exact Hp|].
        inversion IHelifs as [|? ? Hcb Hrest]; subst. cbn [forallb] in Helifs.
        apply andb_true_iff in Helifs as [Hw1 Hw2].
        destruct cb as [cond0 c0 body0]. cbn [Pblock] in Hcb. split_wf.
        norm. ck. apply IHl; auto. }
      apply Hel.
      destruct els as [[c0 body0]|].
      + specialize (IHels c0 body0 eq_refl). split_wf. norm. ck.
      + cbn [app]. ck.
    - split_wf. norm. ck.
    - split_wf. destruct lv; norm; ck.
    - split_wf. destruct rt, v; norm; ck.
    - split_wf. norm. ck.
  Qed.
End Part1c.

Lemma toks_nil : toks [] = [].
Proof. reflexivity. Qed.

Lemma is_blank_tokens s : is_blank s = true -> stmt_tokens s = [].
Proof.
  destruct s; simpl; try discriminate. intro H. unfold comment_tokens. rewrite H. reflexivity.
Qed.

Section Part1d.
  Variable fx : fixes.

  Lemma toks_args lvl args : toks (flat_map (fun a => Sp :: fmt_expr fx lvl a) args) = flat_map expr_tokens args.
  Proof.
    apply toks_flat_map. apply Forall_forall. intros a _. rewrite toks_cons. apply toks_expr.
  Qed.

  Lemma toks_range lvl r : toks (fmt_range fx lvl r) = range_tokens r.
  Proof.
    destruct r as [a b c|e]; cbn [fmt_range range_tokens]; [|apply toks_expr].
    rewrite !toks_app, toks_expr. destruct a, c; rewrite ?toks_app, ?toks_cons, ?toks_expr, ?toks_nil; cbn [toks1 app]; rewrite ?app_nil_r; reflexivity.
  Qed.

  Lemma toks_params ps : toks (fmt_params ps) = params_tokens ps.
  Proof.
    unfold fmt_params, params_tokens. apply toks_flat_map. apply Forall_forall. intros p _.
    rewrite toks_cons. apply toks_write_decl.
  Qed.

  Definition stmt_toks_ok (s : fstmt) : Prop := forall lvl, toks (fmt_stmt fx lvl s) = stmt_tokens s.

  Lemma toks_stmts lvl' lvl'' body : Forall stmt_toks_ok body -> forall e,
    toks (stmts_loop lvl' e (map (fun x => (is_blank x, fmt_stmt fx lvl'' x)) body)) = flat_map stmt_tokens body.
  Proof.
    induction body as [|s body IH]; intros HF e; [reflexivity|].
    inversion HF as [|? ? Hs HF']; subst. cbn [map stmts_loop flat_map].
    destruct (is_blank s) eqn:Eb.
    - rewrite toks_app, toks_opt_NL, IH, (is_blank_tokens s Eb) by auto. reflexivity.
    - rewrite !toks_app, IH, Hs by auto. reflexivity.
  Qed.

  Ltac tk :=
    repeat (progress (rewrite ?toks_app, ?toks_cons, ?toks_nil, ?toks_write_comment, ?toks_write_comment_empty, ?toks_expr,
                       ?toks_write_decl, ?toks_fmt_type, ?toks_args, ?toks_range, ?toks_params));
    cbn [toks1].

  Lemma toks_stmt s : stmt_toks_ok s.
  Proof.
    induction s as [c|n t c|n v c|t v c|n a c|v c|c|ifb elifs els cend IHif IHelifs IHels
                   |cond ch body ce IHb|lv r ch body ce IHb|n rt ps v ch body ce IHb|n ps ch body ce IHb]
      using fstmt_ind'; intros lvl; cbn [fmt_stmt stmt_tokens]; unfold fmt_call.
    - tk. reflexivity.
    - tk. reflexivity.
    - tk. reflexivity.
    - tk. rewrite <- ?app_assoc. reflexivity.
    - tk. reflexivity.
    - destruct v; tk; reflexivity.
    - tk. reflexivity.
    - (* if *)
      destruct ifb as [cond c body]. cbn [Pblock] in IHif.
      tk. rewrite (toks_stmts _ _ body) by assumption.
      assert (Hel : forall f g,
                 (forall cond0 c0 body0, Forall stmt_toks_ok body0 ->
                    toks (f (CBlock cond0 c0 body0)) = g (CBlock cond0 c0 body0)) ->
                 toks (flat_map f elifs) = flat_map g elifs).
      { intros f g Hfg. apply toks_flat_map. eapply Forall_impl; [|exact IHelifs].
        intros [cond0 c0 body0] Hb. apply Hfg. exact Hb. }
      match goal with |- ?lhs = ?rhs =>
        match lhs with context [toks (flat_map ?f elifs)] =>
          match rhs with context [flat_map ?g elifs] => rewrite (Hel f g) end end end.
      2:{ intros cond0 c0 body0 Hb. tk. rewrite (toks_stmts _ _ body0) by assumption.
          cbn [app]. rewrite <- ?app_assoc. reflexivity. }
      destruct els as [[c0 body0]|].
      + specialize (IHels c0 body0 eq_refl). tk. rewrite (toks_stmts _ _ body0) by assumption.
        cbn [app]. rewrite <- ?app_assoc. reflexivity.
      + tk. cbn [app]. rewrite <- ?app_assoc. reflexivity.
    - tk. rewrite (toks_stmts _ _ body) by assumption. cbn [app]. rewrite <- ?app_assoc. reflexivity.
    - destruct lv; tk; rewrite (toks_stmts _ _ body) by assumption; cbn [app]; rewrite <- ?app_assoc; reflexivity.
    - destruct rt, v; tk; rewrite (toks_stmts _ _ body) by assumption; cbn [app]; rewrite <- ?app_assoc; reflexivity.
    - tk. rewrite (toks_stmts _ _ body) by assumption. cbn [app]. rewrite <- ?app_assoc. reflexivity.
  Qed.
End Part1d.

Section Part1e.
  Variable fx : fixes.

  Lemma prog_loop_closed nl l : forallb wf_stmt l = true -> forall i e, closed (prog_loop fx nl i e l).
  Proof.
    induction l as [|s l IH]; intros Hwf i e; cbn [prog_loop]; [apply closed_nil|].
    cbn [forallb] in Hwf. apply andb_true_iff in Hwf as [Hw1 Hw2].
    destruct (is_blank s).
    - apply closed_app; [destruct e; [apply closed_nil | apply closed_NL]|]. apply IH, Hw2.
    - cbn [app]. apply ck_Ind. apply closed_stmt; auto.
      apply closed_app; [destruct (mem_nat i nl); [apply closed_NL | apply closed_nil]|]. apply IH, Hw2.
  Qed.

  Lemma prog_loop_toks nl l : forall i e, toks (prog_loop fx nl i e l) = flat_map stmt_tokens l.
  Proof.
    induction l as [|s l IH]; intros i e; cbn [prog_loop flat_map]; [reflexivity|].
    destruct (is_blank s) eqn:Eb.
    - rewrite toks_app, toks_opt_NL, IH, (is_blank_tokens s Eb). reflexivity.
    - rewrite !toks_app, toks_opt_NL', IH, toks_stmt. reflexivity.
  Qed.

  Lemma fmt_prog_closed p : wf_prog p = true -> closed (fmt_prog fx p).
  Proof.
    intro H. unfold fmt_prog. destruct p as [|s p]; [apply closed_NL|]. apply prog_loop_closed, H.
  Qed.

  Lemma fmt_prog_toks p : toks (fmt_prog fx p) = tokens_of_ast p.
  Proof. unfold fmt_prog, tokens_of_ast. destruct p as [|s p]; [reflexivity|]. apply prog_loop_toks. Qed.

  (* C06: the formatter emits exactly the tree's tokens: nothing dropped, nothing
     invented, only white space added *)
  Theorem format_emits_tree_tokens p : wf_prog p = true ->
    strip_ws (format fx p) = concat (tokens_of_ast p).
  Proof.
    intro H. unfold strip_ws, format. pose proof (fmt_prog_closed p H []) as Hc.
    rewrite !app_nil_r in Hc. rewrite Hc, fmt_prog_toks. reflexivity.
  Qed.
End Part1e.
