(* FormatProofs.v — lemmas about the formatter model (Format.v).
   Part 1 (C06): the formatter emits exactly the tree's tokens.
   Part 2 (C07): shape of the output, blank-line logic, idempotence on the skeleton. *)
From Coq Require Import ZArith NArith List Bool Lia Arith.
From EvyV Require Import Base FmtAst Format.
Import ListNotations.
Open Scope N_scope.

(* ====================================================================== *)
(* Part 1 — C06                                                            *)
(* ====================================================================== *)

(* the token texts among the pieces *)
Definition toks1 (p : piece) : list str := match p with T s | Q s | Cm s => [s] | _ => [] end.
Definition toks (ps : list piece) : list str := flat_map toks1 ps.

Lemma render_app a b : render (a ++ b) = render a ++ render b.
Proof. apply flat_map_app. Qed.

Lemma toks_app a b : toks (a ++ b) = toks a ++ toks b.
Proof. apply flat_map_app. Qed.

Lemma render_cons p ps : render (p :: ps) = render1 p ++ render ps.
Proof. reflexivity. Qed.

Lemma toks_cons p ps : toks (p :: ps) = toks1 p ++ toks ps.
Proof. reflexivity. Qed.

(* [closed ps]: scanning the rendering of ps in code mode yields exactly its
   tokens and leaves the scanner in code mode, whatever follows. *)
Definition closed (ps : list piece) : Prop :=
  forall rest, strip MCode (render ps ++ rest) = concat (toks ps) ++ strip MCode rest.

Lemma closed_nil : closed [].
Proof. intro rest. reflexivity. Qed.

Lemma closed_app a b : closed a -> closed b -> closed (a ++ b).
Proof.
  intros Ha Hb rest. rewrite render_app, toks_app, concat_app, <- !app_assoc, Ha, Hb. reflexivity.
Qed.

Lemma closed_cons p ps : closed [p] -> closed ps -> closed (p :: ps).
Proof. intros. change (p :: ps) with ([p] ++ ps). apply closed_app; assumption. Qed.

Lemma closed_Sp : closed [Sp].
Proof. intro rest. reflexivity. Qed.

Lemma closed_NL : closed [NL].
Proof. intro rest. reflexivity. Qed.

Lemma strip_spaces n rest : strip MCode (spaces n ++ rest) = strip MCode rest.
Proof. induction n; simpl; auto. Qed.

Lemma closed_Ind n : closed [Ind n].
Proof. intro rest. unfold render; simpl. rewrite app_nil_r. apply strip_spaces. Qed.

Lemma plain_char_spec c : plain_char c = true -> is_ws c = false /\ (c =? 34) = false /\ (c =? 47) = false.
Proof.
  unfold plain_char, is_ws. intro H.
  apply andb_true_iff in H as [H H3]. apply andb_true_iff in H as [H1 H2].
  apply negb_true_iff in H1, H2, H3. repeat split; auto.
  unfold is_space in H1. repeat (apply orb_false_iff in H1 as [H1 ?]).
  apply orb_false_iff; split; auto.
  destruct (N.eqb_spec c 10); auto. subst c. discriminate.
Qed.

Lemma strip_plain s rest : forallb plain_char s = true ->
  strip MCode (s ++ rest) = s ++ strip MCode rest.
Proof.
  induction s as [|c s IH]; simpl; intro H; auto.
  apply andb_true_iff in H as [Hc Hs]. apply plain_char_spec in Hc as (H1 & H2 & H3).
  rewrite H1, H2, H3. simpl. rewrite IH; auto.
Qed.

Lemma closed_T_plain s : forallb plain_char s = true -> closed [T s].
Proof. intros H rest. unfold render, toks; simpl. rewrite !app_nil_r. apply strip_plain, H. Qed.

Lemma plain_forall s : plain s = true -> forallb plain_char s = true.
Proof. unfold plain. intro H. apply andb_true_iff in H. tauto. Qed.

Lemma closed_T s : plain s = true -> closed [T s].
Proof. intro H. apply closed_T_plain, plain_forall, H. Qed.

(* string literals *)
Lemma strip_scan_str r : forall esc rest, scan_str esc r = true ->
  strip (if esc then MStrEsc else MStr) (r ++ rest) = r ++ strip MCode rest.
Proof.
  induction r as [|c r IH]; simpl; intros esc rest H; [discriminate|].
  destruct (c =? 10) eqn:E10; [discriminate|].
  destruct esc.
  - rewrite (IH false); auto.
  - destruct (c =? 92) eqn:E92.
    + rewrite (IH true); auto.
    + destruct (c =? 34) eqn:E34.
      * destruct r; [reflexivity | discriminate].
      * rewrite (IH false); auto.
Qed.

Lemma closed_Q q : quoted_ok q = true -> closed [Q q].
Proof.
  intros H rest. unfold render, toks; simpl. rewrite !app_nil_r.
  destruct q as [|c r]; [discriminate|]. simpl in H. apply andb_true_iff in H as [Hc Hr].
  simpl. unfold is_ws. apply N.eqb_eq in Hc. subst c. simpl.
  f_equal. apply (strip_scan_str r false rest Hr).
Qed.

(* comments: "//..." up to the newline that follows *)
Lemma strip_comment_body c rest : no_nl c = true ->
  strip MComment (c ++ 10 :: rest) = c ++ strip MCode rest.
Proof.
  induction c as [|x c IH]; simpl; intro H; auto.
  apply andb_true_iff in H as [Hx Hc]. apply negb_true_iff in Hx. rewrite Hx. f_equal. auto.
Qed.

Lemma comment_text_ok_spec c : comment_text_ok c = true ->
  exists r, c = 47 :: 47 :: r /\ no_nl r = true.
Proof.
  unfold comment_text_ok. intro H. apply andb_true_iff in H as [H _]. apply andb_true_iff in H as [Hp Hn].
  destruct c as [|a [|b r]]; unfold k_slashes in Hp; cbn [has_prefix] in Hp; try rewrite andb_false_r in Hp; try discriminate Hp.
  apply andb_true_iff in Hp as [Ha Hb]. apply andb_true_iff in Hb as [Hb _].
  apply N.eqb_eq in Ha, Hb. subst. exists r. split; auto.
Qed.

Lemma closed_Cm_NL c : comment_text_ok c = true -> closed [Cm c; NL].
Proof.
  intros H rest. apply comment_text_ok_spec in H as (r & -> & Hr).
  unfold render, toks; simpl. rewrite !app_nil_r. f_equal. f_equal.
  rewrite <- app_assoc. simpl. apply strip_comment_body, Hr.
Qed.

(* the division operator: "/" must not be followed by another "/" *)
Definition starts_ns (ps : list piece) : Prop :=
  exists c r, render ps = c :: r /\ (c =? 47) = false.

Lemma strip_slash c r : (c =? 47) = false -> strip MCode (47 :: c :: r) = 47 :: strip MCode (c :: r).
Proof.
  intro H.
  change (strip MCode (47 :: c :: r)) with
    (if is_ws 47 then strip MCode (c :: r)
     else if 47 =? 34 then 47 :: strip MStr (c :: r)
     else if (47 =? 47) && (c =? 47) then 47 :: strip MComment (c :: r)
     else 47 :: strip MCode (c :: r)).
  rewrite H. reflexivity.
Qed.

Lemma closed_slash ps : starts_ns ps -> closed ps -> closed (T (op_str OpSlash) :: ps).
Proof.
  intros (c & r & Hr & Hc) Hcl rest.
  rewrite render_cons, toks_cons, concat_app.
  change (render1 (T (op_str OpSlash))) with [47].
  change (concat (toks1 (T (op_str OpSlash)))) with [47].
  rewrite <- !app_assoc. rewrite <- (Hcl rest). rewrite Hr.
  change ([47] ++ (c :: r) ++ rest) with (47 :: c :: (r ++ rest)).
  change ((c :: r) ++ rest) with (c :: (r ++ rest)).
  rewrite strip_slash; auto.
Qed.

Lemma starts_ns_app a b : starts_ns a -> starts_ns (a ++ b).
Proof. intros (c & r & H & Hc). exists c, (r ++ render b). rewrite render_app, H. split; auto. Qed.

Lemma starts_ns_T s ps : plain s = true -> starts_ns (T s :: ps).
Proof.
  intro H. unfold plain in H. apply andb_true_iff in H as [Hne Hall].
  destruct s as [|c s]; [discriminate|]. simpl in Hall. apply andb_true_iff in Hall as [Hc _].
  apply plain_char_spec in Hc as (_ & _ & H47).
  exists c, (s ++ render ps). split; auto.
Qed.

Lemma op_str_cases o : o = OpSlash \/ plain (op_str o) = true.
Proof. destruct o; auto; right; reflexivity. Qed.

(* ---------- multi-line items ---------- *)
Lemma item_nl_not_el m : item_is_nl m = true -> item_is_el m = false.
Proof. unfold item_is_nl, item_is_el. intro H. apply str_eqb_eq in H. subst. reflexivity. Qed.

Lemma item_nl_not_comment m : item_is_nl m = true -> item_is_comment m = false.
Proof. unfold item_is_nl. intro H. apply str_eqb_eq in H. subst. reflexivity. Qed.

Lemma item_nl_not_key m : item_is_nl m = true -> item_is_key m = false.
Proof. unfold item_is_key. intro H. rewrite H. reflexivity. Qed.

(* formatMultiline only drops newline items *)
Lemma fm_loop_Forall (P : str -> Prop) items : forall n, Forall P items -> Forall P (format_multiline_loop n items).
Proof.
  induction items as [|m items IH]; simpl; intros n H; auto.
  inversion H; subst.
  match goal with |- Forall P (if ?b then _ else _) => destruct b end; auto.
Qed.

Lemma fm_loop_filter (f : str -> bool) items :
  (forall m, item_is_nl m = true -> f m = false) ->
  forall n, filter f (format_multiline_loop n items) = filter f items.
Proof.
  intros Hf. induction items as [|m items IH]; simpl; intro n; auto.
  destruct (item_is_nl m) eqn:Enl.
  - rewrite (Hf m Enl). destruct (S n <=? 2)%nat; simpl; rewrite ?(Hf m Enl); auto.
  - destruct (item_is_comment m); simpl; rewrite IH; reflexivity.
Qed.

Lemma raw_item_closed m : item_ws_ok m = true -> closed (raw_item m).
Proof.
  unfold item_ws_ok, raw_item. intro H. destruct (item_is_nl m); [apply closed_NL|].
  simpl in H. apply andb_true_iff in H as [He Hc]. rewrite He. apply closed_Cm_NL, Hc.
Qed.

Lemma closed_opt (b : bool) ps : closed ps -> closed (if b then ps else []).
Proof. destruct b; auto using closed_nil. Qed.

Lemma arr_loop_closed lvl' multi : forall els,
  Forall (fun m => item_is_el m = true \/ item_ws_ok m = true) multi ->
  (List.length (filter item_is_el multi) <= List.length els)%nat ->
  Forall closed els ->
  closed (arr_loop lvl' multi els).
Proof.
  induction multi as [|m rest IH]; simpl; intros els Hm Hlen Hels; [apply closed_nil|].
  inversion Hm as [|? ? Hm1 Hm2]; subst.
  destruct (item_is_el m) eqn:Eel.
  - simpl in Hlen. destruct els as [|e els']; [simpl in Hlen; lia|].
    inversion Hels; subst. apply closed_app; auto. apply closed_app.
    + apply closed_opt, closed_Sp.
    + apply IH; auto. simpl in Hlen. lia.
  - destruct Hm1 as [Hm1|Hm1]; [congruence|].
    apply closed_app; [apply raw_item_closed, Hm1|]. apply closed_app.
    + apply closed_opt, closed_Ind.
    + apply IH; auto.
Qed.

Lemma lookup_closed k kvs : In k (map fst kvs) -> Forall closed (map snd kvs) -> closed (lookup_pieces k kvs).
Proof.
  induction kvs as [|[k' v] t IH]; simpl; intros Hin Hall; [contradiction|].
  inversion Hall; subst. destruct (str_eqb k' k) eqn:E; auto.
  apply IH; auto. destruct Hin as [->|]; auto. rewrite str_eqb_refl in E. discriminate.
Qed.

Lemma ws_ok_not_key m : item_ws_ok m = true -> item_is_key m = false.
Proof.
  unfold item_ws_ok, item_is_key. intro H. destruct (item_is_nl m); [reflexivity|].
  simpl in H. apply andb_true_iff in H as [_ Hc]. apply comment_text_ok_spec in Hc as (r & Hr & _).
  destruct m as [|a [|b [|c t]]]; try discriminate Hr.
  change (removelast (a :: b :: c :: t)) with (a :: b :: removelast (c :: t)) in Hr.
  injection Hr as -> -> _. reflexivity.
Qed.

Lemma map_loop_closed lvl' kvs multi :
  Forall closed (map snd kvs) ->
  Forall (fun m => (item_is_key m = true /\ plain m = true /\ In m (map fst kvs)) \/ item_ws_ok m = true) multi ->
  closed (map_loop lvl' multi kvs).
Proof.
  intro Hk. induction multi as [|m rest IH]; simpl; intro Hm; [apply closed_nil|].
  inversion Hm as [|? ? Hm1 Hm2]; subst.
  destruct (item_is_key m) eqn:Ek.
  - destruct Hm1 as [(_ & Hp & Hin)|Hws].
    + apply closed_cons; [apply closed_T, Hp|]. apply closed_cons; [apply closed_T; reflexivity|].
      apply closed_app; [apply lookup_closed; auto|]. apply closed_app; [apply closed_opt, closed_Sp|]. auto.
    + apply ws_ok_not_key in Hws. congruence.
  - destruct Hm1 as [(Hk' & _)|Hws]; [congruence|].
    apply closed_app; [apply raw_item_closed, Hws|]. apply closed_app; [apply closed_opt, closed_Ind|]. auto.
Qed.
