(* TypesFixed.v — the corrected variants of the functions of Types.v that
   carry a defect on the unchanged tree (see findings.d/C04.txt and
   proposed_fixes/).  Switching the model after a fix in /repo is replacing
   the function by its _fixed variant; the unguarded theorems are proved for
   these in TypesProofs.v.  No proofs here. *)
From Coq Require Import List Bool.
From EvyV Require Import Base TypesSyntax Types.
Import ListNotations.

(* some node of the chain is Fixed *)
Fixpoint has_fixed (t : ty) : bool :=
  match t with TArr f s | TMap f s => f || has_fixed s | _ => false end.

(* for Equal types: Fixed wherever either is *)
Fixpoint merge_fixed (c t : ty) : ty :=
  match c, t with
  | TArr f s, TArr f' s' => TArr (f || f') (merge_fixed s s')
  | TMap f s, TMap f' s' => TMap (f || f') (merge_fixed s s')
  | _, _ => c
  end.

(* combineTypes, one iteration, corrected:
   - Equal types keep every Fixed flag of both (the unchanged code keeps
     combinedT and thereby forgets that a later element is a variable);
   - a type containing a Fixed node (a variable) is kept when the other,
     Fixed-free, side can be converted to it (the unchanged code answers any);
   - everything else as before. *)
Definition combine2_fixed (c t : ty) : option ty :=
  if equals c t then Some (merge_fixed c t)
  else if has_fixed c || has_fixed t then
    if has_fixed c && negb (has_fixed t) && accepts c t then Some c
    else if has_fixed t && negb (has_fixed c) && accepts t c then Some t
    else Some TAny
  else combine2 c t.

Fixpoint combine_from_fixed (c : ty) (ts : list ty) : option ty :=
  match ts with
  | [] => Some c
  | t :: rest => match combine2_fixed c t with Some c' => combine_from_fixed c' rest | None => None end
  end.

Definition combine_fixed (ts : list ty) : option ty :=
  match ts with [] => None | c :: rest => combine_from_fixed c rest end.

(* parseBinaryExpr corrected: only a concatenation whose left operand is the
   untyped empty array takes the right operand's type; [] * n keeps the
   (untyped empty) array type *)
Definition binary_node_type_fixed (op : binop) (lt rt : ty) : ty :=
  let exp := if is_comparison op then TBool else lt in
  if is_empty_arr exp && match op with OpPlus => true | _ => false end then rt else exp.
