(* Seal.v — model of the sealed-answer envelope and of answer verification in
   /repo/learn/pkg/learn:

     encrypt.go     Encrypt / Decrypt / hybridEncrypt / hybridDecrypt
     questionfm.go  questionFrontmatter.Seal / Unseal / getAnswer
     answer.go      NewAnswer, validateSingle, validateMulti, splitTrim,
                    Answer.correctAnswerIndices
     question.go    QuestionModel.Verify, getVerifiedAnswer, verifyMatch,
                    verifyChoiceMatch, verifyTextMatch

   The cryptographic primitives (RSA-OAEP, AES-GCM with the zero nonce,
   base64, PKCS#1 key parsing) and the evy interpreter (renderer.go: runEvy)
   are Section variables, never axioms; the two closed instances at the end
   ([toy_*], [ideal_*]) are what the extracted entry point runs and what the
   non-vacuity examples use.

   Go strings are byte strings; [[]byte(s)] / [string(b)] are the identity.
   Both are [list N] here ([Base.str]); for the envelope the elements are
   bytes, for the answer text they are code points (the only places where the
   code inspects the text — [len(str) != 1 || str[0] < 'a' || str[0] > 'z'],
   [strings.Split(str, ",")], [strings.TrimSpace] — give the same result on
   the UTF-8 bytes and on the code points of a valid UTF-8 string). *)
From Coq Require Import ZArith NArith List Bool String.
From EvyV Require Import Base.
Import ListNotations.
Open Scope N_scope.

Definition bytes := list N.

(* error classes (learn.go sentinels and the wrapped library errors) *)
Inductive err : Type :=
| EBadKey        (* parsePublicKey / parsePrivateKey failed *)
| EBase64        (* base64.StdEncoding.DecodeString failed *)
| EShort         (* ErrSealedTooShort *)
| ERsa           (* rsa.EncryptOAEP / rsa.DecryptOAEP failed (rsa.ErrDecryption) *)
| EAesKey        (* aes.NewCipher: invalid key size *)
| EGcm           (* gcm.Open: message authentication failed *)
| ENoAnswer      (* ErrNoFrontmatterAnswer *)
| ENoKey         (* ErrSealedAnswerNoKey *)
| ESingleChoice  (* ErrSingleChoice *)
| EWrongAnswer   (* ErrWrongAnswer *)
| EInvalidFm.    (* ErrInvalidFrontmatter *)

Inductive res (A : Type) : Type :=
| Ok (a : A)
| Err (e : err).
Arguments Ok {A} a.
Arguments Err {A} e.

Definition bytes_eqb : bytes -> bytes -> bool := str_eqb.
Definition is_nil {A} (l : list A) : bool := match l with [] => true | _ => false end.

(* ------------------------------------------------------------------ *)
(* framing — the byte layout of hybridEncrypt / hybridDecrypt          *)
(*   Version (1 byte) || RSA ciphertext length (2 bytes, big endian)   *)
(*   || RSA ciphertext || AES ciphertext                               *)
(* ------------------------------------------------------------------ *)

(* binary.BigEndian.PutUint16(ciphertext[1:], uint16(len(rsaCiphertext))):
   the conversion to uint16 truncates ("lax about overflow") *)
Definition be16 (n : N) : bytes := [ (n / 256) mod 256 ; n mod 256 ].

(* hybridEncrypt, lines "ciphertext := make([]byte, 3)" … "append" … gcm.Seal(ciphertext, …) *)
Definition frame (r a : bytes) : bytes :=
  1 :: be16 (N.of_nat (List.length r)) ++ r ++ a.

(* hybridDecrypt, the two length checks and the two slice expressions.
   ciphertext[0] (the version) is never looked at. *)
Definition unframe (c : bytes) : option (bytes * bytes) :=
  match c with
  | _ :: hi :: lo :: rest =>
      let rsaLen := hi * 256 + lo in                       (* binary.BigEndian.Uint16(ciphertext[1:]) *)
      if N.of_nat (List.length c) <? rsaLen + 3 then None  (* len(ciphertext) < rsaLen+3 *)
      else Some (firstn (N.to_nat rsaLen) rest,            (* ciphertext[3 : rsaLen+3] *)
                 skipn (N.to_nat rsaLen) rest)             (* ciphertext[rsaLen+3:]    *)
  | _ => None                                              (* len(ciphertext) < 3 *)
  end.

(* aes.NewCipher accepts exactly 16, 24 and 32 byte keys *)
Definition aes_key_ok (k : bytes) : bool :=
  let n := List.length k in
  Nat.eqb n 16 || Nat.eqb n 24 || Nat.eqb n 32.

(* const sessionKeyBytes = 32 *)
Definition session_key_bytes : nat := 32.

(* ------------------------------------------------------------------ *)
(* answer types and the front matter fields the property is about      *)
(* ------------------------------------------------------------------ *)
Inductive atype : Type := SingleChoice | MultipleChoice | TextAnswer.

Record fm : Type := mkFm {
  fm_type : atype;     (* answer-type *)
  answer : str;        (* answer *)
  sealed : str         (* sealed-answer *)
}.

Section Envelope.
  Variables PK SK RND : Type.
  Variable parse_pub : str -> option PK.            (* parsePublicKey  (base64 + x509.ParsePKCS1PublicKey) *)
  Variable parse_priv : str -> option SK.           (* parsePrivateKey (base64 + x509.ParsePKCS1PrivateKey) *)
  Variable rsa_enc : PK -> RND -> bytes -> option bytes.  (* rsa.EncryptOAEP(sha256, rand, pk, msg, nil) *)
  Variable rsa_dec : SK -> bytes -> option bytes.         (* rsa.DecryptOAEP(sha256, nil, sk, c, nil) *)
  Variable gcm_seal : bytes -> bytes -> bytes.            (* key, plaintext ↦ gcm.Seal(nil, zeroNonce, p, nil) *)
  Variable gcm_open : bytes -> bytes -> option bytes.     (* key, ciphertext ↦ gcm.Open(nil, zeroNonce, c, nil) *)
  Variable b64_enc : bytes -> str.                        (* base64.StdEncoding.EncodeToString *)
  Variable b64_dec : str -> option bytes.                 (* base64.StdEncoding.DecodeString *)

  (* hybridEncrypt. [k] is the session key read from rand.Reader (32 bytes in
     the code), [rnd] the randomness consumed by OAEP. *)
  Definition hybrid_encrypt (pk : PK) (k : bytes) (rnd : RND) (p : bytes) : res bytes :=
    if negb (aes_key_ok k) then Err EAesKey               (* aes.NewCipher(sessionKey) *)
    else match rsa_enc pk rnd k with
         | None => Err ERsa
         | Some rc => Ok (frame rc (gcm_seal k p))
         end.

  (* hybridDecrypt *)
  Definition hybrid_decrypt (sk : SK) (c : bytes) : res bytes :=
    match unframe c with
    | None => Err EShort
    | Some (rc, ac) =>
        match rsa_dec sk rc with
        | None => Err ERsa
        | Some k =>
            if negb (aes_key_ok k) then Err EAesKey       (* aes.NewCipher(sessionKey) *)
            else match gcm_open k ac with
                 | None => Err EGcm
                 | Some p => Ok p
                 end
        end
    end.

  (* Encrypt *)
  Definition encrypt (pubs : str) (k : bytes) (rnd : RND) (p : str) : res str :=
    match parse_pub pubs with
    | None => Err EBadKey
    | Some pk => match hybrid_encrypt pk k rnd p with
                 | Err e => Err e
                 | Ok c => Ok (b64_enc c)
                 end
    end.

  (* Decrypt: base64 first, then the key, then hybridDecrypt *)
  Definition decrypt (privs : str) (c : str) : res str :=
    match b64_dec c with
    | None => Err EBase64
    | Some bs => match parse_priv privs with
                 | None => Err EBadKey
                 | Some sk => hybrid_decrypt sk bs
                 end
    end.

  (* questionFrontmatter.Seal *)
  Definition seal_fm (pubs : str) (k : bytes) (rnd : RND) (f : fm) : res fm :=
    if is_nil (answer f) && negb (is_nil (sealed f)) then Ok f      (* already sealed *)
    else if is_nil (answer f) then Err ENoAnswer
    else match encrypt pubs k rnd (answer f) with
         | Err e => Err e
         | Ok s => Ok (mkFm (fm_type f) [] s)
         end.

  (* questionFrontmatter.Unseal *)
  Definition unseal_fm (privs : str) (f : fm) : res fm :=
    if negb (is_nil (answer f)) && is_nil (sealed f) then Ok f      (* already unsealed *)
    else if is_nil (sealed f) then Err ENoAnswer
    else match decrypt privs (sealed f) with
         | Err e => Err e
         | Ok a => Ok (mkFm (fm_type f) a [])
         end.

  (* questionFrontmatter.getAnswer up to the call of NewAnswer: the answer text *)
  Definition answer_text (privs : str) (f : fm) : res str :=
    if negb (is_nil (sealed f)) && is_nil privs then Err ENoKey
    else
      let t := if negb (is_nil (sealed f)) then decrypt privs (sealed f) else Ok (answer f) in
      match t with
      | Err e => Err e
      | Ok text => if is_nil text then Err ENoAnswer else Ok text
      end.
End Envelope.

(* ------------------------------------------------------------------ *)
(* answers                                                             *)
(* ------------------------------------------------------------------ *)

(* unicode.IsSpace *)
Definition is_space (c : N) : bool :=
  ((9 <=? c) && (c <=? 13)) || (c =? 32) || (c =? 133) || (c =? 160) || (c =? 5760)
  || ((8192 <=? c) && (c <=? 8202)) || (c =? 8232) || (c =? 8233) || (c =? 8239)
  || (c =? 8287) || (c =? 12288).

Fixpoint drop_space (s : str) : str :=
  match s with
  | c :: t => if is_space c then drop_space t else s
  | [] => []
  end.

(* strings.TrimSpace *)
Definition trim (s : str) : str := rev (drop_space (rev (drop_space s))).

(* strings.Split(str, ","): [cur] is the current field, reversed *)
Fixpoint split_comma (s : str) (cur : str) : list str :=
  match s with
  | [] => [rev cur]
  | c :: t => if c =? 44 then rev cur :: split_comma t [] else split_comma t (c :: cur)
  end.

(* splitTrim *)
Definition split_trim (s : str) : list str := map trim (split_comma s []).

(* validateSingle: len(str) == 1 && 'a' <= str[0] <= 'z' *)
Definition validate_single (s : str) : bool :=
  match s with
  | [c] => (97 <=? c) && (c <=? 122)
  | _ => false
  end.

(* int(s[0]-'a') *)
Definition letter_index (s : str) : nat :=
  match s with c :: _ => N.to_nat (c - 97) | [] => 0%nat end.

(* NewAnswer followed by Answer.correctAnswerIndices: the key set of the map,
   or the validation error.  For a text answer the map is empty. *)
Definition answer_marks (ty : atype) (text : str) : res (list nat) :=
  match ty with
  | SingleChoice => if validate_single text then Ok [letter_index text] else Err ESingleChoice
  | MultipleChoice =>
      let multi := split_trim text in
      if forallb validate_single multi then Ok (map letter_index multi) else Err ESingleChoice
  | TextAnswer => Ok []
  end.

Definition mem_nat (i : nat) (l : list nat) : bool := existsb (Nat.eqb i) l.

(* verifyChoiceMatch: [for i, output := range outputs] with the two tests.
   [marks] is the key set of correctByIndex. *)
Fixpoint verify_choice_from (i : nat) (marks : list nat) (outs : list str) (gen : str) : res unit :=
  match outs with
  | [] => Ok tt
  | o :: t =>
      if mem_nat i marks && negb (str_eqb gen o) then Err EWrongAnswer        (* marked, does not match *)
      else if negb (mem_nat i marks) && str_eqb gen o then Err EWrongAnswer   (* not marked, matches *)
      else verify_choice_from (S i) marks t gen
  end.

(* verifyChoiceMatch as it was BEFORE /repo commit 1e7a3a9: only the walk over
   the existing choices.  Kept for the regression lemmas …_before_fix. *)
Definition verify_choice_before_fix (marks : list nat) (outs : list str) (gen : str) : res unit :=
  verify_choice_from 0 marks outs gen.

(* verifyAnswerInRange (commit 1e7a3a9): [last] is the largest key of
   correctByIndex (-1 for the empty map); the answer is rejected when
   last >= choiceCount.  Returns true when the answer is in range. *)
Definition marks_in_range (marks : list nat) (choice_count : nat) : bool :=
  match marks with
  | [] => true                                     (* last = -1 *)
  | _ => Nat.ltb (list_max marks) choice_count     (* not (last >= choiceCount) *)
  end.

(* verifyChoiceMatch (HEAD): verifyAnswerInRange, then the walk *)
Definition verify_choice (marks : list nat) (outs : list str) (gen : str) : res unit :=
  if marks_in_range marks (List.length outs) then verify_choice_from 0 marks outs gen
  else Err EWrongAnswer.

(* verifyParseError ([want] = true) / verifyNoParseError ([want] = false):
   verifyAnswerInRange against the number of archive files, then the walk with
   the two tests.  [perrs] is generateParseErrors: one flag per file of the
   txtar archive, true when the file has a parse error. *)
Fixpoint verify_flags_from (want : bool) (i : nat) (marks : list nat) (perrs : list bool) : res unit :=
  match perrs with
  | [] => Ok tt
  | p :: t =>
      if mem_nat i marks && negb (Bool.eqb p want) then Err EWrongAnswer
      else if negb (mem_nat i marks) && Bool.eqb p want then Err EWrongAnswer
      else verify_flags_from want (S i) marks t
  end.

Definition verify_parse_flags (want : bool) (marks : list nat) (perrs : list bool) : res unit :=
  if marks_in_range marks (List.length perrs) then verify_flags_from want 0 marks perrs
  else Err EWrongAnswer.

Section Verify.
  Variable run : str -> str.       (* renderer.go: runEvy(source, m.ResultType) *)

  (* verifyTextMatch. [is_src]: m.AnswerText is an *evySource *)
  Definition verify_text (is_src : bool) (qout : str) (atext : str) : res unit :=
    let gen_q := trim qout in
    let gen_a := trim atext in
    let gen_a := if is_src then trim (run gen_a) else gen_a in
    if str_eqb gen_q gen_a then Ok tt else Err EWrongAnswer.
End Verify.

(* frontmatter.go: validVerifications = "match" (default), "none", "parse-error",
   "no-parse-error"; verification.UnmarshalText rejects everything else
   (ErrInvalidFrontmatter) when the front matter is loaded.  An absent field
   leaves the Go zero value "", which isMatchQuestion treats like "match". *)
Inductive vmode : Type := VMatch | VNone | VParseError | VNoParseError.

(* [None] = the field is absent; [Some v] = it is written, with value v *)
Definition load_verification (v : option str) : res vmode :=
  match v with
  | None => Ok VMatch                                   (* isMatchQuestion: Verification == "" *)
  | Some s =>
      if str_eqb s (s_ "match") then Ok VMatch          (* isMatchQuestion: Verification == "match" *)
      else if str_eqb s (s_ "none") then Ok VNone
      else if str_eqb s (s_ "parse-error") then Ok VParseError
      else if str_eqb s (s_ "no-parse-error") then Ok VNoParseError
      else Err EInvalidFm                               (* unmarshalText *)
  end.

(* QuestionModel.Verify = getVerifiedAnswer (for a question that is not a
   sub-question): getAnswer, then by verification mode: nothing (none),
   verifyMatch by answer type (match), verifyParseError / verifyNoParseError.
   [perrs]: generateParseErrors of the archive (parse modes only).
   [vchoice] is verify_choice (or verify_choice_before_fix, for regression). *)
Section Question.
  Variables PK SK : Type.
  Variable parse_priv : str -> option SK.
  Variable rsa_dec : SK -> bytes -> option bytes.
  Variable gcm_open : bytes -> bytes -> option bytes.
  Variable b64_dec : str -> option bytes.
  Variable run : str -> str.
  Variable vchoice : list nat -> list str -> str -> res unit.

  Definition question_verify (ignore_sealed : bool) (privs : str) (vm : vmode)
             (f : fm) (is_src : bool) (outs : list str) (gen : str) (perrs : list bool) : res unit :=
    if ignore_sealed && negb (is_nil (sealed f)) then Ok tt        (* Verify: m.ignoreSealed && m.IsSealed() *)
    else
      match answer_text SK parse_priv rsa_dec gcm_open b64_dec privs f with
      | Err e => Err e
      | Ok text =>
          match answer_marks (fm_type f) text with                 (* NewAnswer *)
          | Err e => Err e
          | Ok marks =>
              match vm with
              | VNone => Ok tt                                     (* verification == "none" *)
              | VMatch =>                                          (* isMatchQuestion: verifyMatch *)
                  match fm_type f with
                  | SingleChoice | MultipleChoice => vchoice marks outs gen
                  | TextAnswer => verify_text run is_src gen text
                  end
              | VParseError => verify_parse_flags true marks perrs
              | VNoParseError => verify_parse_flags false marks perrs
              end
          end
      end.
End Question.

(* A verification HISTORY: what one process does when it verifies several
   questions one after the other (levy verify / export walking an exercise
   directory).  The Go code keeps no process-wide state between questions
   (runEvy evaluates afresh every time; the only cache, evySource.output,
   lives inside one renderer of one question), so the loop threads nothing
   from one question to the next: the accumulator only collects verdicts. *)
Record question : Type := mkQuestion {
  q_ignore : bool; q_privs : str; q_vm : vmode; q_fm : fm; q_is_src : bool;
  q_outs : list str; q_gen : str; q_perrs : list bool
}.

Section History.
  Variable SK : Type.
  Variable parse_priv : str -> option SK.
  Variable rsa_dec : SK -> bytes -> option bytes.
  Variable gcm_open : bytes -> bytes -> option bytes.
  Variable b64_dec : str -> option bytes.
  Variable run : str -> str.

  Definition verify_one (q : question) : res unit :=
    question_verify SK parse_priv rsa_dec gcm_open b64_dec run verify_choice
      (q_ignore q) (q_privs q) (q_vm q) (q_fm q) (q_is_src q) (q_outs q) (q_gen q) (q_perrs q).

  (* for _, q := range questions { verdicts = append(verdicts, q.Verify()) } *)
  Definition verify_history (qs : list question) : list (res unit) :=
    fold_left (fun verdicts q => verdicts ++ [verify_one q]) qs [].
End History.

(* ------------------------------------------------------------------ *)
(* closed instances                                                    *)
(* ------------------------------------------------------------------ *)

Fixpoint strip_prefix (p s : bytes) : option bytes :=
  match p, s with
  | [], _ => Some s
  | x :: p', y :: s' => if x =? y then strip_prefix p' s' else None
  | _ :: _, [] => None
  end.

(* toy primitives: invertible, no integrity.  A key is its own name. *)
Definition toy_parse (s : str) : option bytes := if is_nil s then None else Some s.
Definition toy_rsa_enc (pk : bytes) (_ : unit) (k : bytes) : option bytes := Some (pk ++ k).
Definition toy_rsa_dec (sk : bytes) (c : bytes) : option bytes := strip_prefix sk c.
Definition toy_gcm_seal (k p : bytes) : bytes := k ++ p.
Definition toy_gcm_open (k c : bytes) : option bytes := strip_prefix k c.
Definition toy_b64_enc (b : bytes) : str := 66 :: b.
Definition toy_b64_dec (s : str) : option bytes := match s with 66 :: b => Some b | _ => None end.

Definition toy_key : bytes := repeat 7 session_key_bytes.

Definition toy_encrypt := encrypt bytes unit toy_parse toy_rsa_enc toy_gcm_seal toy_b64_enc.
Definition toy_decrypt := decrypt bytes toy_parse toy_rsa_dec toy_gcm_open toy_b64_dec.
Definition toy_seal_fm := seal_fm bytes unit toy_parse toy_rsa_enc toy_gcm_seal toy_b64_enc.
Definition toy_unseal_fm := unseal_fm bytes toy_parse toy_rsa_dec toy_gcm_open toy_b64_dec.

(* ideal functionality for one genuine envelope (r0, a0) made for key 0:
   only r0 decrypts (to the session key), only a0 opens (to the plaintext). *)
Definition ideal_key : bytes := repeat 0 session_key_bytes.
Definition ideal_rsa_dec (r0 : bytes) (sk : nat) (c : bytes) : option bytes :=
  if Nat.eqb sk 0 && bytes_eqb c r0 then Some ideal_key else None.
Definition ideal_gcm_open (a0 p0 : bytes) (k c : bytes) : option bytes :=
  if bytes_eqb k ideal_key && bytes_eqb c a0 then Some p0 else None.
Definition ideal_hybrid_decrypt (r0 a0 p0 : bytes) (sk : nat) (c : bytes) : res bytes :=
  hybrid_decrypt nat (ideal_rsa_dec r0) (ideal_gcm_open a0 p0) sk c.

(* ------------------------------------------------------------------ *)
(* wire format                                                         *)
(* ------------------------------------------------------------------ *)
Definition hexval (c : N) : option N :=
  if (48 <=? c) && (c <=? 57) then Some (c - 48)
  else if (97 <=? c) && (c <=? 102) then Some (c - 87)
  else None.

Fixpoint dec_hex (s : str) : option bytes :=
  match s with
  | [] => Some []
  | a :: b :: t =>
      match hexval a, hexval b, dec_hex t with
      | Some x, Some y, Some r => Some (x * 16 + y :: r)
      | _, _, _ => None
      end
  | _ => None
  end.

Definition class_char {A} (r : res A) : N :=
  match r with
  | Ok _ => 111           (* o *)
  | Err EShort => 115     (* s *)
  | Err ERsa => 114       (* r *)
  | Err EGcm => 103       (* g *)
  | Err EAesKey => 107    (* k *)
  | Err _ => 63           (* ? *)
  end.

Fixpoint set_nth (i : nat) (v : N) (l : bytes) : bytes :=
  match l, i with
  | [], _ => []
  | _ :: t, O => v :: t
  | x :: t, S i' => x :: set_nth i' v t
  end.

Definition upto (n : nat) : list nat := seq 0 n.   (* [0; …; n-1] *)

Definition enc_err (e : err) : sx :=
  Sym (s_ match e with
          | EBadKey => "badkey" | EBase64 => "base64" | EShort => "short" | ERsa => "rsa"
          | EAesKey => "aeskey" | EGcm => "gcm" | ENoAnswer => "noanswer" | ENoKey => "nokey"
          | ESingleChoice => "singlechoice" | EWrongAnswer => "wrong" | EInvalidFm => "invalidfm"
          end).

Definition enc_res_unit (r : res unit) : sx :=
  match r with Ok _ => Sym (s_ "ok") | Err e => enc_err e end.

Definition dec_bool (x : sx) : option bool :=
  if sym_is x "true" then Some true else if sym_is x "false" then Some false else None.

Definition dec_atype (x : sx) : option atype :=
  if sym_is x "single" then Some SingleChoice
  else if sym_is x "multi" then Some MultipleChoice
  else if sym_is x "text" then Some TextAnswer else None.

Fixpoint dec_strs (l : list sx) : option (list str) :=
  match l with
  | [] => Some []
  | Str s :: t => option_map (cons s) (dec_strs t)
  | _ => None
  end.

Fixpoint dec_hexes (l : list sx) : option (list bytes) :=
  match l with
  | [] => Some []
  | Str s :: t => match dec_hex s, dec_hexes t with Some b, Some r => Some (b :: r) | _, _ => None end
  | _ => None
  end.

(* (unframe "hex") ↦ (some rlen alen) | none *)
Definition unframe_case (c : bytes) : sx :=
  match unframe c with
  | None => Sym (s_ "none")
  | Some (r, a) => Lst [Sym (s_ "some"); sx_nat (List.length r); sx_nat (List.length a)]
  end.

(* (frame "hex r" "hex a") ↦ the bytes of frame r a as a list of integers *)
Definition frame_case (r a : bytes) : sx := Lst (map (fun b => Int (Z.of_N b)) (frame r a)).

(* (sweep "hex c0"): c0 is a genuine envelope.  For every position i and every
   byte value v the class of decrypting c0[i := v] under the ideal
   functionality for c0; for every n <= |c0| the class of the prefix of length
   n; the class under another key. *)
Definition sweep_case (c0 : bytes) : sx :=
  match unframe c0 with
  | None => Sym (s_ "not-an-envelope")
  | Some (r0, a0) =>
      let dec := ideal_hybrid_decrypt r0 a0 [] in
      let vals := map N.of_nat (upto 256) in
      Lst [ Lst (map (fun i => Str (map (fun v => class_char (dec 0%nat (set_nth i v c0))) vals))
                     (upto (List.length c0)));
            Str (map (fun n => class_char (dec 0%nat (firstn n c0))) (upto (S (List.length c0))));
            Str [class_char (dec 1%nat c0)] ]
  end.

(* (classify "hex c0" ("hex c1" …)) ↦ one class character per ci *)
Definition classify_case (c0 : bytes) (cs : list bytes) : sx :=
  match unframe c0 with
  | None => Sym (s_ "not-an-envelope")
  | Some (r0, a0) => Str (map (fun c => class_char (ideal_hybrid_decrypt r0 a0 [] 0%nat c)) cs)
  end.

(* (verify before_fix ignore key seal verification atype "answer" is_src (outs…) "gen" "run-out" (perr…))
   key: none | right | wrong.  verification: the symbol absent, or the string
   written in the front matter.  The front matter is loaded first (an invalid
   verification value is rejected there); with seal = true it is then sealed
   (toy primitives, public key "K") exactly as the harness seals the real one
   with the real key. *)
Definition dec_verification (x : sx) : option (option str) :=
  match x with
  | Str s => Some (Some s)
  | Sym _ => if sym_is x "absent" then Some None else None
  | _ => None
  end.

Definition verify_case (before_fix ignore : bool) (key : sx) (seal : bool) (verification : option str)
           (ty : atype) (ans : str) (is_src : bool) (outs : list str) (gen run_out : str) (perrs : list bool) : sx :=
  match load_verification verification with
  | Err e => enc_err e
  | Ok vm =>
  let f0 := mkFm ty ans [] in
  let f := if seal then toy_seal_fm (s_ "K") toy_key tt f0 else Ok f0 in
  let privs := if sym_is key "right" then s_ "K" else if sym_is key "wrong" then s_ "W" else [] in
  match f with
  | Err e => enc_err e
  | Ok f =>
      enc_res_unit (question_verify bytes toy_parse toy_rsa_dec toy_gcm_open toy_b64_dec
                      (fun _ => run_out)
                      (if before_fix then verify_choice_before_fix else verify_choice)
                      ignore privs vm f is_src outs gen perrs)
  end
  end.

(* (marks atype "answer") ↦ (ok i…) | error class *)
Definition marks_case (ty : atype) (ans : str) : sx :=
  match answer_marks ty ans with
  | Ok l => Lst (Sym (s_ "ok") :: map sx_nat l)
  | Err e => enc_err e
  end.

(* (fmops "answer" (op…)), op ∈ seal | unseal | unseal-wrong | unseal-nokey |
   set-answer (a hand edit of the answer field, which can produce the invalid
   state with both fields set): the front-matter state machine from an
   unsealed front matter; per operation
   (class, answer, sealed-answer set?).  A failed operation leaves the front
   matter unchanged (the Go methods assign only after success). *)
Fixpoint fmops_run (f : fm) (ops : list sx) : list sx :=
  match ops with
  | [] => []
  | o :: t =>
      let r := if sym_is o "seal" then toy_seal_fm (s_ "K") toy_key tt f
               else if sym_is o "set-answer" then Ok (mkFm (fm_type f) (s_ "zz") (sealed f))
               else if sym_is o "unseal" then toy_unseal_fm (s_ "K") f
               else if sym_is o "unseal-wrong" then toy_unseal_fm (s_ "W") f
               else toy_unseal_fm [] f in
      match r with
      | Ok f' => Lst [Sym (s_ "ok"); Str (answer f'); sx_bool (negb (is_nil (sealed f')))] :: fmops_run f' t
      | Err e => Lst [enc_err e; Str (answer f); sx_bool (negb (is_nil (sealed f)))] :: fmops_run f t
      end
  end.

(* (spaces): every code point below 0x3100 that is_space accepts (is_space is
   a finite disjunction of comparisons with constants below 0x3100, so this
   is all of them); compared with Go's unicode.IsSpace over all code points *)
Definition spaces_case : sx :=
  Lst (map (fun n => Int (Z.of_nat n)) (filter (fun n => is_space (N.of_nat n)) (upto 12544))).

(* (verifyflags want atype "answer" (flag…)): an unsealed question with
   verification parse-error (want = true) / no-parse-error (want = false):
   getAnswer, NewAnswer, then verifyParseError / verifyNoParseError *)
Fixpoint dec_bools (l : list sx) : option (list bool) :=
  match l with
  | [] => Some []
  | x :: t => match dec_bool x, dec_bools t with Some b, Some r => Some (b :: r) | _, _ => None end
  end.

Definition verifyflags_case (want : bool) (ty : atype) (ans : str) (flags : list bool) : sx :=
  if is_nil ans then enc_err ENoAnswer
  else match answer_marks ty ans with
       | Err e => enc_err e
       | Ok marks => enc_res_unit (verify_parse_flags want marks flags)
       end.

Definition seal_case (x : sx) : sx :=
  match x with
  | Lst [tag; want; ty; Str ans; Lst flags] =>
      match dec_bool want, dec_atype ty, dec_bools flags with
      | Some want, Some ty, Some flags =>
          if sym_is tag "verifyflags" then verifyflags_case want ty ans flags else Sym (s_ "decode-error")
      | _, _, _ => Sym (s_ "decode-error")
      end
  | Lst [tag] => if sym_is tag "spaces" then spaces_case else Sym (s_ "decode-error")
  | Lst [tag; Str h] =>
      match dec_hex h with
      | Some c => if sym_is tag "unframe" then unframe_case c
                  else if sym_is tag "sweep" then sweep_case c
                  else Sym (s_ "decode-error")
      | None => Sym (s_ "decode-error")
      end
  | Lst [tag; Str h1; Str h2] =>
      match dec_hex h1, dec_hex h2 with
      | Some r, Some a => if sym_is tag "frame" then frame_case r a else Sym (s_ "decode-error")
      | _, _ => Sym (s_ "decode-error")
      end
  | Lst [tag; Str h; Lst l] =>
      if sym_is tag "fmops" then Lst (fmops_run (mkFm TextAnswer h []) l)
      else
      match dec_hex h, dec_hexes l with
      | Some c0, Some cs => if sym_is tag "classify" then classify_case c0 cs else Sym (s_ "decode-error")
      | _, _ => Sym (s_ "decode-error")
      end
  | Lst [tag; ty; Str ans] =>
      match dec_atype ty with
      | Some ty => if sym_is tag "marks" then marks_case ty ans else Sym (s_ "decode-error")
      | None => Sym (s_ "decode-error")
      end
  | Lst [tag; before_fix; ignore; key; seal; verification; ty; Str ans; is_src; Lst outs; Str gen; Str run_out; Lst perrs] =>
      match dec_bool before_fix, dec_bool ignore, dec_bool seal, dec_verification verification, dec_atype ty,
            dec_bool is_src, dec_strs outs, dec_bools perrs with
      | Some before_fix, Some ignore, Some seal, Some verification, Some ty, Some is_src, Some outs, Some perrs =>
          if sym_is tag "verify" then verify_case before_fix ignore key seal verification ty ans is_src outs gen run_out perrs
          else Sym (s_ "decode-error")
      | _, _, _, _, _, _, _, _ => Sym (s_ "decode-error")
      end
  | _ => Sym (s_ "decode-error")
  end.
