(* OmapProofs.v — the Go map representation (hash map + order slice) refines an
   insertion-ordered association list, over every history including loops
   that mutate the map they iterate over. *)
From Coq Require Import ZArith NArith List Bool Lia Permutation.
From EvyV Require Import Base Omap.
Import ListNotations.

Definition keys {V} (p : list (str * V)) : list str := map fst p.

(* ---------- facts about the hash-map model ---------- *)
Section PairsFacts.
  Context {V : Type}.
  Implicit Types (p : list (str * V)) (k : str).

  Lemma plookup_In_keys p k : plookup k p <> None <-> In k (keys p).
  Proof.
    induction p as [|[k' v] t IH]; simpl; [tauto|].
    destruct (str_eqb k' k) eqn:E.
    - apply str_eqb_eq in E; subst. split; [auto | discriminate].
    - apply str_eqb_neq in E. rewrite IH. split; [auto | intros [H|H]; [contradiction|exact H]].
  Qed.

  Lemma plookup_None_keys p k : plookup k p = None <-> ~ In k (keys p).
  Proof.
    rewrite <- plookup_In_keys. destruct (plookup k p) eqn:E; split; intro H;
      [discriminate | exfalso; apply H; discriminate | intro H'; apply H'; reflexivity | reflexivity].
  Qed.

  Lemma plookup_premove_same p k : plookup k (premove k p) = None.
  Proof.
    induction p as [|[k' v] t IH]; simpl; [reflexivity|].
    destruct (str_eqb k' k) eqn:E; [exact IH|]. simpl. rewrite E. exact IH.
  Qed.

  Lemma plookup_premove_other p k k' : k <> k' -> plookup k' (premove k p) = plookup k' p.
  Proof.
    intro N. induction p as [|[k2 v] t IH]; simpl; [reflexivity|].
    destruct (str_eqb k2 k) eqn:E.
    - apply str_eqb_eq in E; subst. destruct (str_eqb k k') eqn:E2;
        [apply str_eqb_eq in E2; contradiction | exact IH].
    - simpl. destruct (str_eqb k2 k'); [reflexivity | exact IH].
  Qed.

  Lemma plookup_pset_same p k v : plookup k (pset k v p) = Some v.
  Proof. unfold pset; simpl. rewrite str_eqb_refl. reflexivity. Qed.

  Lemma plookup_pset_other p k k' v : k <> k' -> plookup k' (pset k v p) = plookup k' p.
  Proof.
    intro N. unfold pset; simpl. destruct (str_eqb k k') eqn:E;
      [apply str_eqb_eq in E; contradiction | apply plookup_premove_other; exact N].
  Qed.

  Lemma keys_premove_incl p k x : In x (keys (premove k p)) -> In x (keys p) /\ x <> k.
  Proof.
    induction p as [|[k' v] t IH]; simpl; [tauto|].
    destruct (str_eqb k' k) eqn:E.
    - intro H. apply IH in H. tauto.
    - apply str_eqb_neq in E. simpl. intros [H|H]; [subst; tauto | apply IH in H; tauto].
  Qed.

  Lemma keys_premove_In p k x : In x (keys p) -> x <> k -> In x (keys (premove k p)).
  Proof.
    induction p as [|[k' v] t IH]; simpl; [tauto|].
    intros [H|H] N.
    - subst. destruct (str_eqb x k) eqn:E; [apply str_eqb_eq in E; contradiction | left; reflexivity].
    - destruct (str_eqb k' k); [apply IH; assumption | right; apply IH; assumption].
  Qed.

  Lemma NoDup_keys_premove p k : NoDup (keys p) -> NoDup (keys (premove k p)).
  Proof.
    induction p as [|[k' v] t IH]; simpl; intro H; [constructor|].
    inversion H as [|? ? Hn Hd]; subst.
    destruct (str_eqb k' k); [apply IH; exact Hd|].
    simpl. constructor; [|apply IH; exact Hd].
    intro Hin. apply keys_premove_incl in Hin. tauto.
  Qed.

  Lemma length_premove_notin p k : ~ In k (keys p) -> premove k p = p.
  Proof.
    induction p as [|[k' v] t IH]; simpl; intro H; [reflexivity|].
    destruct (str_eqb k' k) eqn:E; [apply str_eqb_eq in E; subst; tauto|].
    f_equal. apply IH. tauto.
  Qed.

  Lemma length_premove_in p k :
    NoDup (keys p) -> In k (keys p) -> length p = S (length (premove k p)).
  Proof.
    induction p as [|[k' v] t IH]; simpl; intros Hd Hin; [contradiction|].
    inversion Hd as [|? ? Hn Hd']; subst.
    destruct (str_eqb k' k) eqn:E.
    - apply str_eqb_eq in E; subst. rewrite length_premove_notin by exact Hn. reflexivity.
    - apply str_eqb_neq in E. destruct Hin as [Hin|Hin]; [contradiction|].
      simpl. f_equal. apply IH; assumption.
  Qed.
End PairsFacts.

Global Opaque pset.

(* ---------- facts about the order slice ---------- *)
Lemma remove_first_notin k o : ~ In k o -> remove_first k o = o.
Proof.
  induction o as [|x t IH]; simpl; intro H; [reflexivity|].
  destruct (str_eqb x k) eqn:E; [apply str_eqb_eq in E; subst; tauto|].
  f_equal; apply IH; tauto.
Qed.

Lemma In_remove_first k o x : NoDup o -> (In x (remove_first k o) <-> In x o /\ x <> k).
Proof.
  induction o as [|y t IH]; simpl; intro Hd; [tauto|].
  inversion Hd as [|? ? Hn Hd']; subst.
  destruct (str_eqb y k) eqn:E.
  - apply str_eqb_eq in E; subst. split.
    + intro H. split; [right; exact H | intro; subst; contradiction].
    + intros [[H|H] N]; [subst; contradiction | exact H].
  - apply str_eqb_neq in E. simpl. rewrite IH by exact Hd'. split.
    + intros [H|[H N]]; [subst; tauto | tauto].
    + intros [[H|H] N]; [left; exact H | right; tauto].
Qed.

Lemma NoDup_remove_first k o : NoDup o -> NoDup (remove_first k o).
Proof.
  induction o as [|y t IH]; simpl; intro Hd; [constructor|].
  inversion Hd as [|? ? Hn Hd']; subst.
  destruct (str_eqb y k); [exact Hd'|].
  constructor; [|apply IH; exact Hd'].
  intro H. apply In_remove_first in H; [tauto | exact Hd'].
Qed.

Lemma NoDup_snoc (o : list str) k : NoDup o -> ~ In k o -> NoDup (o ++ [k]).
Proof.
  induction o as [|x t IH]; simpl; intros Hd Hn; [constructor; [simpl; tauto | constructor]|].
  inversion Hd as [|? ? Hx Hd']; subst. constructor.
  - intro H. apply in_app_or in H as [H|[H|[]]]; [contradiction | subst; tauto].
  - apply IH; tauto.
Qed.

Lemma filter_all_id {A} (f : A -> bool) (l : list A) : forallb f l = true -> filter f l = l.
Proof.
  induction l as [|x t IH]; simpl; intro H; [reflexivity|].
  apply andb_true_iff in H as [H1 H2]. rewrite H1. f_equal. apply IH; exact H2.
Qed.

(* ---------- invariant and abstraction ---------- *)
Definition Inv {V} (m : omap V) : Prop :=
  NoDup (order m) /\ NoDup (keys (pairs m)) /\
  (forall k, In k (order m) <-> In k (keys (pairs m))).

Fixpoint abs_aux {V} (p : list (str * V)) (o : list str) : alist V :=
  match o with
  | [] => []
  | k :: t => match plookup k p with
              | Some v => (k, v) :: abs_aux p t
              | None => abs_aux p t
              end
  end.
Definition abs {V} (m : omap V) : alist V := abs_aux (pairs m) (order m).

Definition R {V} (m : omap V) (l : alist V) : Prop := Inv m /\ l = abs m.

Section AbsFacts.
  Context {V : Type}.
  Implicit Types (p : list (str * V)) (o : list str) (k : str).

  Lemma abs_aux_ext p p' o :
    (forall k, In k o -> plookup k p = plookup k p') -> abs_aux p o = abs_aux p' o.
  Proof.
    induction o as [|x t IH]; simpl; intro H; [reflexivity|].
    rewrite <- (H x) by (left; reflexivity).
    rewrite IH by (intros; apply H; right; assumption). reflexivity.
  Qed.

  Lemma abs_aux_app p o1 o2 : abs_aux p (o1 ++ o2) = abs_aux p o1 ++ abs_aux p o2.
  Proof.
    induction o1 as [|x t IH]; simpl; [reflexivity|].
    destruct (plookup x p); rewrite IH; reflexivity.
  Qed.

  Lemma aget_abs_aux p o k :
    aget k (abs_aux p o) = if mem_str k o then plookup k p else None.
  Proof.
    induction o as [|x t IH]; simpl; [reflexivity|].
    destruct (str_eqb x k) eqn:E.
    - apply str_eqb_eq in E; subst. simpl.
      destruct (plookup k p) eqn:L; simpl.
      + rewrite str_eqb_refl. reflexivity.
      + rewrite IH. destruct (mem_str k t); reflexivity.
    - simpl. destruct (plookup x p) eqn:L; simpl; [rewrite E|]; exact IH.
  Qed.

  Lemma keys_abs_aux p o :
    (forall k, In k o -> In k (keys p)) -> map fst (abs_aux p o) = o.
  Proof.
    induction o as [|x t IH]; simpl; intro H; [reflexivity|].
    destruct (plookup x p) eqn:L.
    - simpl. f_equal. apply IH. intros; apply H; right; assumption.
    - exfalso. apply plookup_None_keys in L. apply L, H. left; reflexivity.
  Qed.

  Lemma olist_aux_abs p o :
    (forall k, In k o -> In k (keys p)) -> olist_aux p o = Some (abs_aux p o).
  Proof.
    induction o as [|x t IH]; simpl; intro H; [reflexivity|].
    destruct (plookup x p) eqn:L.
    - rewrite IH by (intros; apply H; right; assumption). reflexivity.
    - exfalso. apply plookup_None_keys in L. apply L, H. left; reflexivity.
  Qed.

  Lemma abs_aux_replace p o k v :
    NoDup o -> In k o -> plookup k p <> None ->
    abs_aux (pset k v p) o = areplace k v (abs_aux p o).
  Proof.
    induction o as [|x t IH]; simpl; intros Hd Hin Hl; [contradiction|].
    inversion Hd as [|? ? Hn Hd']; subst.
    destruct (str_eqb x k) eqn:E.
    - apply str_eqb_eq in E; subst. rewrite plookup_pset_same.
      destruct (plookup k p) eqn:L; [|congruence]. simpl. rewrite str_eqb_refl.
      f_equal. apply abs_aux_ext. intros k' Hk'. apply plookup_pset_other.
      intro; subst; contradiction.
    - apply str_eqb_neq in E. destruct Hin as [Hin|Hin]; [congruence|].
      rewrite plookup_pset_other by congruence.
      destruct (plookup x p) eqn:L; simpl.
      + destruct (str_eqb x k) eqn:E2; [apply str_eqb_eq in E2; contradiction|].
        f_equal. apply IH; assumption.
      + apply IH; assumption.
  Qed.

  Lemma abs_aux_del p o k :
    NoDup o -> abs_aux (premove k p) (remove_first k o) = adel k (abs_aux p o).
  Proof.
    induction o as [|x t IH]; simpl; intro Hd; [reflexivity|].
    inversion Hd as [|? ? Hn Hd']; subst.
    destruct (str_eqb x k) eqn:E.
    - apply str_eqb_eq in E; subst.
      assert (Ht : abs_aux (premove k p) t = adel k (abs_aux p t)).
      { rewrite <- IH by exact Hd'. rewrite remove_first_notin by exact Hn. reflexivity. }
      destruct (plookup k p); simpl; [rewrite str_eqb_refl; simpl|]; exact Ht.
    - apply str_eqb_neq in E. simpl. rewrite plookup_premove_other by congruence.
      destruct (plookup x p); simpl.
      + destruct (str_eqb x k) eqn:E2; [apply str_eqb_eq in E2; contradiction|].
        simpl. f_equal. apply IH; exact Hd'.
      + apply IH; exact Hd'.
  Qed.
End AbsFacts.

(* ---------- each operation preserves R and agrees on its result ---------- *)
Section Ops.
  Context {V : Type}.
  Implicit Types (m : omap V) (l : alist V) (k : str).

  Lemma R_empty : R (@oempty V) [].
  Proof.
    split; [|reflexivity]. repeat split; simpl; try constructor; tauto.
  Qed.

  Lemma get_agree m l k : R m l -> oget k m = aget k l.
  Proof.
    intros [[Hd [Hp Hk]] ->]. unfold oget, abs. rewrite aget_abs_aux.
    destruct (mem_str k (order m)) eqn:E; [reflexivity|].
    apply plookup_None_keys. rewrite <- Hk. rewrite <- mem_str_In. congruence.
  Qed.

  Lemma has_agree m l k : R m l -> ohas k m = ahas k l.
  Proof. intro H. unfold ohas, ahas. rewrite <- (get_agree m l k H). reflexivity. Qed.

  Lemma keys_agree m l : R m l -> order m = map fst l.
  Proof.
    intros [[Hd [Hp Hk]] ->]. unfold abs. symmetry. apply keys_abs_aux.
    intros k Hin. apply Hk. exact Hin.
  Qed.

  Lemma list_agree m l : R m l -> olist m = Some l.
  Proof.
    intros [[Hd [Hp Hk]] ->]. unfold olist, abs. apply olist_aux_abs.
    intros k Hin. apply Hk. exact Hin.
  Qed.

  Lemma len_agree m l : R m l -> olen m = length l.
  Proof.
    intros H. pose proof (keys_agree m l H) as Hk. destruct H as [[Hd [Hp Hiff]] ->].
    unfold olen. rewrite <- (map_length fst (abs m)), <- Hk.
    rewrite <- (map_length fst (pairs m)). fold (keys (pairs m)).
    apply Nat.le_antisymm; apply NoDup_incl_length; try assumption; intros x Hx; apply Hiff; exact Hx.
  Qed.

  Lemma set_R m l k v : R m l -> R (oset k v m) (aset k v l).
  Proof.
    intros H. pose proof (get_agree m l k H) as Hg. destruct H as [[Hd [Hp Hiff]] ->].
    unfold oset, aset. rewrite <- Hg. unfold oget.
    destruct (plookup k (pairs m)) eqn:L.
    - (* overwrite: order unchanged *)
      assert (Hin : In k (order m)) by (apply Hiff, plookup_In_keys; congruence).
      split.
      + repeat split; simpl; try assumption.
        * constructor; [|apply NoDup_keys_premove; exact Hp].
          intro Hx. apply keys_premove_incl in Hx. tauto.
        * intro Hx. destruct (str_eq_dec k0 k) as [->|N]; [left; reflexivity|].
          right. apply keys_premove_In; [apply Hiff; exact Hx | exact N].
        * intros [Hx|Hx]; [subst; exact Hin|]. apply keys_premove_incl in Hx. apply Hiff; tauto.
      + unfold abs; simpl. symmetry. apply abs_aux_replace; try assumption. congruence.
    - (* new key: appended *)
      assert (Hnin : ~ In k (order m)) by (rewrite Hiff; apply plookup_None_keys; exact L).
      split.
      + repeat split; simpl.
        * apply NoDup_snoc; assumption.
        * constructor; [|apply NoDup_keys_premove; exact Hp].
          intro Hx. apply keys_premove_incl in Hx. tauto.
        * intro Hx. apply in_app_or in Hx as [Hx|[Hx|[]]]; [|left; exact Hx].
          right. apply keys_premove_In; [apply Hiff; exact Hx | intro; subst; contradiction].
        * intros [Hx|Hx]; [subst; apply in_or_app; right; left; reflexivity|].
          apply keys_premove_incl in Hx. apply in_or_app; left. apply Hiff; tauto.
      + unfold abs; simpl. rewrite abs_aux_app. simpl. rewrite plookup_pset_same. f_equal.
        apply abs_aux_ext. intros k' Hk'. symmetry. apply plookup_pset_other.
        intro; subst; contradiction.
  Qed.

  Lemma del_R m l k : R m l -> R (odel k m) (adel k l).
  Proof.
    intros H. destruct H as [[Hd [Hp Hiff]] ->]. unfold odel.
    destruct (plookup k (pairs m)) eqn:L.
    - split.
      + repeat split; simpl.
        * apply NoDup_remove_first; exact Hd.
        * apply NoDup_keys_premove; exact Hp.
        * intro Hx. apply In_remove_first in Hx; [|exact Hd]. destruct Hx as [Hx N].
          apply keys_premove_In; [apply Hiff; exact Hx | exact N].
        * intro Hx. apply keys_premove_incl in Hx as [Hx N].
          apply In_remove_first; [exact Hd | split; [apply Hiff; exact Hx | exact N]].
      + unfold abs; simpl. symmetry. apply abs_aux_del. exact Hd.
    - split; [exact (conj Hd (conj Hp Hiff))|].
      (* deleting an absent key: filter changes nothing *)
      unfold adel. apply filter_all_id.
      apply forallb_forall. intros [k' v] Hin. simpl.
      destruct (str_eqb k' k) eqn:E; [|reflexivity]. apply str_eqb_eq in E; subst.
      exfalso. apply plookup_None_keys in L. apply L, Hiff.
      assert (Hk : In k (map fst (abs m))) by (apply in_map_iff; exists (k, v); split; [reflexivity|exact Hin]).
      unfold abs in Hk. rewrite keys_abs_aux in Hk; [exact Hk|]. intros x Hx; apply Hiff; exact Hx.
  Qed.

  Lemma literal_R (lit : list (str * V)) : R (oliteral lit) (aliteral lit).
  Proof.
    unfold oliteral, aliteral.
    assert (G : forall m l, R m l ->
              R (fold_left (fun a kv => oset (fst kv) (snd kv) a) lit m)
                (fold_left (fun a (kv : str * V) => aset (fst kv) (snd kv) a) lit l)).
    { induction lit as [|[k v] t IH]; simpl; intros m l H; [exact H|].
      apply IH. apply set_R. exact H. }
    apply G. apply R_empty.
  Qed.

  (* membership in abs m is membership in the hash map *)
  Lemma In_abs m k v : Inv m -> (In (k, v) (abs m) <-> In (k, v) (pairs m)).
  Proof.
    intros [Hd [Hp Hiff]]. unfold abs.
    assert (A : forall o, In (k, v) (abs_aux (pairs m) o) <-> In k o /\ plookup k (pairs m) = Some v).
    { induction o as [|x t IH]; simpl; [tauto|].
      destruct (plookup x (pairs m)) eqn:L; simpl; rewrite IH; split.
      - intros [H|H]; [inversion H; subst; tauto | tauto].
      - intros [[H|H] H2]; [subst; left; congruence | tauto].
      - tauto.
      - intros [[H|H] H2]; [subst; congruence | tauto]. }
    rewrite A.
    assert (B : forall p, NoDup (keys p) -> (In (k, v) p <-> plookup k p = Some v)).
    { induction p as [|[k' v'] t IH]; simpl; intro Hnd; [split; [tauto|discriminate]|].
      inversion Hnd as [|? ? Hn Hd']; subst.
      destruct (str_eqb k' k) eqn:E.
      - apply str_eqb_eq in E; subst. split.
        + intros [H|H]; [inversion H; reflexivity|].
          exfalso. apply Hn. apply in_map_iff. exists (k, v); split; [reflexivity|exact H].
        + intro H; inversion H; left; reflexivity.
      - apply str_eqb_neq in E. rewrite <- IH by exact Hd'. split.
        + intros [H|H]; [inversion H; congruence | exact H].
        + tauto. }
    rewrite (B _ Hp). split; [tauto|]. intro H. split; [|exact H].
    apply Hiff. apply plookup_In_keys. congruence.
  Qed.

  Lemma equals_agree (veq : V -> V -> bool) m1 l1 m2 l2 :
    R m1 l1 -> R m2 l2 -> oequals veq m1 m2 = aequals veq l1 l2.
  Proof.
    intros H1 H2. unfold oequals, aequals.
    pose proof (len_agree _ _ H1) as L1. pose proof (len_agree _ _ H2) as L2.
    unfold olen in L1, L2. rewrite L1, L2. f_equal.
    destruct H1 as [I1 ->].
    set (f := fun kv : str * V => match plookup (fst kv) (pairs m2) with
                                  | Some v2 => veq (snd kv) v2 | None => false end).
    set (g := fun kv : str * V => match aget (fst kv) l2 with
                                  | Some v2 => veq (snd kv) v2 | None => false end).
    assert (FG : forall kv, f kv = g kv).
    { intro kv. unfold f, g. rewrite <- (get_agree m2 l2 (fst kv) H2). reflexivity. }
    destruct (forallb f (pairs m1)) eqn:E1; destruct (forallb g (abs m1)) eqn:E2; try reflexivity.
    - exfalso. rewrite forallb_forall in E1.
      assert (forallb g (abs m1) = true); [|congruence].
      apply forallb_forall. intros [k v] Hin. rewrite <- FG. apply E1. apply In_abs; assumption.
    - exfalso. rewrite forallb_forall in E2.
      assert (forallb f (pairs m1) = true); [|congruence].
      apply forallb_forall. intros [k v] Hin. rewrite FG. apply E2. apply In_abs; assumption.
  Qed.
End Ops.

(* ---------- simulation over every history ---------- *)
Definition Rst (x : st (omap Z)) (y : st (alist Z)) : Prop :=
  R (dmap x) (dmap y) /\ outs x = outs y /\ stat x = stat y.

Lemma running_agree x y : Rst x y -> running x = running y.
Proof. intros [_ [_ H]]. unfold running. rewrite H. reflexivity. Qed.

(* a stronger induction principle for [op] (nested through [list]) *)
Section OpInd.
  Variable P : op -> Prop.
  Hypothesis Hset : forall k v, P (OSet k v).
  Hypothesis Hdel : forall k, P (ODel k).
  Hypothesis Hget : forall k, P (OGet k).
  Hypothesis Hhas : forall k, P (OHas k).
  Hypothesis Hlen : P OLen.
  Hypothesis Hprint : P OPrint.
  Hypothesis Heq : forall l, P (OEqLit l).
  Hypothesis Hreset : forall l, P (OReset l).
  Hypothesis Hloop : forall body, Forall P body -> P (OLoop body).
  Fixpoint op_ind' (o : op) : P o :=
    match o with
    | OSet k v => Hset k v | ODel k => Hdel k | OGet k => Hget k | OHas k => Hhas k
    | OLen => Hlen | OPrint => Hprint | OEqLit l => Heq l | OReset l => Hreset l
    | OLoop body =>
        Hloop body ((fix go (l : list op) : Forall P l :=
                       match l with [] => Forall_nil P | o' :: t => Forall_cons o' (op_ind' o') (go t) end) body)
    end.
End OpInd.

Lemma run_op_sim : forall o cur x y, Rst x y ->
  Rst (run_op omap_dict o cur x) (run_op alist_dict o cur y).
Proof.
  induction o as [k v|k|k|k| | |l|l|body IHbody] using op_ind'; intros cur x y H;
    pose proof (running_agree x y H) as Hr; simpl; rewrite <- Hr;
    destruct (running x) eqn:Erun; simpl; try exact H;
    destruct H as [HR [Ho Hs]].
  - split; [apply set_R; exact HR | split; assumption].
  - split; [apply del_R; exact HR | split; assumption].
  - rewrite <- (get_agree _ _ (key_of cur k) HR).
    destruct (oget (key_of cur k) (dmap x)); (split; [exact HR | split; simpl; congruence]).
  - rewrite <- (has_agree _ _ (key_of cur k) HR). split; [exact HR | split; simpl; congruence].
  - rewrite <- (len_agree _ _ HR). split; [exact HR | split; simpl; congruence].
  - rewrite (list_agree _ _ HR). split; [exact HR | split; simpl; congruence].
  - rewrite (equals_agree Z.eqb _ _ _ _ HR (literal_R l)).
    split; [exact HR | split; simpl; congruence].
  - split; [apply literal_R | split; assumption].
  - (* loop: same snapshot, same membership tests, related bodies *)
    rewrite <- (keys_agree _ _ HR).
    assert (Hxy : Rst x y) by (split; [exact HR | split; assumption]).
    generalize (order (dmap x)). intro ks0.
    clear HR Ho Hs Hr Erun. revert x y Hxy. unfold loop_fold.
    induction ks0 as [|k ks IHk]; intros x' y' Hxy; simpl; [exact Hxy|].
    apply IHk. unfold loop_step.
    pose proof (running_agree _ _ Hxy) as Hr. rewrite <- Hr.
    destruct (running x'); simpl; [|exact Hxy].
    destruct Hxy as [HR [Ho Hs]].
    rewrite <- (has_agree _ _ k HR).
    destruct (ohas k (dmap x')); [|split; [exact HR | split; assumption]].
    assert (He : Rst (emit k x') (emit k y')) by (split; [exact HR | split; simpl; congruence]).
    revert He. generalize (emit k x') (emit k y'). clear - IHbody.
    induction IHbody as [|o' t Ho' _ IHt]; intros a b Hab; [exact Hab|].
    apply IHt. apply Ho'. exact Hab.
Qed.

Lemma run_ops_sim : forall l cur x y, Rst x y ->
  Rst (run_ops omap_dict l cur x) (run_ops alist_dict l cur y).
Proof.
  induction l as [|o t IH]; intros cur x y H; simpl; [exact H|].
  apply IH. apply run_op_sim. exact H.
Qed.

(* Whole histories: the Go representation and the association-list
   dictionary print the same things and end in the same status. *)
Theorem history_refinement (lit : list (str * Z)) (l : list op) :
  let c := run_history omap_dict lit l in
  let a := run_history alist_dict lit l in
  Inv (dmap c) /\ dmap a = abs (dmap c) /\ outs c = outs a /\ stat c = stat a.
Proof.
  intros c a.
  assert (H : Rst c a).
  { apply run_ops_sim. split; [apply literal_R | split; reflexivity]. }
  destruct H as [[HI HA] [Ho Hs]]. auto.
Qed.

(* ---------- laws of the specification (what a user relies on) ---------- *)
Section SpecLaws.
  Context {V : Type}.
  Implicit Types (l : alist V) (k : str).

  Lemma aget_app_notin l k v k' : aget k' (l ++ [(k, v)]) =
    match aget k' l with Some x => Some x | None => if str_eqb k k' then Some v else None end.
  Proof.
    induction l as [|[a b] t IH]; simpl; [reflexivity|].
    destruct (str_eqb a k'); [reflexivity | exact IH].
  Qed.

  (* overwrite keeps the key's position *)
  Lemma overwrite_keeps_position l k v :
    aget k l <> None -> map fst (aset k v l) = map fst l.
  Proof.
    intro H. unfold aset. destruct (aget k l) eqn:E; [|congruence]. clear H E.
    induction l as [|[a b] t IH]; simpl; [reflexivity|].
    destruct (str_eqb a k); simpl; [reflexivity | f_equal; exact IH].
  Qed.

  (* a new key goes to the end *)
  Lemma insert_appends l k v : aget k l = None -> aset k v l = l ++ [(k, v)].
  Proof. intro H. unfold aset. rewrite H. reflexivity. Qed.

  Lemma aget_adel_same l k : aget k (adel k l) = None.
  Proof.
    induction l as [|[a b] t IH]; simpl; [reflexivity|].
    destruct (str_eqb a k) eqn:E; simpl; [exact IH | rewrite E; exact IH].
  Qed.

  (* delete then insert moves the key to the end *)
  Lemma delete_reinsert_moves_to_end l k v :
    aset k v (adel k l) = adel k l ++ [(k, v)].
  Proof. apply insert_appends, aget_adel_same. Qed.

  Lemma aget_adel_other l k k' : k <> k' -> aget k' (adel k l) = aget k' l.
  Proof.
    intro N. induction l as [|[a b] t IH]; simpl; [reflexivity|].
    destruct (str_eqb a k) eqn:E; simpl.
    - apply str_eqb_eq in E; subst. destruct (str_eqb k k') eqn:E2;
        [apply str_eqb_eq in E2; contradiction | exact IH].
    - destruct (str_eqb a k'); [reflexivity | exact IH].
  Qed.

  Lemma aget_areplace l k v k' :
    aget k' (areplace k v l) = if str_eqb k k' then (match aget k l with Some _ => Some v | None => None end) else aget k' l.
  Proof.
    induction l as [|[a b] t IH]; simpl; [destruct (str_eqb k k'); reflexivity|].
    destruct (str_eqb a k) eqn:E; simpl.
    - apply str_eqb_eq in E; subst. destruct (str_eqb k k'); reflexivity.
    - rewrite IH. destruct (str_eqb k k') eqn:E2; [|reflexivity].
      apply str_eqb_eq in E2; subst. rewrite E. reflexivity.
  Qed.

  (* read-your-write, and no other key is affected *)
  Lemma aget_aset l k v k' :
    aget k' (aset k v l) = if str_eqb k k' then Some v else aget k' l.
  Proof.
    unfold aset. destruct (aget k l) eqn:E.
    - rewrite aget_areplace, E. reflexivity.
    - rewrite aget_app_notin. destruct (str_eqb k k') eqn:E2.
      + apply str_eqb_eq in E2; subst. rewrite E. reflexivity.
      + destruct (aget k' l); reflexivity.
  Qed.

  Lemma adel_keys_subseq l k : map fst (adel k l) = filter (fun x => negb (str_eqb x k)) (map fst l).
  Proof.
    induction l as [|[a b] t IH]; simpl; [reflexivity|].
    destruct (str_eqb a k); simpl; [exact IH | f_equal; exact IH].
  Qed.
End SpecLaws.

(* ---------- the specification never crashes the host ---------- *)
Lemma spec_op_no_hostcrash : forall o cur (y : st (alist Z)),
  stat y <> HostCrash -> stat (run_op alist_dict o cur y) <> HostCrash.
Proof.
  induction o as [k v|k|k|k| | |l|l|body IHbody] using op_ind'; intros cur y H; simpl;
    destruct (running y) eqn:Er; simpl; try exact H.
  - destruct (aget (key_of cur k) (dmap y)); simpl; [exact H | discriminate].
  - generalize (map fst (dmap y)). intro ks. clear Er. revert y H. unfold loop_fold.
    induction ks as [|k ks IHk]; intros y H; simpl; [exact H|].
    apply IHk. unfold loop_step.
    destruct (running y); simpl; [|exact H].
    destruct (ahas k (dmap y)); [|exact H].
    assert (He : stat (emit k y) <> HostCrash) by exact H.
    revert He. generalize (emit k y). clear - IHbody.
    induction IHbody as [|o' t Ho' _ IHt]; intros a Ha; [exact Ha|].
    apply IHt. apply Ho'. exact Ha.
Qed.

Lemma spec_ops_no_hostcrash : forall l cur (y : st (alist Z)),
  stat y <> HostCrash -> stat (run_ops alist_dict l cur y) <> HostCrash.
Proof.
  induction l as [|o t IH]; intros cur y H; simpl; [exact H|].
  apply IH. apply spec_op_no_hostcrash. exact H.
Qed.

Theorem history_no_hostcrash (lit : list (str * Z)) (l : list op) :
  stat (run_history omap_dict lit l) <> HostCrash.
Proof.
  destruct (history_refinement lit l) as [_ [_ [_ Hs]]]. rewrite Hs.
  apply spec_ops_no_hostcrash. discriminate.
Qed.

(* ---------- iteration visits a subsequence of the entry snapshot ---------- *)
(* instrumented loop: the keys whose body was entered, with the state at entry *)
Fixpoint loop_visits {D} (I : dict Z D) (bodyf : str -> st D -> st D) (ks : list str) (x : st D)
  : list (str * st D) :=
  match ks with
  | [] => []
  | k :: t =>
      if running x && d_has I k (dmap x)
      then (k, x) :: loop_visits I bodyf t (loop_step I bodyf x k)
      else loop_visits I bodyf t (loop_step I bodyf x k)
  end.

Inductive subseq {A} : list A -> list A -> Prop :=
| sub_nil : subseq [] []
| sub_skip x l1 l2 : subseq l1 l2 -> subseq l1 (x :: l2)
| sub_take x l1 l2 : subseq l1 l2 -> subseq (x :: l1) (x :: l2).

Theorem range_snapshot {D} (I : dict Z D) bodyf ks (x : st D) :
  (* visited keys are a subsequence of the keys the map had at loop entry:
     in insertion order, none twice unless the snapshot had it twice, and no
     key inserted by the body is ever visited *)
  subseq (map fst (loop_visits I bodyf ks x)) ks /\
  (* a key is visited only if it is present when its turn comes *)
  Forall (fun kx => d_has I (fst kx) (dmap (snd kx)) = true /\ running (snd kx) = true)
         (loop_visits I bodyf ks x).
Proof.
  revert x. induction ks as [|k t IH]; intro x; simpl; [split; constructor|].
  destruct (IH (loop_step I bodyf x k)) as [IH1 IH2].
  destruct (running x && d_has I k (dmap x)) eqn:E; simpl.
  - apply andb_true_iff in E as [E1 E2]. split; [apply sub_take; exact IH1|].
    constructor; [simpl; split; assumption | exact IH2].
  - split; [apply sub_skip; exact IH1 | exact IH2].
Qed.

(* a key of the snapshot that is present when reached IS visited (nothing is skipped wrongly) *)
Theorem range_visits_present {D} (I : dict Z D) bodyf k t (x : st D) :
  running x = true -> d_has I k (dmap x) = true ->
  exists rest, loop_visits I bodyf (k :: t) x = (k, x) :: rest.
Proof. intros H1 H2. simpl. rewrite H1, H2. simpl. eexists; reflexivity. Qed.

Lemma filter_len_le {A} (f : A -> bool) (l : list A) : (length (filter f l) <= length l)%nat.
Proof. induction l as [|x t IH]; simpl; [lia|]. destruct (f x); simpl; lia. Qed.

(* ---------- order-insensitive deep equality ---------- *)
Lemma aequals_spec (a b : alist Z) :
  NoDup (map fst a) -> NoDup (map fst b) ->
  (aequals Z.eqb a b = true <-> forall k, aget k a = aget k b).
Proof.
  intros Ha Hb. unfold aequals. rewrite andb_true_iff, Nat.eqb_eq, forallb_forall.
  assert (AG : forall (l : alist Z) k v, NoDup (map fst l) -> (In (k, v) l <-> aget k l = Some v)).
  { induction l as [|[k' v'] t IH]; simpl; intros k v Hn; [split; [tauto | discriminate]|].
    inversion Hn as [|? ? Hx Hn']; subst.
    destruct (str_eqb k' k) eqn:E.
    - apply str_eqb_eq in E; subst. split.
      + intros [H|H]; [inversion H; reflexivity|].
        exfalso; apply Hx; apply in_map_iff; exists (k, v); split; [reflexivity | exact H].
      + intro H; inversion H; left; reflexivity.
    - apply str_eqb_neq in E. rewrite <- IH by exact Hn'. split; [|tauto].
      intros [H|H]; [inversion H; congruence | exact H]. }
  split.
  - intros [Hlen Hall] k.
    (* a ⊆ b as finite maps with equal sizes, so b ⊆ a *)
    assert (Hincl : forall k v, aget k a = Some v -> aget k b = Some v).
    { intros k0 v Hg. apply AG in Hg; [|exact Ha]. specialize (Hall _ Hg). simpl in Hall.
      destruct (aget k0 b) eqn:E; [|discriminate]. apply Z.eqb_eq in Hall. congruence. }
    destruct (aget k a) eqn:Ea; [symmetry; apply Hincl; exact Ea|].
    destruct (aget k b) eqn:Eb; [|reflexivity]. exfalso.
    (* keys of a are included in keys of b minus k, contradiction with sizes *)
    assert (Hk : incl (map fst a) (filter (fun x => negb (str_eqb x k)) (map fst b))).
    { intros x Hx. apply in_map_iff in Hx as [[k1 v1] [<- Hin]]. simpl.
      apply filter_In. split.
      - apply AG in Hin; [|exact Ha]. apply Hincl in Hin. apply AG in Hin; [|exact Hb].
        apply in_map_iff. exists (k1, v1). split; [reflexivity | exact Hin].
      - destruct (str_eqb k1 k) eqn:E; [|reflexivity]. apply str_eqb_eq in E; subst.
        apply AG in Hin; [|exact Ha]. congruence. }
    apply NoDup_incl_length in Hk; [|exact Ha].
    assert (Hlt : (length (filter (fun x => negb (str_eqb x k)) (map fst b)) < length (map fst b))%nat).
    { assert (Hin : In k (map fst b)).
      { apply AG in Eb; [|exact Hb]. apply in_map_iff. exists (k, z). split; [reflexivity | exact Eb]. }
      clear - Hin. induction (map fst b) as [|x t IH]; simpl in *; [contradiction|].
      destruct (str_eqb x k) eqn:E; simpl.
      - pose proof (filter_len_le (fun x0 => negb (str_eqb x0 k)) t). lia.
      - destruct Hin as [Hin|Hin]; [subst; rewrite str_eqb_refl in E; discriminate|].
        apply IH in Hin. lia. }
    rewrite !map_length in *. lia.
  - intro Hall. split.
    + (* equal as functions and both duplicate-free, hence equal sizes *)
      rewrite <- (map_length fst a), <- (map_length fst b).
      apply Nat.le_antisymm; apply NoDup_incl_length; try assumption; intros x Hx;
        apply in_map_iff in Hx as [[k1 v1] [<- Hin]]; simpl.
      * apply AG in Hin; [|exact Ha]. rewrite Hall in Hin. apply AG in Hin; [|exact Hb].
        apply in_map_iff. exists (k1, v1). split; [reflexivity | exact Hin].
      * apply AG in Hin; [|exact Hb]. rewrite <- Hall in Hin. apply AG in Hin; [|exact Ha].
        apply in_map_iff. exists (k1, v1). split; [reflexivity | exact Hin].
    + intros [k v] Hin. simpl. apply AG in Hin; [|exact Ha]. rewrite <- Hall, Hin. apply Z.eqb_refl.
Qed.
