(* SealProofs.v — lemmas about Seal.v (framing, envelope round trip, tamper
   safety under named idealisations, front-matter state machine, answer
   verification). *)
From Coq Require Import ZArith NArith List Bool Lia ZifyBool ZifyNat ZifyN.
From EvyV Require Import Base Seal.
Import ListNotations.
Open Scope N_scope.

(* ------------------------------------------------------------------ *)
(* framing                                                             *)
(* ------------------------------------------------------------------ *)

Lemma be16_decode n : n < 65536 -> ((n / 256) mod 256) * 256 + n mod 256 = n.
Proof.
  intro H.
  assert (Hq : n / 256 < 256) by (apply N.div_lt_upper_bound; lia).
  rewrite (N.mod_small _ _ Hq).
  pose proof (N.div_mod' n 256). lia.
Qed.

Lemma unframe_cons v hi lo rest :
  unframe (v :: hi :: lo :: rest) =
  if N.of_nat (S (S (S (List.length rest)))) <? hi * 256 + lo + 3 then None
  else Some (firstn (N.to_nat (hi * 256 + lo)) rest, skipn (N.to_nat (hi * 256 + lo)) rest).
Proof. reflexivity. Qed.

Lemma unframe_layout v hi lo r a :
  N.of_nat (List.length r) = hi * 256 + lo -> unframe (v :: hi :: lo :: r ++ a) = Some (r, a).
Proof.
  intro H. rewrite unframe_cons.
  replace (N.of_nat (S (S (S (List.length (r ++ a)))))) with (N.of_nat (List.length r) + N.of_nat (List.length a) + 3)
    by (rewrite app_length; lia).
  destruct (N.ltb_spec (N.of_nat (List.length r) + N.of_nat (List.length a) + 3) (hi * 256 + lo + 3)) as [L|L]; [lia|].
  rewrite <- H, Nnat.Nat2N.id.
  rewrite firstn_app, firstn_all, Nat.sub_diag, skipn_app, skipn_all, Nat.sub_diag. simpl.
  rewrite app_nil_r. reflexivity.
Qed.

Lemma frame_roundtrip r a :
  N.of_nat (List.length r) < 65536 -> unframe (frame r a) = Some (r, a).
Proof.
  intro H. unfold frame, be16. cbn [app].
  apply unframe_layout. symmetry. apply be16_decode. exact H.
Qed.

Lemma unframe_sound c r a :
  unframe c = Some (r, a) ->
  exists v hi lo, c = v :: hi :: lo :: r ++ a /\ N.of_nat (List.length r) = hi * 256 + lo.
Proof.
  destruct c as [|v [|hi [|lo rest]]]; try discriminate.
  rewrite unframe_cons.
  destruct (N.ltb_spec (N.of_nat (S (S (S (List.length rest))))) (hi * 256 + lo + 3)) as [L|L]; [discriminate|].
  intro E. inversion E; subst. exists v, hi, lo. split.
  - rewrite firstn_skipn. reflexivity.
  - rewrite firstn_length_le by lia. lia.
Qed.

(* the exact language accepted by unframe, and what it returns *)
Lemma unframe_exact c r a :
  unframe c = Some (r, a) <->
  exists v hi lo, c = v :: hi :: lo :: r ++ a /\ N.of_nat (List.length r) = hi * 256 + lo.
Proof.
  split; [apply unframe_sound|].
  intros (v & hi & lo & -> & H). apply unframe_layout; exact H.
Qed.

Lemma unframe_too_short c :
  (List.length c < 3)%nat -> unframe c = None.
Proof. destruct c as [|v [|hi [|lo rest]]]; simpl List.length; intro; try reflexivity; lia. Qed.

Lemma unframe_shorter_than_declared v hi lo rest :
  N.of_nat (List.length rest) < hi * 256 + lo -> unframe (v :: hi :: lo :: rest) = None.
Proof.
  intro H. rewrite unframe_cons.
  destruct (N.ltb_spec (N.of_nat (S (S (S (List.length rest))))) (hi * 256 + lo + 3)) as [L|L]; [reflexivity|lia].
Qed.

Lemma frame_not_nil r a : frame r a <> [].
Proof. discriminate. Qed.

(* ------------------------------------------------------------------ *)
(* envelope                                                            *)
(* ------------------------------------------------------------------ *)
Section EnvelopeProofs.
  Variables PK SK RND : Type.
  Variable parse_pub : str -> option PK.
  Variable parse_priv : str -> option SK.
  Variable rsa_enc : PK -> RND -> bytes -> option bytes.
  Variable rsa_dec : SK -> bytes -> option bytes.
  Variable gcm_seal : bytes -> bytes -> bytes.
  Variable gcm_open : bytes -> bytes -> option bytes.
  Variable b64_enc : bytes -> str.
  Variable b64_dec : str -> option bytes.

  Notation encrypt := (encrypt PK RND parse_pub rsa_enc gcm_seal b64_enc).
  Notation decrypt := (decrypt SK parse_priv rsa_dec gcm_open b64_dec).
  Notation hybrid_encrypt := (hybrid_encrypt PK RND rsa_enc gcm_seal).
  Notation hybrid_decrypt := (hybrid_decrypt SK rsa_dec gcm_open).
  Notation seal_fm := (seal_fm PK RND parse_pub rsa_enc gcm_seal b64_enc).
  Notation unseal_fm := (unseal_fm SK parse_priv rsa_dec gcm_open b64_dec).

  (* functional correctness of the primitives (what the library documents) *)
  Definition KeyPair (pk : PK) (sk : SK) : Prop :=
    forall rnd k rc, rsa_enc pk rnd k = Some rc -> rsa_dec sk rc = Some k.
  Definition RsaLen : Prop :=
    forall pk rnd k rc, rsa_enc pk rnd k = Some rc -> N.of_nat (List.length rc) < 65536.
  Definition GcmRoundtrip : Prop :=
    forall k p, aes_key_ok k = true -> gcm_open k (gcm_seal k p) = Some p.
  Definition B64Roundtrip : Prop := forall b, b64_dec (b64_enc b) = Some b.
  Definition B64NonNil : Prop := forall b, b64_enc b = [] -> b = [].

  (* cryptographic idealisations (true only up to negligible probability and
     only for alterations made without the ability to run Encrypt afresh):
     relative to ONE genuine envelope with session key k, plaintext p, RSA
     part rc made for private key sk *)
  Definition IdealGcmIntegrity (k p : bytes) : Prop :=
    forall a' p', gcm_open k a' = Some p' -> a' = gcm_seal k p.
  Definition IdealOaepIntegrity (sk : SK) (rc : bytes) : Prop :=
    forall sk' r' k', rsa_dec sk' r' = Some k' ->
                      (sk' = sk /\ r' = rc) \/ (forall a', gcm_open k' a' = None).

  Lemma hybrid_roundtrip pk sk k rnd p c :
    KeyPair pk sk -> RsaLen -> GcmRoundtrip ->
    hybrid_encrypt pk k rnd p = Ok c -> hybrid_decrypt sk c = Ok p.
  Proof.
    intros KP RL GR. unfold Seal.hybrid_encrypt, Seal.hybrid_decrypt.
    destruct (aes_key_ok k) eqn:AK; [|discriminate]. cbn [negb].
    destruct (rsa_enc pk rnd k) as [rc|] eqn:RE; [|discriminate].
    intro E. inversion E; subst c. clear E.
    rewrite frame_roundtrip by (eapply RL; eauto).
    rewrite (KP _ _ _ RE), AK. cbn [negb]. rewrite GR by exact AK. reflexivity.
  Qed.

  Lemma encrypt_decrypt pubs privs pk sk :
    parse_pub pubs = Some pk -> parse_priv privs = Some sk -> KeyPair pk sk ->
    RsaLen -> GcmRoundtrip -> B64Roundtrip ->
    forall k rnd p c, encrypt pubs k rnd p = Ok c -> decrypt privs c = Ok p.
  Proof.
    intros PP PS KP RL GR BR k rnd p c. unfold Seal.encrypt, Seal.decrypt. rewrite PP.
    destruct (hybrid_encrypt pk k rnd p) as [bs|e] eqn:HE; [|discriminate].
    intro E. inversion E; subst c. rewrite BR, PS. eapply hybrid_roundtrip; eauto.
  Qed.

  Lemma encrypt_succeeds pubs pk k rnd p :
    parse_pub pubs = Some pk -> List.length k = session_key_bytes -> rsa_enc pk rnd k <> None ->
    exists c, encrypt pubs k rnd p = Ok c.
  Proof.
    intros PP LK RE. unfold Seal.encrypt, Seal.hybrid_encrypt. rewrite PP.
    unfold aes_key_ok. rewrite LK. cbn.
    destruct (rsa_enc pk rnd k); [eexists; reflexivity|congruence].
  Qed.

  Lemma encrypt_not_nil pubs k rnd p c : B64NonNil -> encrypt pubs k rnd p = Ok c -> c <> [].
  Proof.
    intros NN. unfold Seal.encrypt, Seal.hybrid_encrypt.
    destruct (parse_pub pubs); [|discriminate].
    destruct (negb (aes_key_ok k)); [discriminate|].
    destruct (rsa_enc p0 rnd k); [|discriminate].
    intro E. inversion E. intro Z. apply NN in Z. exact (frame_not_nil _ _ Z).
  Qed.

  (* tamper safety: whatever string is presented, with whatever private key
     string, a successful Decrypt returns the sealed plaintext *)
  Lemma tamper_safe sk k rc p :
    rsa_dec sk rc = Some k -> gcm_open k (gcm_seal k p) = Some p ->
    IdealGcmIntegrity k p -> IdealOaepIntegrity sk rc ->
    forall privs' c' p', decrypt privs' c' = Ok p' -> p' = p.
  Proof.
    intros RD GO IG IO privs' c' p'. unfold Seal.decrypt, Seal.hybrid_decrypt.
    destruct (b64_dec c') as [bs|]; [|discriminate].
    destruct (parse_priv privs') as [sk'|]; [|discriminate].
    destruct (unframe bs) as [[r' a']|]; [|discriminate].
    destruct (rsa_dec sk' r') as [k'|] eqn:RD'; [|discriminate].
    destruct (negb (aes_key_ok k')); [discriminate|].
    destruct (gcm_open k' a') as [q|] eqn:GO'; [|discriminate].
    intro E. inversion E; subst q. clear E.
    destruct (IO _ _ _ RD') as [[-> ->]|NO].
    - rewrite RD in RD'. inversion RD'; subst k'.
      apply IG in GO' as A. subst a'. rewrite GO in GO'. congruence.
    - rewrite NO in GO'. discriminate.
  Qed.

  (* ---------- front matter ---------- *)
  Lemma seal_unseal_fm pubs privs pk sk :
    parse_pub pubs = Some pk -> parse_priv privs = Some sk -> KeyPair pk sk ->
    RsaLen -> GcmRoundtrip -> B64Roundtrip -> B64NonNil ->
    forall k rnd f f', sealed f = [] -> seal_fm pubs k rnd f = Ok f' ->
                       unseal_fm privs f' = Ok f /\ answer f' = [] /\ sealed f' <> [].
  Proof.
    intros PP PS KP RL GR BR NN k rnd [ty a s] f'. cbn [sealed]. intros ->.
    unfold Seal.seal_fm. cbn [answer sealed is_nil negb andb].
    rewrite andb_false_r.
    destruct a as [|a0 a]; [discriminate|]. cbn [is_nil].
    destruct (encrypt pubs k rnd (a0 :: a)) as [c|e] eqn:EN; [|discriminate].
    intro E. inversion E; subst f'. clear E.
    pose proof (encrypt_not_nil _ _ _ _ _ NN EN) as CN.
    unfold Seal.unseal_fm. cbn [answer sealed is_nil negb andb].
    destruct c as [|c0 c]; [congruence|]. cbn [is_nil].
    rewrite (encrypt_decrypt _ _ _ _ PP PS KP RL GR BR _ _ _ _ EN).
    repeat split; congruence.
  Qed.

  Lemma seal_fm_idempotent pubs :
    B64NonNil ->
    forall k rnd f f', seal_fm pubs k rnd f = Ok f' ->
                       forall k' rnd', seal_fm pubs k' rnd' f' = Ok f'.
  Proof.
    intros NN k rnd [ty a s] f'. unfold Seal.seal_fm. cbn [answer sealed fm_type].
    destruct a as [|a0 a]; cbn [is_nil andb negb].
    - destruct s as [|s0 s]; cbn [is_nil negb]; [discriminate|].
      intro E. inversion E; subst f'. reflexivity.
    - destruct (encrypt pubs k rnd (a0 :: a)) as [c|e] eqn:EN; [|discriminate].
      intro E. inversion E; subst f'. intros k' rnd'. cbn [answer sealed is_nil andb negb].
      pose proof (encrypt_not_nil _ _ _ _ _ NN EN) as CN.
      destruct c; [congruence|]. reflexivity.
  Qed.

  Lemma unseal_fm_idempotent privs f f' :
    unseal_fm privs f = Ok f' -> answer f' <> [] -> unseal_fm privs f' = Ok f'.
  Proof.
    destruct f as [ty a s]. unfold Seal.unseal_fm. cbn [answer sealed fm_type].
    destruct a as [|a0 a]; cbn [is_nil andb negb].
    - destruct s as [|s0 s]; cbn [is_nil]; [discriminate|].
      destruct (decrypt privs (s0 :: s)) as [t|e]; [|discriminate].
      intro E. inversion E; subst f'. cbn [answer sealed]. intro NE.
      destruct t; [congruence|]. reflexivity.
    - destruct s as [|s0 s]; cbn [is_nil].
      + intro E. inversion E; subst f'. reflexivity.
      + destruct (decrypt privs (s0 :: s)) as [t|e]; [|discriminate].
        intro E. inversion E; subst f'. cbn [answer sealed]. intro NE.
        destruct t; [congruence|]. reflexivity.
  Qed.

  Lemma seal_fm_never_both pubs k rnd f f' :
    seal_fm pubs k rnd f = Ok f' -> answer f' = [].
  Proof.
    destruct f as [ty a s]. unfold Seal.seal_fm. cbn [answer sealed fm_type].
    destruct a as [|a0 a]; cbn [is_nil andb negb].
    - destruct s; cbn [is_nil negb]; [discriminate|]. intro E; inversion E; reflexivity.
    - destruct (encrypt pubs k rnd (a0 :: a)); [|discriminate]. intro E; inversion E; reflexivity.
  Qed.

  Lemma unseal_fm_never_both privs f f' :
    unseal_fm privs f = Ok f' -> sealed f' = [].
  Proof.
    destruct f as [ty a s]. unfold Seal.unseal_fm. cbn [answer sealed fm_type].
    destruct a as [|a0 a]; cbn [is_nil andb negb]; destruct s as [|s0 s]; cbn [is_nil]; try discriminate.
    - destruct (decrypt privs (s0 :: s)); [|discriminate]. intro E; inversion E; reflexivity.
    - intro E; inversion E; reflexivity.
    - destruct (decrypt privs (s0 :: s)); [|discriminate]. intro E; inversion E; reflexivity.
  Qed.
End EnvelopeProofs.

(* ------------------------------------------------------------------ *)
(* answer verification                                                 *)
(* ------------------------------------------------------------------ *)

Lemma mem_nat_In i l : mem_nat i l = true <-> In i l.
Proof.
  unfold mem_nat. rewrite existsb_exists. split.
  - intros (x & Hx & E). apply Nat.eqb_eq in E. subst. exact Hx.
  - intro H. exists i. split; [exact H|apply Nat.eqb_refl].
Qed.

Lemma verify_choice_from_spec outs : forall i marks gen,
  verify_choice_from i marks outs gen = Ok tt <->
  (forall j o, nth_error outs j = Some o -> (In (i + j)%nat marks <-> o = gen)).
Proof.
  induction outs as [|o t IH]; intros i marks gen; cbn [verify_choice_from].
  - split; [|reflexivity]. intros _ j o' H. destruct j; discriminate.
  - destruct (mem_nat i marks) eqn:M; destruct (str_eqb gen o) eqn:E; cbn [andb negb].
    + (* marked, equal *)
      rewrite IH. apply mem_nat_In in M. apply str_eqb_eq in E. subst o. split.
      * intros H [|j] o' Hj; cbn in Hj.
        -- inversion Hj; subst. rewrite Nat.add_0_r. tauto.
        -- rewrite <- Nat.add_succ_comm. apply H. exact Hj.
      * intros H j o' Hj. rewrite Nat.add_succ_comm. apply H. exact Hj.
    + (* marked, different: rejected *)
      split; [discriminate|]. intro H. exfalso.
      apply mem_nat_In in M. apply str_eqb_neq in E.
      specialize (H 0%nat o eq_refl). rewrite Nat.add_0_r in H. apply E. symmetry. tauto.
    + (* unmarked, equal: rejected *)
      split; [discriminate|]. intro H. exfalso.
      apply str_eqb_eq in E. subst o.
      specialize (H 0%nat gen eq_refl). rewrite Nat.add_0_r in H.
      assert (In i marks) by tauto. apply mem_nat_In in H0. congruence.
    + (* unmarked, different *)
      rewrite IH. apply str_eqb_neq in E. split.
      * intros H [|j] o' Hj; cbn in Hj.
        -- inversion Hj; subst. rewrite Nat.add_0_r. split.
           ++ intro I. apply mem_nat_In in I. congruence.
           ++ intro X. subst. congruence.
        -- rewrite <- Nat.add_succ_comm. apply H. exact Hj.
      * intros H j o' Hj. rewrite Nat.add_succ_comm. apply H. exact Hj.
Qed.

(* the walk alone (the function before commit 1e7a3a9) accepts exactly when,
   among the EXISTING choices, the marked ones are the ones whose output equals
   the question's *)
Lemma verify_choice_before_fix_iff marks outs gen :
  verify_choice_before_fix marks outs gen = Ok tt <->
  (forall j o, nth_error outs j = Some o -> (In j marks <-> o = gen)).
Proof. unfold verify_choice_before_fix. rewrite verify_choice_from_spec. reflexivity. Qed.

Lemma verify_choice_from_result outs : forall i marks gen,
  verify_choice_from i marks outs gen = Ok tt \/ verify_choice_from i marks outs gen = Err EWrongAnswer.
Proof.
  induction outs as [|o t IH]; intros; cbn [verify_choice_from]; [left; reflexivity|].
  destruct (mem_nat i marks && negb (str_eqb gen o)); [right; reflexivity|].
  destruct (negb (mem_nat i marks) && str_eqb gen o); [right; reflexivity|apply IH].
Qed.

(* the property's statement: the marked choices are PRECISELY the choices
   whose output equals the question's output *)
Definition marks_exact (marks : list nat) (outs : list str) (gen : str) : Prop :=
  forall j, In j marks <-> nth_error outs j = Some gen.

Lemma marks_exact_in_range marks outs gen :
  marks_exact marks outs gen -> forall m, In m marks -> (m < List.length outs)%nat.
Proof. intros H m I. apply H in I. apply nth_error_Some. congruence. Qed.

Lemma verify_choice_before_fix_guarded marks outs gen :
  (forall m, In m marks -> (m < List.length outs)%nat) ->
  (verify_choice_before_fix marks outs gen = Ok tt <-> marks_exact marks outs gen).
Proof.
  intro G. rewrite verify_choice_before_fix_iff. unfold marks_exact. split.
  - intros H j. split.
    + intro I. pose proof (G _ I) as L. apply nth_error_Some in L.
      destruct (nth_error outs j) as [o|] eqn:N; [|congruence].
      f_equal. apply (H j o N). exact I.
    + intro N. apply (H j gen N). reflexivity.
  - intros H j o N. split.
    + intro I. apply H in I. congruence.
    + intro E. subst o. apply H. exact N.
Qed.

(* verifyAnswerInRange decides "every mark names an existing choice" *)
Lemma marks_in_range_spec marks n :
  marks_in_range marks n = true <-> (forall m, In m marks -> (m < n)%nat).
Proof.
  unfold marks_in_range. destruct marks as [|m0 t].
  - split; [intros _ m []|reflexivity].
  - rewrite Nat.ltb_lt, list_max_lt by discriminate. rewrite Forall_forall. reflexivity.
Qed.

(* HEAD: the unguarded statement *)
Lemma verify_choice_iff marks outs gen :
  verify_choice marks outs gen = Ok tt <-> marks_exact marks outs gen.
Proof.
  unfold verify_choice.
  destruct (marks_in_range marks (List.length outs)) eqn:F.
  - apply verify_choice_before_fix_guarded. apply marks_in_range_spec. exact F.
  - split; [discriminate|]. intro H. exfalso.
    assert (marks_in_range marks (List.length outs) = true); [|congruence].
    apply marks_in_range_spec. intros m I. eapply marks_exact_in_range; eauto.
Qed.

Lemma verify_choice_result marks outs gen :
  verify_choice marks outs gen = Ok tt \/ verify_choice marks outs gen = Err EWrongAnswer.
Proof.
  unfold verify_choice. destruct (marks_in_range _ _); [apply verify_choice_from_result|right; reflexivity].
Qed.

(* the fix changed nothing where every mark names an existing choice *)
Lemma verify_choice_agrees_before_fix marks outs gen :
  (forall m, In m marks -> (m < List.length outs)%nat) ->
  verify_choice marks outs gen = verify_choice_before_fix marks outs gen.
Proof.
  intro G. unfold verify_choice.
  replace (marks_in_range marks (List.length outs)) with true; [reflexivity|].
  symmetry. apply marks_in_range_spec. exact G.
Qed.

(* ---------- parse-error / no-parse-error verification ---------- *)
Definition enc_flag (b : bool) : str := [if b then 1 else 0].

Lemma enc_flag_eqb want p : str_eqb (enc_flag want) (enc_flag p) = Bool.eqb p want.
Proof. destruct want, p; reflexivity. Qed.

Lemma verify_flags_from_as_choice want perrs : forall i marks,
  verify_flags_from want i marks perrs = verify_choice_from i marks (map enc_flag perrs) (enc_flag want).
Proof.
  induction perrs as [|p t IH]; intros i marks; cbn [verify_flags_from verify_choice_from map]; [reflexivity|].
  rewrite enc_flag_eqb, IH. reflexivity.
Qed.

Lemma verify_parse_flags_as_choice want marks perrs :
  verify_parse_flags want marks perrs = verify_choice marks (map enc_flag perrs) (enc_flag want).
Proof.
  unfold verify_parse_flags, verify_choice. rewrite map_length, verify_flags_from_as_choice. reflexivity.
Qed.

(* accepted exactly when the marked files are PRECISELY the files whose
   parse-error flag is the wanted one *)
Lemma verify_parse_flags_iff want marks perrs :
  verify_parse_flags want marks perrs = Ok tt <->
  (forall j, In j marks <-> nth_error perrs j = Some want).
Proof.
  rewrite verify_parse_flags_as_choice, verify_choice_iff. unfold marks_exact.
  assert (E : forall j, nth_error (map enc_flag perrs) j = Some (enc_flag want) <-> nth_error perrs j = Some want).
  { intro j. rewrite nth_error_map. destruct (nth_error perrs j) as [p|]; cbn; [|split; discriminate].
    split; intro H; [|congruence]. destruct p, want; try reflexivity; discriminate. }
  split; intros H j; specialize (H j); rewrite H; [apply E|symmetry; apply E].
Qed.

(* ---------- text answers: strings.TrimSpace ---------- *)
Definition all_space (s : str) : Prop := Forall (fun c => is_space c = true) s.
Definition no_lead (s : str) : Prop := match s with c :: _ => is_space c = false | [] => True end.
(* no leading and no trailing white space *)
Definition tight (s : str) : Prop := no_lead s /\ no_lead (rev s).

(* equal up to surrounding white space *)
Definition same_mod_space (q a : str) : Prop :=
  exists l1 r1 l2 r2 core,
    q = l1 ++ core ++ r1 /\ a = l2 ++ core ++ r2 /\
    all_space l1 /\ all_space r1 /\ all_space l2 /\ all_space r2 /\ tight core.

Lemma drop_space_decomp s :
  exists l, s = l ++ drop_space s /\ all_space l /\ no_lead (drop_space s).
Proof.
  induction s as [|c t IH]; cbn [drop_space].
  - exists []. repeat split; constructor.
  - destruct (is_space c) eqn:E.
    + destruct IH as (l & H1 & H2 & H3). exists (c :: l). repeat split.
      * cbn. congruence.
      * constructor; assumption.
      * exact H3.
    + exists []. repeat split; [constructor|exact E].
Qed.

Lemma drop_space_all l s : all_space l -> drop_space (l ++ s) = drop_space s.
Proof. induction 1 as [|c l Hc _ IH]; cbn [app drop_space]; [reflexivity|]. rewrite Hc. exact IH. Qed.

Lemma drop_space_no_lead s : no_lead s -> drop_space s = s.
Proof. destruct s as [|c t]; cbn; [reflexivity|]. intros ->. reflexivity. Qed.

Lemma drop_space_only l : all_space l -> drop_space l = [].
Proof. intro H. rewrite <- (app_nil_r l). rewrite drop_space_all by exact H. reflexivity. Qed.

Lemma all_space_rev l : all_space l -> all_space (rev l).
Proof. apply Forall_rev. Qed.

Lemma trim_unique l core r :
  all_space l -> all_space r -> tight core -> trim (l ++ core ++ r) = core.
Proof.
  intros Hl Hr [T1 T2]. unfold trim. rewrite drop_space_all by exact Hl.
  destruct core as [|c t].
  - cbn [app]. rewrite (drop_space_only r Hr). reflexivity.
  - rewrite (drop_space_no_lead ((c :: t) ++ r)) by exact T1.
    rewrite rev_app_distr, drop_space_all by (apply all_space_rev; exact Hr).
    rewrite (drop_space_no_lead (rev (c :: t))) by exact T2. apply rev_involutive.
Qed.

Lemma trim_decomp s :
  exists l r, s = l ++ trim s ++ r /\ all_space l /\ all_space r /\ tight (trim s).
Proof.
  unfold trim.
  destruct (drop_space_decomp s) as (l & H1 & H2 & H3).
  destruct (drop_space_decomp (rev (drop_space s))) as (l' & G1 & G2 & G3).
  set (d := drop_space s) in *. set (d' := drop_space (rev d)) in *.
  assert (D : d = rev d' ++ rev l').
  { rewrite <- (rev_involutive d), G1, rev_app_distr. reflexivity. }
  exists l, (rev l'). repeat split.
  - rewrite <- D. exact H1.
  - exact H2.
  - apply all_space_rev. exact G2.
  - destruct (rev d') as [|c t] eqn:R; [exact I|].
    rewrite D in H3. exact H3.
  - rewrite rev_involutive. exact G3.
Qed.

Lemma trim_eq_iff q a : trim q = trim a <-> same_mod_space q a.
Proof.
  split.
  - intro E.
    destruct (trim_decomp q) as (l1 & r1 & Q & A1 & A2 & T1 & T2).
    destruct (trim_decomp a) as (l2 & r2 & A & B1 & B2 & _).
    exists l1, r1, l2, r2, (trim q). rewrite <- E in A. repeat split; assumption.
  - intros (l1 & r1 & l2 & r2 & core & -> & -> & A1 & A2 & B1 & B2 & T).
    rewrite !trim_unique by assumption. reflexivity.
Qed.

Lemma verify_text_iff run is_src qout atext :
  verify_text run is_src qout atext = Ok tt <->
  same_mod_space qout (if is_src then run (trim atext) else atext).
Proof.
  unfold verify_text. rewrite <- trim_eq_iff.
  destruct is_src.
  - destruct (str_eqb (trim qout) (trim (run (trim atext)))) eqn:E.
    + apply str_eqb_eq in E. tauto.
    + apply str_eqb_neq in E. split; [discriminate|contradiction].
  - destruct (str_eqb (trim qout) (trim atext)) eqn:E.
    + apply str_eqb_eq in E. tauto.
    + apply str_eqb_neq in E. split; [discriminate|contradiction].
Qed.

(* ---------- marks from the answer text ---------- *)
Lemma answer_marks_single text marks :
  answer_marks SingleChoice text = Ok marks <->
  exists c, text = [c] /\ 97 <= c <= 122 /\ marks = [N.to_nat (c - 97)].
Proof.
  unfold answer_marks, validate_single. split.
  - destruct text as [|c [|c' t]]; try discriminate.
    destruct (N.leb_spec 97 c); destruct (N.leb_spec c 122); cbn [andb]; try discriminate.
    intro E. inversion E. exists c. repeat split; assumption.
  - intros (c & -> & [L1 L2] & ->).
    destruct (N.leb_spec 97 c); destruct (N.leb_spec c 122); cbn [andb]; try lia. reflexivity.
Qed.

(* ---------- verification modes ---------- *)
From Coq Require Import String.
Lemma verify_default_is_match :
  load_verification None = Ok VMatch /\ load_verification (Some (s_ "match")) = Ok VMatch.
Proof. split; reflexivity. Qed.

Lemma load_verification_spec v m :
  load_verification v = Ok m <->
  (v = None /\ m = VMatch) \/ (v = Some (s_ "match") /\ m = VMatch) \/ (v = Some (s_ "none") /\ m = VNone) \/
  (v = Some (s_ "parse-error") /\ m = VParseError) \/ (v = Some (s_ "no-parse-error") /\ m = VNoParseError).
Proof.
  split.
  - destruct v as [s|]; cbn [load_verification].
    + destruct (str_eqb s (s_ "match")) eqn:E1; [apply str_eqb_eq in E1; subst; intro H; inversion H; tauto|].
      destruct (str_eqb s (s_ "none")) eqn:E2; [apply str_eqb_eq in E2; subst; intro H; inversion H; tauto|].
      destruct (str_eqb s (s_ "parse-error")) eqn:E3; [apply str_eqb_eq in E3; subst; intro H; inversion H; tauto|].
      destruct (str_eqb s (s_ "no-parse-error")) eqn:E4; [apply str_eqb_eq in E4; subst; intro H; inversion H; tauto|].
      discriminate.
    + intro H; inversion H; tauto.
  - intros [[-> ->]|[[-> ->]|[[-> ->]|[[-> ->]|[-> ->]]]]]; reflexivity.
Qed.

Lemma load_verification_result v : (exists m, load_verification v = Ok m) \/ load_verification v = Err EInvalidFm.
Proof.
  destruct v as [s|]; cbn [load_verification]; [|left; eexists; reflexivity].
  repeat match goal with |- context [if ?b then _ else _] => destruct b; [left; eexists; reflexivity|] end.
  right; reflexivity.
Qed.

Section QuestionProofs.
  Variable SK : Type.
  Variable parse_priv : str -> option SK.
  Variable rsa_dec : SK -> bytes -> option bytes.
  Variable gcm_open : bytes -> bytes -> option bytes.
  Variable b64_dec : str -> option bytes.
  Variable run : str -> str.
  Notation qv := (question_verify SK parse_priv rsa_dec gcm_open b64_dec run verify_choice).

  Definition choice_type (t : atype) : Prop := t = SingleChoice \/ t = MultipleChoice.

  (* an unsealed choice question under match verification is accepted exactly
     when its answer denotes marks and these are precisely the matching choices *)
  Lemma question_verify_match_choice_iff ignore privs f is_src outs gen perrs :
    sealed f = [] -> choice_type (fm_type f) ->
    (qv ignore privs VMatch f is_src outs gen perrs = Ok tt <->
     answer f <> [] /\ exists marks, answer_marks (fm_type f) (answer f) = Ok marks /\ marks_exact marks outs gen).
  Proof.
    destruct f as [ty a s]. cbn [sealed fm_type answer]. intros -> CT.
    unfold question_verify, answer_text. cbn [sealed fm_type answer is_nil negb andb].
    rewrite andb_false_r. cbn [andb].
    destruct a as [|a0 a]; cbn [is_nil].
    - split; [discriminate|]. intros [H _]. congruence.
    - destruct (answer_marks ty (a0 :: a)) as [marks|e] eqn:AM.
      + assert (R : match ty with SingleChoice | MultipleChoice => verify_choice marks outs gen
                                  | TextAnswer => verify_text run is_src gen (a0 :: a) end = verify_choice marks outs gen)
          by (destruct CT as [-> | ->]; reflexivity).
        rewrite R, verify_choice_iff. split.
        * intro H. split; [discriminate|]. exists marks. split; [reflexivity|exact H].
        * intros [_ (m' & E & H)]. inversion E; subst. exact H.
      + split; [discriminate|]. intros [_ (m' & E & _)]. discriminate.
  Qed.

  (* verification: none accepts every unsealed question whose answer is well formed *)
  Lemma question_verify_none_iff ignore privs f is_src outs gen perrs :
    sealed f = [] ->
    (qv ignore privs VNone f is_src outs gen perrs = Ok tt <->
     answer f <> [] /\ exists marks, answer_marks (fm_type f) (answer f) = Ok marks).
  Proof.
    destruct f as [ty a s]. cbn [sealed fm_type answer]. intros ->.
    unfold question_verify, answer_text. cbn [sealed fm_type answer is_nil negb andb].
    rewrite andb_false_r. cbn [andb].
    destruct a as [|a0 a]; cbn [is_nil].
    - split; [discriminate|]. intros [H _]. congruence.
    - destruct (answer_marks ty (a0 :: a)) as [marks|e].
      + split; [intros _; split; [discriminate|eexists; reflexivity]|reflexivity].
      + split; [discriminate|]. intros [_ (m' & E)]. discriminate.
  Qed.
End QuestionProofs.

(* ---------- histories: Verify is a function of the question ---------- *)
Section HistoryProofs.
  Variable SK : Type.
  Variable parse_priv : str -> option SK.
  Variable rsa_dec : SK -> bytes -> option bytes.
  Variable gcm_open : bytes -> bytes -> option bytes.
  Variable b64_dec : str -> option bytes.
  Variable run : str -> str.
  Notation v1 := (verify_one SK parse_priv rsa_dec gcm_open b64_dec run).
  Notation vh := (verify_history SK parse_priv rsa_dec gcm_open b64_dec run).

  Lemma verify_history_acc qs : forall acc,
    fold_left (fun verdicts q => verdicts ++ [v1 q]) qs acc = acc ++ map v1 qs.
  Proof.
    induction qs as [|q t IH]; intro acc; cbn [fold_left map]; [rewrite app_nil_r; reflexivity|].
    rewrite IH, <- app_assoc. reflexivity.
  Qed.

  Lemma verify_history_is_map qs : vh qs = map v1 qs.
  Proof. unfold verify_history. rewrite verify_history_acc. reflexivity. Qed.

  (* the verdict of a question does not depend on what was verified before or after it,
     nor on how often: it is its verdict when verified alone *)
  Lemma verify_history_position pre q post :
    nth_error (vh (pre ++ q :: post)) (List.length pre) = Some (v1 q) /\ vh [q] = [v1 q].
  Proof.
    split; [|reflexivity].
    rewrite verify_history_is_map, map_app, nth_error_app2 by (rewrite map_length; apply le_n).
    rewrite map_length, Nat.sub_diag. reflexivity.
  Qed.
End HistoryProofs.
