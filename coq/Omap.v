(* Omap.v — model of evaluator.mapVal (pkg/evaluator/value.go), mapRange
   (ranger.go), the builtins has/del/len on maps (builtin.go) and a small
   history language over them.  No proofs here (see OmapProofs.v).

   Go:  type mapVal struct { Pairs map[string]value; Order *[]string }
   Model: [pairs] is an association list standing for the hash map (only
   looked up by key, never iterated in an order-revealing way except by
   Equals, which is order-insensitive), [order] is the Order slice. *)
From Coq Require Import ZArith NArith List String Bool DecimalString.
From EvyV Require Import Base.
Import ListNotations.
Open Scope Z_scope.

(* ---------- the Go hash map Pairs ---------- *)
Fixpoint plookup {V} (k : str) (p : list (str * V)) : option V :=
  match p with
  | [] => None
  | (k', v) :: t => if str_eqb k' k then Some v else plookup k t
  end.

Fixpoint premove {V} (k : str) (p : list (str * V)) : list (str * V) :=
  match p with
  | [] => []
  | (k', v) :: t => if str_eqb k' k then premove k t else (k', v) :: premove k t
  end.

Definition pset {V} (k : str) (v : V) (p : list (str * V)) : list (str * V) :=
  (k, v) :: premove k p.

(* ---------- mapVal ---------- *)
Record omap (V : Type) := { pairs : list (str * V); order : list str }.
Arguments pairs {V}. Arguments order {V}.

Definition oempty {V} : omap V := {| pairs := []; order := [] |}.

(* mapVal.SetKey *)
Definition oset {V} (k : str) (v : V) (m : omap V) : omap V :=
  match plookup k (pairs m) with
  | None => {| pairs := pset k v (pairs m); order := order m ++ [k] |}
  | Some _ => {| pairs := pset k v (pairs m); order := order m |}
  end.

(* mapVal.Delete: removes the first occurrence of key in Order *)
Definition odel {V} (k : str) (m : omap V) : omap V :=
  match plookup k (pairs m) with
  | None => m
  | Some _ => {| pairs := premove k (pairs m); order := remove_first k (order m) |}
  end.

(* mapVal.Get : None is the ErrMapKey panic *)
Definition oget {V} (k : str) (m : omap V) : option V := plookup k (pairs m).
Definition ohas {V} (k : str) (m : omap V) : bool :=
  match plookup k (pairs m) with Some _ => true | None => false end.
(* len m = len(m.Pairs) *)
Definition olen {V} (m : omap V) : nat := List.length (pairs m).

(* String()/Repr()/deepCopy walk Order and dereference Pairs[key]; a key in
   Order without an entry in Pairs would be a nil dereference in Go:
   [None] stands for that host crash. *)
Fixpoint olist_aux {V} (p : list (str * V)) (o : list str) : option (list (str * V)) :=
  match o with
  | [] => Some []
  | k :: t => match plookup k p, olist_aux p t with
              | Some v, Some r => Some ((k, v) :: r)
              | _, _ => None
              end
  end.
Definition olist {V} (m : omap V) : option (list (str * V)) := olist_aux (pairs m) (order m).

(* evalMapLiteral for literal {k1:v1 k2:v2 ...}: the parser has already
   rejected duplicate keys; pairs are inserted, order copied. *)
Definition oliteral {V} (l : list (str * V)) : omap V :=
  fold_left (fun m kv => oset (fst kv) (snd kv) m) l oempty.

(* mapVal.Equals: equal sizes and every pair of the left found equal in the right *)
Definition oequals {V} (veq : V -> V -> bool) (a b : omap V) : bool :=
  Nat.eqb (List.length (pairs a)) (List.length (pairs b)) &&
  forallb (fun kv => match plookup (fst kv) (pairs b) with
                     | Some v2 => veq (snd kv) v2
                     | None => false end) (pairs a).

(* ---------- the specification: an insertion-ordered association list ---------- *)
Definition alist (V : Type) := list (str * V).

Fixpoint aget {V} (k : str) (l : alist V) : option V :=
  match l with [] => None | (k', v) :: t => if str_eqb k' k then Some v else aget k t end.

Fixpoint areplace {V} (k : str) (v : V) (l : alist V) : alist V :=
  match l with
  | [] => []
  | (k', v') :: t => if str_eqb k' k then (k', v) :: t else (k', v') :: areplace k v t
  end.

Definition aset {V} (k : str) (v : V) (l : alist V) : alist V :=
  match aget k l with Some _ => areplace k v l | None => l ++ [(k, v)] end.

Definition adel {V} (k : str) (l : alist V) : alist V :=
  filter (fun kv => negb (str_eqb (fst kv) k)) l.

Definition ahas {V} (k : str) (l : alist V) : bool :=
  match aget k l with Some _ => true | None => false end.

Definition aliteral {V} (l : list (str * V)) : alist V :=
  fold_left (fun m kv => aset (fst kv) (snd kv) m) l [].

Definition aequals {V} (veq : V -> V -> bool) (a b : alist V) : bool :=
  Nat.eqb (List.length a) (List.length b) &&
  forallb (fun kv => match aget (fst kv) b with Some v2 => veq (snd kv) v2 | None => false end) a.

(* ---------- a dictionary interface, so that one interpreter serves both ---------- *)
Record dict (V D : Type) := {
  d_set : str -> V -> D -> D;
  d_del : str -> D -> D;
  d_get : str -> D -> option V;
  d_has : str -> D -> bool;
  d_len : D -> nat;
  d_list : D -> option (list (str * V));
  d_keys : D -> list str;         (* snapshot taken by newRange: copy of Order *)
  d_lit : list (str * V) -> D;
  d_eq : D -> D -> bool;
}.
Arguments d_set {V D}. Arguments d_del {V D}. Arguments d_get {V D}. Arguments d_has {V D}.
Arguments d_len {V D}. Arguments d_list {V D}. Arguments d_keys {V D}. Arguments d_lit {V D}.
Arguments d_eq {V D}.

Definition omap_dict : dict Z (omap Z) := {|
  d_set := oset; d_del := odel; d_get := oget; d_has := ohas; d_len := olen;
  d_list := olist; d_keys := order; d_lit := oliteral; d_eq := oequals Z.eqb |}.

Definition alist_dict : dict Z (alist Z) := {|
  d_set := aset; d_del := adel; d_get := aget; d_has := ahas; d_len := @List.length _;
  d_list := fun l => Some l; d_keys := fun l => map fst l; d_lit := aliteral;
  d_eq := aequals Z.eqb |}.

(* ---------- histories ---------- *)
(* a key operand is a literal or the variable of the innermost enclosing loop *)
Inductive kref := KLit (k : str) | KVar.

Inductive op :=
| OSet (k : kref) (v : Z)        (* m[k] = v   /  m.k = v *)
| ODel (k : kref)                (* del m k *)
| OGet (k : kref)                (* print m[k]  — panics when missing *)
| OHas (k : kref)                (* print (has m k) *)
| OLen                           (* print (len m) *)
| OPrint                         (* print m *)
| OEqLit (l : list (str * Z))    (* print (m == {…}) *)
| OReset (l : list (str * Z))    (* m = (fresh): the SAME literal expression evaluated once more; all aliases rebound *)
| OLoop (body : list op).        (* for k := range m / print k / body / end *)

Inductive status := Running | PanicMapKey | HostCrash.

Record st (D : Type) := { dmap : D; outs : list str; stat : status }.
Arguments dmap {D}. Arguments outs {D}. Arguments stat {D}.

Definition emit {D} (s : str) (x : st D) : st D :=
  {| dmap := dmap x; outs := outs x ++ [s]; stat := stat x |}.
Definition with_map {D} (d : D) (x : st D) : st D :=
  {| dmap := d; outs := outs x; stat := stat x |}.
Definition fail {D} (e : status) (x : st D) : st D :=
  {| dmap := dmap x; outs := outs x; stat := e |}.

Definition running {D} (x : st D) : bool :=
  match stat x with Running => true | _ => false end.

(* printing of integers (values of the histories are small integers, so the
   number→text oracle is not involved) *)
Definition z_str (z : Z) : str :=
  s_ (NilZero.string_of_int (Z.to_int z)).

Definition show_pairs (l : list (str * Z)) : str :=
  let items := map (fun kv => fst kv ++ s_ ":" ++ z_str (snd kv)) l in
  s_ "{" ++ (fix join (xs : list str) : str :=
               match xs with [] => [] | [x] => x | x :: t => x ++ s_ " " ++ join t end) items
     ++ s_ "}".

Definition key_of (cur : option str) (k : kref) : str :=
  match k with KLit s => s | KVar => match cur with Some s => s | None => [] end end.

(* mapRange.next over the snapshot [ks] taken by newRange: a key is visited
   iff it is (still, or again) present when its turn comes *)
Definition loop_step {D} (I : dict Z D) (bodyf : str -> st D -> st D) (y : st D) (k : str) : st D :=
  if negb (running y) then y
  else if d_has I k (dmap y) then bodyf k (emit k y) else y.
Definition loop_fold {D} (I : dict Z D) (bodyf : str -> st D -> st D) (ks : list str) (x : st D) : st D :=
  fold_left (loop_step I bodyf) ks x.

Section Interp.
  Context {D : Type} (I : dict Z D).

  Fixpoint run_op (o : op) (cur : option str) (x : st D) {struct o} : st D :=
    if negb (running x) then x else
    match o with
    | OSet k v => with_map (d_set I (key_of cur k) v (dmap x)) x
    | ODel k => with_map (d_del I (key_of cur k) (dmap x)) x
    | OGet k => match d_get I (key_of cur k) (dmap x) with
                | Some v => emit (z_str v) x
                | None => fail PanicMapKey x
                end
    | OHas k => emit (s_ (if d_has I (key_of cur k) (dmap x) then "true" else "false")) x
    | OLen => emit (z_str (Z.of_nat (d_len I (dmap x)))) x
    | OPrint => match d_list I (dmap x) with
                | Some l => emit (show_pairs l) x
                | None => fail HostCrash x
                end
    | OEqLit l => emit (s_ (if d_eq I (dmap x) (d_lit I l) then "true" else "false")) x
    | OReset l => with_map (d_lit I l) x
    | OLoop body =>
        let run_body := fix go (l : list op) (c : option str) (y : st D) : st D :=
                          match l with [] => y | o' :: t => go t c (run_op o' c y) end in
        loop_fold I (fun k y => run_body body (Some k) y) (d_keys I (dmap x)) x
    end.

  Fixpoint run_ops (l : list op) (cur : option str) (x : st D) : st D :=
    match l with [] => x | o :: t => run_ops t cur (run_op o cur x) end.

  Definition run_history (lit : list (str * Z)) (l : list op) : st D :=
    run_ops l None {| dmap := d_lit I lit; outs := []; stat := Running |}.
End Interp.

(* ---------- wire format ---------- *)
Definition dec_kref (x : sx) : option kref :=
  match x with
  | Str s => Some (KLit s)
  | Sym _ => Some KVar
  | _ => None
  end.

Fixpoint dec_pairs (l : list sx) : option (list (str * Z)) :=
  match l with
  | [] => Some []
  | Lst [Str k; Int v] :: t => option_map (cons (k, v)) (dec_pairs t)
  | _ => None
  end.

Fixpoint dec_op (x : sx) : option op :=
  match x with
  | Lst [Sym t; a; Int v] => if str_eqb t (s_ "set") then option_map (fun k => OSet k v) (dec_kref a) else None
  | Lst [Sym t; Lst l] =>
      if str_eqb t (s_ "eq") then option_map OEqLit (dec_pairs l)
      else if str_eqb t (s_ "reset") then option_map OReset (dec_pairs l)
      else if str_eqb t (s_ "loop") then
        option_map OLoop ((fix go (l : list sx) : option (list op) :=
                             match l with
                             | [] => Some []
                             | y :: t => match dec_op y, go t with
                                         | Some o, Some r => Some (o :: r)
                                         | _, _ => None end
                             end) l)
      else None
  | Lst [Sym t; a] =>
      if str_eqb t (s_ "del") then option_map ODel (dec_kref a)
      else if str_eqb t (s_ "get") then option_map OGet (dec_kref a)
      else if str_eqb t (s_ "has") then option_map OHas (dec_kref a)
      else None
  | Lst [Sym t] =>
      if str_eqb t (s_ "len") then Some OLen
      else if str_eqb t (s_ "print") then Some OPrint else None
  | _ => None
  end.

Fixpoint dec_ops (l : list sx) : option (list op) :=
  match l with
  | [] => Some []
  | y :: t => match dec_op y, dec_ops t with Some o, Some r => Some (o :: r) | _, _ => None end
  end.

Definition enc_status (s : status) : sx :=
  Sym (s_ match s with Running => "ok" | PanicMapKey => "mapkey" | HostCrash => "hostcrash" end).

(* entry point used by the driver: (case (lit…) (ops…)) ↦ (result status out…) *)
Definition omap_case (x : sx) : sx :=
  match x with
  | Lst [Lst lit; Lst ops] =>
      match dec_pairs lit, dec_ops ops with
      | Some lit, Some ops =>
          let r := run_history omap_dict lit ops in
          Lst (enc_status (stat r) :: map Str (outs r))
      | _, _ => Sym (s_ "decode-error")
      end
  | _ => Sym (s_ "decode-error")
  end.
