(* BytecodeProofs.v — soundness of the well-formedness checker, facts about
   decoding and about the opcode table regenerated from code.go. *)
From Coq Require Import ZArith NArith List Bool Lia ZifyBool ZifyNat ZifyN FMapPositive.
From EvyV Require Import Base Bytecode.
Require Import EvyV.Gen.Opcodes.
Import ListNotations.
Open Scope N_scope.

(* ---------- height maps ---------- *)
Lemma hkey_inj a b : hkey a = hkey b -> a = b.
Proof.
  unfold hkey. intro H. apply N.succ_inj. rewrite <- !N.succ_pos_spec. congruence.
Qed.

Lemma hbuild_find_gen (l : list (N * option ast)) : forall m0 pc v,
  PositiveMap.find (hkey pc) (fold_left (fun m kv => PositiveMap.add (hkey (fst kv)) (snd kv) m) l m0) = Some v ->
  In (pc, v) l \/ PositiveMap.find (hkey pc) m0 = Some v.
Proof.
  induction l as [|[k x] t IH]; intros m0 pc v H; simpl in *; [right; exact H|].
  apply IH in H. destruct H as [H|H]; [left; right; exact H|].
  destruct (N.eq_dec k pc) as [->|NE].
  - rewrite PositiveMap.gss in H. inversion H; subst. left; left; reflexivity.
  - rewrite PositiveMap.gso in H; [right; exact H|]. intro E. apply hkey_inj in E. congruence.
Qed.

Lemma hbuild_find l pc v : hfind pc (hbuild l) = Some v -> In (pc, v) l.
Proof.
  unfold hfind, hbuild. intro H. apply hbuild_find_gen in H. destruct H as [H|H]; [exact H|].
  rewrite PositiveMap.gempty in H. discriminate.
Qed.

Lemma ast_eqb_eq a b : ast_eqb a b = true -> a = b.
Proof.
  destruct a, b; simpl; intro H; try discriminate; apply N.eqb_eq in H; congruence.
Qed.

Lemma in_combine_exists {A B} (l : list A) : forall (l' : list B) x,
  List.length l = List.length l' -> In x l -> exists y, In (x, y) (combine l l').
Proof.
  induction l as [|a t IH]; intros l' x HL HI; [destruct HI|].
  destruct l' as [|b t']; [discriminate|]. simpl in *. destruct HI as [->|HI].
  - exists b. left; reflexivity.
  - destruct (IH t' x) as (y & Hy); [lia|exact HI|]. exists y. right; exact Hy.
Qed.

(* ---------- wf_check is sound ---------- *)
Lemma verify_sound bc instrs anns :
  decode_all (bcode bc) = Some instrs -> verify bc instrs anns = true -> WF bc.
Proof.
  intros HD HV. unfold verify in HV. cbv zeta in HV.
  set (z := combine instrs anns) in *.
  set (m := hbuild (map (fun x => (fst (fst x), snd x)) z)) in *.
  apply andb_true_iff in HV. destruct HV as [HV HE].
  apply andb_true_iff in HV. destruct HV as [HL HF].
  apply Nat.eqb_eq in HL. rewrite forallb_forall in HF.
  assert (FIND : forall pc v, hfind pc m = Some v -> exists i, In ((pc, i), v) z).
  { intros pc v H. apply hbuild_find in H. apply in_map_iff in H. destruct H as ([[pc' i] oa] & E & HI).
    simpl in E. inversion E; subst. exists i. exact HI. }
  exists instrs, (hfun m). split; [exact HD|]. split; [|split].
  - intros pc i HI. destruct (in_combine_exists instrs anns (pc, i) HL HI) as (oa & Hz).
    specialize (HF _ Hz). unfold instr_ok in HF.
    apply andb_true_iff in HF. destruct HF as [HF _]. apply andb_true_iff in HF. destruct HF as [HO HJ].
    split; [exact HO|]. intros t Ht. rewrite Ht in HJ. apply orb_true_iff in HJ. destruct HJ as [HJ|HJ].
    + left. apply N.eqb_eq in HJ. exact HJ.
    + right. destruct (hfind t m) as [v|] eqn:EF; [|discriminate].
      destruct (FIND _ _ EF) as (i' & Hz'). apply in_combine_l in Hz'.
      apply in_map_iff. exists (t, i'). split; [reflexivity|exact Hz'].
  - intro NE. unfold hfun. destruct instrs as [|x r]; [congruence|].
    destruct (hfind 0 m) as [[a|]|]; try discriminate. apply ast_eqb_eq in HE. congruence.
  - intros pc a H. unfold hfun in H. destruct (hfind pc m) as [[a0|]|] eqn:EF; try discriminate.
    inversion H; subst a0. destruct (FIND _ _ EF) as (i & Hz).
    specialize (HF _ Hz). unfold instr_ok in HF.
    apply andb_true_iff in HF. destruct HF as [_ HX].
    destruct (xfer (lcount bc) pc i a) as [succs|] eqn:EX; [|discriminate].
    exists i, succs. split; [apply in_combine_l in Hz; exact Hz|]. split; [exact EX|].
    intros t a' HS. rewrite forallb_forall in HX. specialize (HX _ HS). unfold succ_ok in HX. simpl in HX.
    destruct (t =? codelen bc) eqn:ET.
    + left. apply N.eqb_eq in ET. apply ast_eqb_eq in HX. split; congruence.
    + right. apply andb_true_iff in HX. destruct HX as [HLt HX]. apply N.ltb_lt in HLt. split; [exact HLt|].
      unfold hfun. destruct (hfind t m) as [[a''|]|]; try discriminate. apply ast_eqb_eq in HX. congruence.
Qed.

Theorem wf_check_sound : forall bc : bcinfo, wf_check bc = true -> WF bc.
Proof.
  intros bc H. unfold wf_check in H. destruct (decode_all (bcode bc)) as [instrs|] eqn:HD; [|discriminate].
  eapply verify_sound; eauto.
Qed.

(* ---------- the opcode table ---------- *)
Lemma opc_of_N_some b o : opc_of_N b = Some o -> b = N_of_opc o.
Proof.
  unfold opc_of_N. intro H. apply find_some in H. destruct H as [_ H]. apply N.eqb_eq in H. congruence.
Qed.

(* the constants of the const block are pairwise different, so decoding the
   number of an opcode gives that opcode back (checked against the table
   regenerated from code.go) *)
Lemma opc_of_N_of_opc o : opc_of_N (N_of_opc o) = Some o.
Proof. destruct o; vm_compute; reflexivity. Qed.

(* the definition table gives every opcode the operand width vm.go's switch
   hard-codes: none, or one 16-bit operand *)
Definition has_operand (o : opc) : bool :=
  match o with
  | Constant | GetGlobal | SetGlobal | GetLocal | SetLocal | Drop | Array | Map
  | Jump | JumpOnFalse | StepRange | IterRange => true
  | _ => false
  end.

Lemma lookup_def_opc o : lookup_def (N_of_opc o) = Some (if has_operand o then [2] else []).
Proof. destruct o; vm_compute; reflexivity. Qed.

(* ---------- decoding ---------- *)
Lemma skipn_add {A} (x : nat) : forall (y : nat) (l : list A), skipn (x + y) l = skipn y (skipn x l).
Proof.
  induction x as [|x IH]; intros y l; [reflexivity|].
  destruct l as [|a t]; simpl; [rewrite skipn_nil; reflexivity|apply IH].
Qed.

Lemma take_bytes_spec n : forall l a r, take_bytes n l = Some (a, r) -> l = a ++ r /\ List.length a = n.
Proof.
  induction n as [|n IH]; intros l a r H; simpl in H.
  - inversion H; subst. split; reflexivity.
  - destruct l as [|b t]; [discriminate|]. destruct (take_bytes n t) as [[a' r']|] eqn:E; [|discriminate].
    inversion H; subst. destruct (IH _ _ _ E) as [-> HL]. split; [reflexivity|simpl; lia].
Qed.

(* what decode1 returns for a known opcode: exactly what vm.go fetches *)
Lemma decode1_opc l i rest o :
  decode1 l = Some (i, rest) -> opc_of_N (iop i) = Some o ->
  ilen i = (if has_operand o then 3 else 1) /\
  if has_operand o
  then exists hi lo, l = iop i :: hi :: lo :: rest /\ iargs i = [hi * 256 + lo]
  else l = iop i :: rest /\ iargs i = [].
Proof.
  unfold decode1. destruct l as [|b t]; [discriminate|].
  destruct (lookup_def b) as [ws|] eqn:EL; [|discriminate].
  destruct (read_operands ws t) as [[args rest']|] eqn:ER; [|discriminate].
  intros H HO. inversion H; subst; clear H. simpl in *.
  apply opc_of_N_some in HO. subst b. rewrite lookup_def_opc in EL. inversion EL; subst ws; clear EL.
  destruct (has_operand o).
  - simpl in ER. destruct t as [|hi [|lo t']]; try discriminate. simpl in ER. inversion ER; subst.
    split; [reflexivity|]. exists hi, lo. split; reflexivity.
  - simpl in ER. inversion ER; subst. split; [reflexivity|]. split; reflexivity.
Qed.

Lemma decode1_len l i rest : decode1 l = Some (i, rest) ->
  rest = skipn (N.to_nat (ilen i)) l /\ (N.to_nat (ilen i) <= List.length l)%nat /\ 1 <= ilen i.
Proof.
  unfold decode1. destruct l as [|b t]; [discriminate|].
  destruct (lookup_def b) as [ws|]; [|discriminate].
  destruct (read_operands ws t) as [[args rest']|] eqn:ER; [|discriminate].
  intro H. injection H as Hi Hr. subst rest. assert (HI : ilen i = 1 + sumN ws) by (rewrite <- Hi; reflexivity). rewrite HI. clear Hi HI.
  assert (G : forall ws t args rest', read_operands ws t = Some (args, rest') ->
              rest' = skipn (N.to_nat (sumN ws)) t /\ (N.to_nat (sumN ws) <= List.length t)%nat).
  { clear. induction ws as [|w ws IH]; intros t args rest' H; simpl in H.
    - inversion H; subst. simpl. split; [reflexivity|lia].
    - destruct (take_bytes (N.to_nat w) t) as [[bs r]|] eqn:ET; [|discriminate].
      destruct (read_operands ws r) as [[vs r']|] eqn:ER; [|discriminate].
      inversion H; subst; clear H. apply take_bytes_spec in ET. destruct ET as [-> HL].
      destruct (IH _ _ _ ER) as [-> HL2]. simpl sumN.
      replace (N.to_nat (w + sumN ws)) with (List.length bs + N.to_nat (sumN ws))%nat by lia.
      rewrite skipn_add. rewrite skipn_app, skipn_all, Nat.sub_diag. simpl.
      split; [reflexivity|]. rewrite app_length. lia. }
  destruct (G _ _ _ _ ER) as [-> HL].
  replace (N.to_nat (1 + sumN ws)) with (S (N.to_nat (sumN ws))) by lia. cbn [skipn List.length].
  split; [reflexivity|]. split; lia.
Qed.

(* every instruction of the linear decode is what decode1 reads at its pc *)
Lemma decode_from_fetch code fuel : forall pc l instrs,
  decode_from fuel pc l = Some instrs -> l = skipn (N.to_nat pc) code ->
  forall pc' i, In (pc', i) instrs ->
    exists rest, decode1 (skipn (N.to_nat pc') code) = Some (i, rest) /\
                 pc' + ilen i <= N.of_nat (List.length code).
Proof.
  induction fuel as [|f IH]; intros pc l instrs H HL pc' i HI.
  - destruct l; simpl in H; [inversion H; subst; destruct HI|discriminate].
  - destruct l as [|b t]; [simpl in H; inversion H; subst; destruct HI|].
    cbn [decode_from] in H. remember (b :: t) as l eqn:El.
    destruct (decode1 l) as [[i0 rest]|] eqn:ED; [|discriminate].
    destruct (decode_from f (pc + ilen i0) rest) as [r|] eqn:EF; [|discriminate].
    inversion H; subst instrs; clear H.
    pose proof (decode1_len _ _ _ ED) as (HR & HLen & Hpos).
    assert (LenL : (List.length l = List.length code - N.to_nat pc)%nat) by (rewrite HL; apply skipn_length).
    destruct HI as [E|HI].
    + inversion E; subst pc' i0. exists rest. split; [rewrite <- HL; exact ED|]. lia.
    + apply (IH (pc + ilen i0) rest r EF); [|exact HI].
      rewrite HR, HL, <- skipn_add. f_equal. lia.
Qed.

Lemma decode_all_fetch code instrs pc i :
  decode_all code = Some instrs -> In (pc, i) instrs ->
  exists rest, decode1 (skipn (N.to_nat pc) code) = Some (i, rest) /\ pc + ilen i <= N.of_nat (List.length code).
Proof.
  intros H HI. eapply (decode_from_fetch code _ 0 code instrs H); [reflexivity|exact HI].
Qed.

(* ---------- Make and ReadOperands agree — for operands that fit 16 bits ---------- *)
Lemma put16_read z : (0 <= z < 65536)%Z ->
  exists hi lo, put16 z = [hi; lo] /\ hi * 256 + lo = Z.to_N z.
Proof.
  intro H. unfold put16. rewrite Z.mod_small by lia.
  exists (Z.to_N z / 256), (Z.to_N z mod 256). split; [reflexivity|].
  pose proof (N.div_mod (Z.to_N z) 256). lia.
Qed.

Theorem make_decode : forall (o : opc) (z : Z) (rest : list N),
  has_operand o = true -> (0 <= z < 65536)%Z ->
  exists bs, make (N_of_opc o) [z] = Some bs /\
             decode1 (bs ++ rest) = Some ({| iop := N_of_opc o; iargs := [Z.to_N z]; ilen := 3 |}, rest).
Proof.
  intros o z rest HO Hz. unfold make. rewrite lookup_def_opc, HO. cbn [make_operands option_map].
  change (2 =? 2) with true. assert (HF : fits16 z = true) by (unfold fits16; lia). rewrite HF. cbn [andb negb]. cbv iota.
  destruct (put16_read z Hz) as (hi & lo & -> & E).
  eexists. split; [reflexivity|]. cbn [app]. unfold decode1. rewrite lookup_def_opc, HO.
  cbn [read_operands]. change (N.to_nat 2) with 2%nat. cbn [take_bytes]. change (2 =? 2) with true. cbv iota.
  rewrite E. reflexivity.
Qed.

Theorem make_decode_noarg : forall (o : opc) (rest : list N),
  has_operand o = false ->
  make (N_of_opc o) [] = Some [N_of_opc o] /\
  decode1 (N_of_opc o :: rest) = Some ({| iop := N_of_opc o; iargs := []; ilen := 1 |}, rest).
Proof.
  intros o rest HO. unfold make, decode1. rewrite lookup_def_opc, HO. split; reflexivity.
Qed.

(* Make rejects an operand that does not fit 16 bits (code.go after e351c68) *)
Theorem make_rejects_out_of_range : forall (o : opc) (z : Z),
  has_operand o = true -> (z < 0 \/ 65535 < z)%Z -> make (N_of_opc o) [z] = None.
Proof.
  intros o z HO Hz. unfold make. rewrite lookup_def_opc, HO. cbn [make_operands].
  change (2 =? 2) with true. assert (HF : fits16 z = false) by (unfold fits16; lia). rewrite HF. reflexivity.
Qed.

Lemma make_some_range o z bs : has_operand o = true -> make (N_of_opc o) [z] = Some bs -> (0 <= z < 65536)%Z.
Proof.
  intros HO H. destruct (Z_lt_dec z 0) as [L|L]; [rewrite make_rejects_out_of_range in H by auto; discriminate|].
  destruct (Z_lt_dec 65535 z) as [G|G]; [rewrite make_rejects_out_of_range in H by auto; discriminate|]. lia.
Qed.
