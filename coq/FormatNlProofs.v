(* FormatNlProofs.v — C07, part 2: nlAfter / newAccumulations on the
   statement-kind skeleton, through a run-length view of the skeleton. *)
From Coq Require Import ZArith NArith List Bool Lia Arith.
From EvyV Require Import Base FmtAst Format.
Import ListNotations.
Local Open Scope nat_scope.

(* a run (k, m): the kind k repeated m+1 times *)
Notation run := (skind * nat)%type (only parsing).

Definition expand1 (r : run) : list skind := repeat (fst r) (S (snd r)).
Definition expand (rs : list run) : list skind := flat_map expand1 rs.

Definition is_func (k : skind) : bool := skind_eqb k KFunc.

Lemma skind_eqb_eq a b : skind_eqb a b = true <-> a = b.
Proof. destruct a, b; simpl; split; intro H; try reflexivity; try discriminate. Qed.

Lemma skind_eqb_refl a : skind_eqb a a = true.
Proof. destruct a; reflexivity. Qed.

(* canonical run lists: func runs have length 1; adjacent runs differ in kind unless the first is a func *)
Fixpoint canon (rs : list run) : bool :=
  match rs with
  | [] => true
  | (k1, m1) :: t =>
      (if is_func k1 then Nat.eqb m1 0 else true)
      && match t with
         | (k2, _) :: _ => negb (skind_eqb k1 k2) || is_func k1
         | [] => true
         end
      && canon t
  end.

(* run-length encoding, mirroring newAccumulations' grouping *)
Fixpoint rle (ks : list skind) : list run :=
  match ks with
  | [] => []
  | k :: t =>
      match rle t with
      | (k', m) :: r => if skind_eqb k k' && negb (is_func k) then (k, S m) :: r else (k, 0) :: (k', m) :: r
      | [] => [(k, 0)]
      end
  end.

Lemma expand_rle ks : expand (rle ks) = ks.
Proof.
  induction ks as [|k t IH]; [reflexivity|]. cbn [rle].
  destruct (rle t) as [|[k' m] r] eqn:E.
  - simpl in IH. subst t. reflexivity.
  - destruct (skind_eqb k k' && negb (is_func k)) eqn:C.
    + apply andb_true_iff in C as [C _]. apply skind_eqb_eq in C. subst k'.
      rewrite <- IH. reflexivity.
    + rewrite <- IH. reflexivity.
Qed.

Lemma canon_rle ks : canon (rle ks) = true.
Proof.
  induction ks as [|k t IH]; [reflexivity|]. cbn [rle].
  destruct (rle t) as [|[k' m] r] eqn:E.
  - simpl. destruct (is_func k); reflexivity.
  - destruct (skind_eqb k k' && negb (is_func k)) eqn:C.
    + apply andb_true_iff in C as [C1 C2]. apply skind_eqb_eq in C1. subst k'. apply negb_true_iff in C2.
      cbn [canon] in IH |- *. rewrite C2 in *. exact IH.
    + cbn [canon] in IH |- *. rewrite IH.
      destruct (is_func k) eqn:F; simpl.
      * rewrite orb_true_r. reflexivity.
      * simpl in C. rewrite andb_true_r in C. rewrite C. reflexivity.
Qed.

(* start offsets of the runs *)
Fixpoint offsets (i : nat) (rs : list run) : list (skind * nat) :=
  match rs with
  | [] => []
  | (k, m) :: t => (k, i) :: offsets (i + S m) t
  end.

(* the rest of a run after its first element does not open a new accumulation *)
Lemma nal_same k : is_func k = false -> forall m i rest,
  new_accumulations_loop (Some k) i (repeat k m ++ rest) = new_accumulations_loop (Some k) (i + m) rest.
Proof.
  intros Hf. induction m as [|m IH]; intros i rest; simpl.
  - rewrite Nat.add_0_r. reflexivity.
  - rewrite skind_eqb_refl. unfold is_func in Hf. rewrite Hf. simpl. rewrite IH. f_equal. lia.
Qed.

Definition head_differs (last : option skind) (rs : list run) : Prop :=
  match last, rs with
  | Some l, (k, _) :: _ => skind_eqb k l = false \/ is_func k = true
  | _, _ => True
  end.

Lemma nal_runs rs : forall last i, canon rs = true -> head_differs last rs ->
  new_accumulations_loop last i (expand rs) = offsets i rs.
Proof.
  induction rs as [|[k m] t IH]; intros last i Hc Hd; [reflexivity|].
  cbn [canon] in Hc. apply andb_true_iff in Hc as [Hc Hct]. apply andb_true_iff in Hc as [Hm Hadj].
  unfold expand. cbn [flat_map]. unfold expand1 at 1. cbn [fst snd repeat app]. cbn [new_accumulations_loop].
  assert (Hopen : negb (match last with Some l => skind_eqb k l | None => false end) || skind_eqb k KFunc = true).
  { destruct last as [l|]; [|reflexivity]. cbn [head_differs] in Hd. destruct Hd as [Hd|Hd].
    - rewrite Hd. reflexivity.
    - unfold is_func in Hd. rewrite Hd. apply orb_true_r. }
  rewrite Hopen. cbn [offsets]. f_equal.
  assert (Hrest : head_differs (Some k) t).
  { destruct t as [|[k2 m2] t']; [exact I|]. cbn [head_differs].
    apply orb_true_iff in Hadj as [Hx|Hx].
    - left. apply negb_true_iff in Hx. destruct k, k2; simpl in *; congruence.
    - destruct (skind_eqb k2 k) eqn:E; [|left; reflexivity]. apply skind_eqb_eq in E. subst k2. right. exact Hx. }
  destruct (is_func k) eqn:F.
  - apply Nat.eqb_eq in Hm. subst m. cbn [repeat app]. fold (expand t). rewrite (IH (Some k) (S i) Hct Hrest).
    f_equal. lia.
  - fold (expand t). rewrite nal_same by exact F. rewrite (IH (Some k) (S i + m) Hct Hrest). f_equal. lia.
Qed.

Lemma new_accumulations_runs rs : canon rs = true -> new_accumulations (expand rs) = offsets 0 rs.
Proof. intro H. apply nal_runs; [exact H | exact I]. Qed.

(* the marking rule on three consecutive run kinds *)
Definition marked (k1 : skind) (k2 : option skind) (k3 : option skind) : bool :=
  match k1 with
  | KEmpty | KComment => false
  | _ =>
      match k2 with
      | None => false
      | Some k2 =>
          (is_func k1 && skind_eqb k2 KStmt) || is_func k2
          || (skind_eqb k2 KComment && match k3 with Some k3 => is_func k3 | None => false end)
      end
  end.

Definition kind_of (rs : list run) : option skind := match rs with (k, _) :: _ => Some k | [] => None end.

(* nlAfter over runs: which index each marked run contributes *)
Fixpoint marks (fixed : bool) (i : nat) (rs : list run) : list nat :=
  match rs with
  | [] => []
  | (k1, m1) :: t =>
      (if marked k1 (kind_of t) (kind_of (tl t)) then
         [match t with
          | (k2, _) :: _ =>
              if (is_func k1 && skind_eqb k2 KStmt) || is_func k2 then (i + m1)%nat
              else if fixed then (i + m1)%nat else i
          | [] => i
          end]
       else [])
      ++ marks fixed (i + S m1) t
  end.

Lemma nal_step fixed a b rest' :
  nl_after_loop fixed (a :: b :: rest') =
  (match fst a with
   | KEmpty | KComment => []
   | _ =>
       if skind_eqb (fst a) KFunc && skind_eqb (fst b) KStmt then [snd a]
       else if skind_eqb (fst b) KFunc then [(snd b - 1)%nat]
       else if skind_eqb (fst b) KComment
               && match rest' with c :: _ => skind_eqb (fst c) KFunc | [] => false end
            then [if fixed then (snd b - 1)%nat else snd a]
       else []
   end) ++ nl_after_loop fixed (b :: rest').
Proof. reflexivity. Qed.

Lemma nl_after_loop_runs fixed rs : forall i, canon rs = true ->
  nl_after_loop fixed (offsets i rs) = marks fixed i rs.
Proof.
  induction rs as [|[k1 m1] t IH]; intros i Hc; [reflexivity|].
  cbn [canon] in Hc. apply andb_true_iff in Hc as [Hc Hct]. apply andb_true_iff in Hc as [Hm Hadj].
  destruct t as [|[k2 m2] t'].
  - cbn [offsets nl_after_loop marks kind_of marked]. destruct k1; reflexivity.
  - change (offsets i ((k1, m1) :: (k2, m2) :: t')) with ((k1, i) :: (k2, i + S m1) :: offsets (i + S m1 + S m2) t').
    rewrite nal_step.
    change ((k2, i + S m1) :: offsets (i + S m1 + S m2) t') with (offsets (i + S m1) ((k2, m2) :: t')).
    rewrite IH by exact Hct.
    cbn [marks kind_of tl fst snd]. f_equal.
    assert (Hsub : (i + S m1 - 1 = i + m1)%nat) by lia. rewrite Hsub.
    destruct k1; cbn [marked is_func skind_eqb andb orb]; try reflexivity.
    + (* KStmt *)
      destruct k2; cbn [skind_eqb is_func andb orb]; try reflexivity.
      destruct t' as [|[k3 m3] t'']; cbn [offsets kind_of fst]; [reflexivity|]. destruct k3; reflexivity.
    + (* KFunc: m1 = 0 *)
      cbn [is_func skind_eqb] in Hm. apply Nat.eqb_eq in Hm. subst m1. rewrite Nat.add_0_r.
      destruct k2; cbn [skind_eqb is_func andb orb]; try reflexivity.
      destruct t' as [|[k3 m3] t'']; cbn [offsets kind_of fst]; [reflexivity|]. destruct k3; destruct fixed; reflexivity.
Qed.

Lemma nl_after_runs fixed rs : canon rs = true -> nl_after fixed (expand rs) = marks fixed 0 rs.
Proof. intro H. unfold nl_after. rewrite new_accumulations_runs by exact H. apply nl_after_loop_runs, H. Qed.

(* ---------- a marked statement is always followed by a non-blank statement ---------- *)
Lemma mem_nat_In n l : mem_nat n l = true <-> In n l.
Proof.
  induction l as [|x t IH]; simpl; [split; [discriminate | tauto]|].
  rewrite orb_true_iff, IH, Nat.eqb_eq. tauto.
Qed.

Lemma expand_cons k m t : expand ((k, m) :: t) = repeat k (S m) ++ expand t.
Proof. reflexivity. Qed.

Lemma expand_head k m t : exists r, expand ((k, m) :: t) = k :: r.
Proof. exists (repeat k m ++ expand t). reflexivity. Qed.

Lemma marked_k2 k1 k2 k3 : marked k1 (Some k2) k3 = true -> k2 <> KEmpty /\ k1 <> KEmpty /\ k1 <> KComment.
Proof. destruct k1, k2; simpl; try discriminate; intros _; repeat split; discriminate. Qed.

Lemma marks_next_nonblank fixed rs : forall i j, canon rs = true -> In j (marks fixed i rs) ->
  i <= j /\ exists k, nth_error (expand rs) (S j - i) = Some k /\ k <> KEmpty.
Proof.
  induction rs as [|[k1 m1] t IH]; intros i j Hc Hin; [contradiction|].
  cbn [canon] in Hc. apply andb_true_iff in Hc as [Hc Hct].
  cbn [marks] in Hin. apply in_app_or in Hin as [Hin|Hin].
  - destruct (marked k1 (kind_of t) (kind_of (tl t))) eqn:Em; [|contradiction].
    destruct t as [|[k2 m2] t']; [destruct k1; discriminate|].
    cbn [kind_of] in Em. destruct (marked_k2 _ _ _ Em) as (Hk2 & Hk1 & Hk1c).
    destruct Hin as [Hj|[]].
    assert (Hlast : forall jj, jj = i + m1 -> i <= jj /\ exists k, nth_error (expand ((k1, m1) :: (k2, m2) :: t')) (S jj - i) = Some k /\ k <> KEmpty).
    { intros jj ->. split; [lia|]. exists k2. split; [|exact Hk2].
      rewrite expand_cons. rewrite nth_error_app2 by (rewrite repeat_length; lia).
      rewrite repeat_length. replace (S (i + m1) - i - S m1) with 0 by lia.
      destruct (expand_head k2 m2 t') as (r & ->). reflexivity. }
    destruct ((is_func k1 && skind_eqb k2 KStmt) || is_func k2); [apply Hlast; auto|].
    destruct fixed; [apply Hlast; auto|]. subst j.
    destruct m1 as [|m1']; [apply Hlast; lia|].
    split; [lia|]. exists k1. split; [|exact Hk1].
    replace (S i - i) with 1 by lia. reflexivity.
  - destruct (IH (i + S m1) j Hct Hin) as (Hle & k & Hk & Hne).
    split; [lia|]. exists k. split; [|exact Hne].
    rewrite expand_cons. rewrite nth_error_app2 by (rewrite repeat_length; lia).
    rewrite repeat_length. replace (S j - i - S m1) with (S j - (i + S m1)) by lia. exact Hk.
Qed.

Theorem nl_after_next_nonblank fixed ks i :
  mem_nat i (nl_after fixed ks) = true ->
  exists k, nth_error ks (S i) = Some k /\ k <> KEmpty.
Proof.
  intro H. apply mem_nat_In in H.
  rewrite <- (expand_rle ks) in H. rewrite nl_after_runs in H by apply canon_rle.
  destruct (marks_next_nonblank fixed (rle ks) 0 i (canon_rle ks) H) as (_ & k & Hk & Hne).
  rewrite expand_rle, Nat.sub_0_r in Hk. exists k. auto.
Qed.

(* ====================================================================== *)
(* one formatting pass on the skeleton, in terms of runs (repaired nlAfter) *)
(* ====================================================================== *)
Definition is_emptyk (k : skind) : bool := skind_eqb k KEmpty.

Fixpoint step_runs (rs : list run) : list run :=
  match rs with
  | [] => []
  | (k1, m1) :: t =>
      (if is_emptyk k1 then [(KEmpty, 0)]
       else (k1, m1) :: (if marked k1 (kind_of t) (kind_of (tl t)) then [(KEmpty, 0)] else []))
      ++ step_runs t
  end.

Lemma repeat_snoc {A} (x : A) n : repeat x n ++ [x] = x :: repeat x n.
Proof. induction n; simpl; [reflexivity|]. rewrite IHn. reflexivity. Qed.

Section Skel.
  Variable nl : list nat.

  Lemma skip_unmarked k : is_emptyk k = false -> forall m i e rest,
    (forall j, i <= j < i + m -> mem_nat j nl = false) ->
    skel_step_loop nl i e (repeat k m ++ rest)
    = repeat k m ++ skel_step_loop nl (i + m) (if Nat.eqb m 0 then e else false) rest.
  Proof.
    intros Hk. induction m as [|m IH]; intros i e rest Hnl.
    - simpl. rewrite Nat.add_0_r. reflexivity.
    - cbn [repeat app skel_step_loop]. unfold is_emptyk in Hk. rewrite Hk.
      rewrite (Hnl i) by lia. cbn [app]. f_equal.
      rewrite IH by (intros j Hj; apply Hnl; lia).
      replace (S i + m) with (i + S m) by lia.
      destruct m; reflexivity.
  Qed.

  Lemma skip_empty : forall m i rest,
    skel_step_loop nl i true (repeat KEmpty m ++ rest) = skel_step_loop nl (i + m) true rest.
  Proof.
    induction m as [|m IH]; intros i rest; simpl.
    - rewrite Nat.add_0_r. reflexivity.
    - rewrite IH. f_equal. lia.
  Qed.
End Skel.

Lemma marks_lower fixed rs : forall i j, canon rs = true -> In j (marks fixed i rs) -> i <= j.
Proof. intros i j Hc Hin. apply (marks_next_nonblank fixed rs i j Hc Hin). Qed.

Lemma skel_step_loop_runs nl rs : forall i e,
  canon rs = true ->
  (e = true -> kind_of rs <> Some KEmpty) ->
  (forall j, i <= j -> mem_nat j nl = mem_nat j (marks true i rs)) ->
  skel_step_loop nl i e (expand rs) = expand (step_runs rs).
Proof.
  induction rs as [|[k1 m1] t IH]; intros i e Hc He Hnl; [reflexivity|].
  assert (Hc' := Hc). cbn [canon] in Hc'. apply andb_true_iff in Hc' as [Hc1 Hct]. apply andb_true_iff in Hc1 as [Hm Hadj].
  rewrite expand_cons. cbn [step_runs].
  assert (Hnl_t : forall j, i + S m1 <= j -> mem_nat j nl = mem_nat j (marks true (i + S m1) t)).
  { intros j Hj. rewrite Hnl by lia. cbn [marks].
    destruct (mem_nat j (marks true (i + S m1) t)) eqn:E.
    - apply mem_nat_In. apply in_or_app. right. apply mem_nat_In. exact E.
    - destruct (mem_nat j (_ ++ marks true (i + S m1) t)) eqn:E2; [|reflexivity].
      apply mem_nat_In in E2. apply in_app_or in E2 as [E2|E2].
      + destruct (marked k1 (kind_of t) (kind_of (tl t))); [|contradiction].
        destruct t as [|[k2 m2] t']; destruct E2 as [E2|[]]; try lia.
        destruct ((is_func k1 && skind_eqb k2 KStmt) || is_func k2); lia.
      + apply mem_nat_In in E2. congruence. }
  destruct (is_emptyk k1) eqn:Ek.
  - (* a run of blank lines: squeezed to one *)
    unfold is_emptyk in Ek. apply skind_eqb_eq in Ek. subst k1.
    assert (e = false) by (destruct e; [exfalso; apply (He eq_refl); reflexivity | reflexivity]). subst e.
    cbn [repeat app skel_step_loop skind_eqb]. cbn [app]. rewrite skip_empty.
    cbn [app]. rewrite (expand_cons KEmpty 0 (step_runs t)). cbn [repeat app]. f_equal.
    replace (S i + m1) with (i + S m1) by lia.
    apply IH; auto.
    intros _. destruct t as [|[k2 m2] t']; [discriminate|]. cbn [kind_of]. intro Hx. injection Hx as ->.
    cbn [is_func skind_eqb orb negb] in Hadj. discriminate.
  - (* a run of statements / comments / one func *)
    change (repeat k1 (S m1)) with (k1 :: repeat k1 m1). rewrite <- repeat_snoc. rewrite <- app_assoc. rewrite skip_unmarked; [|exact Ek|].
    2:{ intros j Hj. rewrite Hnl by lia. destruct (mem_nat j (marks true i ((k1, m1) :: t))) eqn:E; [|first [reflexivity | exact E]].
        exfalso. apply mem_nat_In in E. cbn [marks] in E. apply in_app_or in E as [E|E].
        - destruct (marked k1 (kind_of t) (kind_of (tl t))) eqn:Em; [|contradiction].
          destruct t as [|[k2 m2] t']; [destruct k1; discriminate Em|]. destruct E as [E|[]].
          destruct ((is_func k1 && skind_eqb k2 KStmt) || is_func k2); lia.
        - apply marks_lower in E; [lia | exact Hct]. }
    cbn [app skel_step_loop]. unfold is_emptyk in Ek. rewrite Ek.
    assert (Hlast : mem_nat (i + m1) nl = marked k1 (kind_of t) (kind_of (tl t))).
    { rewrite Hnl by lia. cbn [marks].
      destruct (marked k1 (kind_of t) (kind_of (tl t))) eqn:Em.
      - apply mem_nat_In. apply in_or_app. left.
        destruct t as [|[k2 m2] t']; [destruct k1; discriminate|].
        destruct ((is_func k1 && skind_eqb k2 KStmt) || is_func k2); left; reflexivity.
      - cbn [app]. destruct (mem_nat (i + m1) (marks true (i + S m1) t)) eqn:E; [|reflexivity].
        apply mem_nat_In in E. apply marks_lower in E; [lia | exact Hct]. }
    rewrite Hlast.
    replace (S (i + m1)) with (i + S m1) by lia.
    rewrite (IH (i + S m1) false Hct) by (auto; intro; discriminate).
    cbn [app]. rewrite (expand_cons k1 m1). change (repeat k1 (S m1)) with (k1 :: repeat k1 m1).
    rewrite <- repeat_snoc. rewrite <- !app_assoc. f_equal. cbn [app]. f_equal.
    unfold expand. rewrite flat_map_app. f_equal.
    destruct (marked k1 (kind_of t) (kind_of (tl t))); reflexivity.
Qed.

Lemma expand_nonempty rs : rs <> [] -> expand rs <> [].
Proof. destruct rs as [|[k m] t]; [contradiction|]. intros _. rewrite expand_cons. discriminate. Qed.

Lemma skel_step_runs rs : rs <> [] -> canon rs = true -> skel_step true (expand rs) = expand (step_runs rs).
Proof.
  intros Hne Hc. unfold skel_step. destruct (expand rs) eqn:E; [exfalso; apply (expand_nonempty rs Hne E)|].
  rewrite <- E. apply skel_step_loop_runs; auto; try (intro; discriminate).
  intros j _. rewrite nl_after_runs by exact Hc. reflexivity.
Qed.

(* ---------- after one pass nothing is marked any more ---------- *)
Fixpoint unmarked (rs : list run) : bool :=
  match rs with
  | [] => true
  | (k1, _) :: t => negb (marked k1 (kind_of t) (kind_of (tl t))) && unmarked t
  end.

Fixpoint enorm (rs : list run) : bool :=
  match rs with
  | [] => true
  | (k1, m1) :: t => (if is_emptyk k1 then Nat.eqb m1 0 else true) && enorm t
  end.

Lemma step_runs_fix rs : unmarked rs = true -> enorm rs = true -> step_runs rs = rs.
Proof.
  induction rs as [|[k1 m1] t IH]; [reflexivity|]. cbn [unmarked enorm step_runs].
  intros Hu He. apply andb_true_iff in Hu as [Hu Hut]. apply andb_true_iff in He as [He Het].
  apply negb_true_iff in Hu. rewrite Hu, (IH Hut Het).
  destruct (is_emptyk k1) eqn:Ek; [|reflexivity].
  apply Nat.eqb_eq in He. subst m1. unfold is_emptyk in Ek. apply skind_eqb_eq in Ek. subst k1. reflexivity.
Qed.

Lemma kind_of_step rs : kind_of (step_runs rs) = kind_of rs.
Proof.
  destruct rs as [|[k1 m1] t]; [reflexivity|]. cbn [step_runs].
  destruct (is_emptyk k1) eqn:Ek; [|reflexivity].
  unfold is_emptyk in Ek. apply skind_eqb_eq in Ek. subst. reflexivity.
Qed.

Lemma marked_empty_next k1 k3 : marked k1 (Some KEmpty) k3 = false.
Proof. destruct k1; reflexivity. Qed.

Lemma marked_empty k2 k3 : marked KEmpty k2 k3 = false.
Proof. reflexivity. Qed.

(* the kind two runs ahead matters only behind a comment run, and comment runs are never marked *)
Lemma marked_k3_irrelevant k1 k2 k3 k3' : k2 <> KComment -> marked k1 (Some k2) k3 = marked k1 (Some k2) k3'.
Proof. intro H. destruct k1, k2; try reflexivity; contradiction. Qed.

Lemma second_kind_step k2 m2 t' :
  kind_of (tl (step_runs ((k2, m2) :: t'))) =
  if negb (is_emptyk k2) && marked k2 (kind_of t') (kind_of (tl t')) then Some KEmpty else kind_of t'.
Proof.
  cbn [step_runs]. destruct (is_emptyk k2) eqn:Ek; cbn [negb andb app tl].
  - apply kind_of_step.
  - remember (marked k2 (kind_of t') (kind_of (tl t'))) as mk eqn:Em.
    destruct mk; cbn [app tl kind_of]; [reflexivity | apply kind_of_step].
Qed.

Lemma step_runs_unmarked rs : unmarked (step_runs rs) = true.
Proof.
  induction rs as [|[k1 m1] t IH]; [reflexivity|]. cbn [step_runs].
  destruct (is_emptyk k1) eqn:Ek.
  - cbn [app unmarked]. rewrite marked_empty. exact IH.
  - destruct (marked k1 (kind_of t) (kind_of (tl t))) eqn:Em; cbn [app unmarked kind_of tl].
    + rewrite marked_empty_next, marked_empty. exact IH.
    + rewrite IH, andb_true_r. apply negb_true_iff. rewrite kind_of_step.
      destruct t as [|[k2 m2] t']; [destruct k1; reflexivity|].
      rewrite second_kind_step. cbn [kind_of tl] in Em |- *.
      destruct (skind_eqb k2 KComment) eqn:Ec.
      * apply skind_eqb_eq in Ec. subst k2. cbn [is_emptyk skind_eqb negb andb marked]. exact Em.
      * rewrite (marked_k3_irrelevant k1 k2 _ (kind_of t')); [exact Em|].
        intro Hx. subst k2. discriminate.
Qed.

Lemma step_runs_enorm rs : enorm (step_runs rs) = true.
Proof.
  induction rs as [|[k1 m1] t IH]; [reflexivity|]. cbn [step_runs].
  destruct (is_emptyk k1) eqn:Ek; cbn [app enorm].
  - exact IH.
  - rewrite Ek. destruct (marked k1 (kind_of t) (kind_of (tl t))); cbn [app enorm]; exact IH.
Qed.

Lemma step_runs_idem rs : step_runs (step_runs rs) = step_runs rs.
Proof. apply step_runs_fix; [apply step_runs_unmarked | apply step_runs_enorm]. Qed.

Lemma marked_next_nonempty k1 k2 k3 : marked k1 (Some k2) k3 = true -> is_emptyk k2 = false /\ is_emptyk k1 = false.
Proof. destruct k1, k2; simpl; try discriminate; auto. Qed.

Lemma step_runs_canon rs : canon rs = true -> canon (step_runs rs) = true.
Proof.
  induction rs as [|[k1 m1] t IH]; [reflexivity|]. intro Hc.
  cbn [canon] in Hc. apply andb_true_iff in Hc as [Hc Hct]. apply andb_true_iff in Hc as [Hm Hadj].
  specialize (IH Hct). cbn [step_runs].
  destruct (is_emptyk k1) eqn:Ek.
  - unfold is_emptyk in Ek. apply skind_eqb_eq in Ek. subst k1. cbn [app canon is_func skind_eqb].
    rewrite IH. cbn [andb]. rewrite andb_true_r.
    destruct (step_runs t) as [|[k2' m2'] r] eqn:E; [reflexivity|].
    pose proof (kind_of_step t) as Hk. rewrite E in Hk. cbn [kind_of] in Hk.
    destruct t as [|[k2 m2] t']; [discriminate|]. cbn [kind_of] in Hk. injection Hk as ->.
    cbn [is_func skind_eqb orb] in Hadj. rewrite orb_false_r in Hadj |- *. exact Hadj.
  - destruct (marked k1 (kind_of t) (kind_of (tl t))) eqn:Em; cbn [app canon].
    + destruct t as [|[k2 m2] t']; [destruct k1; discriminate|]. cbn [kind_of] in Em.
      destruct (marked_next_nonempty _ _ _ Em) as [Hk2 _].
      rewrite Hm. cbn [andb]. unfold is_emptyk in Ek. rewrite Ek. cbn [negb orb is_func skind_eqb andb].
      rewrite IH, andb_true_r.
      pose proof (kind_of_step ((k2, m2) :: t')) as Hk. cbn [kind_of] in Hk.
      destruct (step_runs ((k2, m2) :: t')) as [|[k2' m2'] r]; [discriminate Hk|]. cbn [kind_of] in Hk. injection Hk as ->.
      unfold is_emptyk in Hk2. destruct k2; try discriminate; reflexivity.
    + rewrite Hm, IH, andb_true_r. cbn [andb].
      pose proof (kind_of_step t) as Hk.
      destruct (step_runs t) as [|[k2' m2'] r]; [reflexivity|].
      destruct t as [|[k2 m2] t']; [discriminate|]. cbn [kind_of] in Hk. injection Hk as ->. exact Hadj.
Qed.

Lemma rle_nonempty k t : rle (k :: t) <> [].
Proof. cbn [rle]. destruct (rle t) as [|[k' m] r]; [discriminate|]. destruct (_ && _); discriminate. Qed.

Lemma step_runs_nonempty rs : rs <> [] -> step_runs rs <> [].
Proof. destruct rs as [|[k m] t]; [contradiction|]. intros _. cbn [step_runs]. destruct (is_emptyk k); discriminate. Qed.

(* C07: with the repaired nlAfter the blank-line logic is idempotent on every skeleton *)
Theorem skel_step_fixed_idempotent ks : skel_step true (skel_step true ks) = skel_step true ks.
Proof.
  destruct ks as [|k t]; [reflexivity|].
  rewrite <- (expand_rle (k :: t)).
  rewrite (skel_step_runs (rle (k :: t))) by (auto using rle_nonempty, canon_rle).
  rewrite (skel_step_runs (step_runs (rle (k :: t)))).
  - rewrite step_runs_idem. reflexivity.
  - apply step_runs_nonempty, rle_nonempty.
  - apply step_runs_canon, canon_rle.
Qed.

(* and one pass leaves no two consecutive blank lines and no marked statement *)
Theorem skel_step_fixed_stable ks : nl_after true (skel_step true ks) = [].
Proof.
  destruct ks as [|k t]; [reflexivity|].
  rewrite <- (expand_rle (k :: t)).
  rewrite (skel_step_runs (rle (k :: t))) by (auto using rle_nonempty, canon_rle).
  rewrite nl_after_runs by (apply step_runs_canon, canon_rle).
  assert (H : forall rs i, unmarked rs = true -> marks true i rs = []).
  { induction rs as [|[k1 m1] r IH]; intros i Hu; [reflexivity|]. cbn [unmarked] in Hu.
    apply andb_true_iff in Hu as [Hu Hr]. apply negb_true_iff in Hu. cbn [marks]. rewrite Hu. apply IH, Hr. }
  apply H, step_runs_unmarked.
Qed.

(* ---------- the output skeleton has no two consecutive blank lines ---------- *)
Fixpoint no_adj_empty (ks : list skind) : bool :=
  match ks with
  | [] => true
  | k :: t => negb (is_emptyk k && match t with k2 :: _ => is_emptyk k2 | [] => false end) && no_adj_empty t
  end.

Lemma no_adj_empty_runs rs : canon rs = true -> enorm rs = true -> no_adj_empty (expand rs) = true.
Proof.
  induction rs as [|[k1 m1] t IH]; intros Hc He; [reflexivity|].
  cbn [canon] in Hc. apply andb_true_iff in Hc as [Hc Hct]. apply andb_true_iff in Hc as [Hm Hadj].
  cbn [enorm] in He. apply andb_true_iff in He as [He Het]. specialize (IH Hct Het).
  rewrite expand_cons. destruct (is_emptyk k1) eqn:Ek.
  - apply Nat.eqb_eq in He. subst m1. cbn [repeat app no_adj_empty]. rewrite Ek, IH, andb_true_r. cbn [andb].
    apply negb_true_iff. destruct t as [|[k2 m2] t']; [reflexivity|]. rewrite expand_cons. cbn [repeat app].
    unfold is_emptyk in Ek. apply skind_eqb_eq in Ek. subst k1.
    cbn [is_func skind_eqb orb] in Hadj. rewrite orb_false_r in Hadj. apply negb_true_iff in Hadj.
    unfold is_emptyk. destruct k2; simpl in *; congruence.
  - clear He Hm Hadj. induction m1 as [|m IHm].
    + cbn [repeat app no_adj_empty]. rewrite Ek. cbn [andb negb]. exact IH.
    + change (repeat k1 (S (S m)) ++ expand t) with (k1 :: (repeat k1 (S m) ++ expand t)).
      cbn [no_adj_empty]. rewrite Ek. cbn [andb negb]. exact IHm.
Qed.

Theorem skel_step_no_adj_empty ks : no_adj_empty (skel_step true ks) = true.
Proof.
  destruct ks as [|k t]; [reflexivity|].
  rewrite <- (expand_rle (k :: t)).
  rewrite (skel_step_runs (rle (k :: t))) by (auto using rle_nonempty, canon_rle).
  apply no_adj_empty_runs; [apply step_runs_canon, canon_rle | apply step_runs_enorm].
Qed.

Lemma skel_step_nonempty ks : skel_step true ks <> [].
Proof.
  destruct ks as [|k t]; [discriminate|].
  rewrite <- (expand_rle (k :: t)).
  rewrite (skel_step_runs (rle (k :: t))) by (auto using rle_nonempty, canon_rle).
  apply expand_nonempty, step_runs_nonempty, rle_nonempty.
Qed.
