(* SymTabProofs.v — invariants of the symbol-table model over every history. *)
From Coq Require Import NArith List Bool Lia ZifyBool ZifyNat ZifyN.
From EvyV Require Import Base SymTab.
Import ListNotations.
Open Scope N_scope.

(* ---------- the representation invariant ---------- *)
Definition tab_ok (scp : sscope) (base : N) (t : table) : Prop :=
  base <= index t /\
  (forall n y, slookup n (store t) = Some y -> sname y = n /\ sscp y = scp /\ base <= sidx y < index t) /\
  (forall n1 n2 y1 y2, slookup n1 (store t) = Some y1 -> slookup n2 (store t) = Some y2 ->
                       sidx y1 = sidx y2 -> n1 = n2).

(* the index a table pushed on top of chain [ts] starts from *)
Definition base_of (ts : list table) : N :=
  match ts with
  | [] => 0
  | [_] => 0
  | o :: _ :: _ => index o
  end.

Fixpoint chain_ok (ts : list table) : Prop :=
  match ts with
  | [] => False
  | [g] => tab_ok GlobalScope 0 g
  | t :: tl => tab_ok LocalScope (base_of tl) t /\ chain_ok tl
  end.

Definition Inv (s : symtab) : Prop := chain_ok (cur s :: outers s).

Lemma chain_ok_cons t tl : tl <> [] -> chain_ok (t :: tl) <-> tab_ok LocalScope (base_of tl) t /\ chain_ok tl.
Proof. destruct tl; [congruence|]. simpl. tauto. Qed.

Lemma slookup_cons_same n y st : slookup n ((n, y) :: st) = Some y.
Proof. simpl. rewrite str_eqb_refl. reflexivity. Qed.

Lemma inv_new : Inv new_symtab.
Proof.
  unfold Inv; simpl. repeat split; simpl; try lia; intros; discriminate.
Qed.

Lemma tab_ok_empty scp b : tab_ok scp b {| store := []; index := b; nmax := 0 |}.
Proof. repeat split; simpl; try lia; intros; discriminate. Qed.

Lemma inv_push s : Inv s -> Inv (st_push s).
Proof.
  unfold Inv, st_push. intro H. cbn [cur outers].
  apply chain_ok_cons; [discriminate|]. split; [|exact H].
  destruct (outers s) as [|o r] eqn:E; cbn [base_of]; apply tab_ok_empty.
Qed.

Lemma inv_pop s : Inv s -> Inv (st_pop s).
Proof.
  unfold Inv, st_pop. intro H. destruct (outers s) as [|o r] eqn:E; [rewrite E; exact H|].
  cbn [cur outers]. apply chain_ok_cons in H; [|discriminate]. destruct H as [_ H].
  destruct r as [|o2 r2]; simpl in *.
  - destruct H as (A & B & C). repeat split; simpl; auto; apply B in H; tauto.
  - destruct H as [(A & B & C) D]. split; [|exact D]. repeat split; simpl; auto; apply B in H; tauto.
Qed.

Lemma tab_ok_define scp b t n :
  tab_ok scp b t -> slookup n (store t) = None ->
  tab_ok scp b {| store := (n, {| sname := n; sscp := scp; sidx := index t |}) :: store t;
                  index := index t + 1; nmax := nmax t |}.
Proof.
  intros (A & B & C) HN. split; [simpl; lia|]. split.
  - intros m y. simpl. destruct (str_eqb n m) eqn:E.
    + intro H; inversion H; subst; simpl. apply str_eqb_eq in E. repeat split; auto; lia.
    + intro H. apply B in H. simpl. intuition lia.
  - intros n1 n2 y1 y2. simpl.
    destruct (str_eqb n n1) eqn:E1; destruct (str_eqb n n2) eqn:E2; intros H1 H2 HI.
    + apply str_eqb_eq in E1, E2. congruence.
    + inversion H1; subst; simpl in HI. apply B in H2. lia.
    + inversion H2; subst; simpl in HI. apply B in H1. lia.
    + eapply C; eauto.
Qed.

Lemma inv_define n s : Inv s -> Inv (fst (st_define n s)).
Proof.
  unfold Inv, st_define. intro H.
  destruct (slookup n (store (cur s))) eqn:E; [exact H|]. cbn [fst cur outers].
  destruct (outers s) as [|o r] eqn:EO.
  - simpl in *. apply (tab_ok_define GlobalScope 0 (cur s) n H E).
  - apply chain_ok_cons in H; [|discriminate]. apply chain_ok_cons; [discriminate|].
    destruct H as [H1 H2]. split; [|exact H2].
    apply (tab_ok_define LocalScope _ (cur s) n H1 E).
Qed.

Lemma inv_step o s : Inv s -> Inv (fst (st_step o s)).
Proof.
  destruct o; simpl; intro H.
  - apply inv_push; auto.
  - apply inv_pop; auto.
  - pose proof (inv_define name s H). destruct (st_define name s); exact H0.
  - exact H.
Qed.

Lemma st_run_cons o t s :
  st_run (o :: t) s = (fst (st_run t (fst (st_step o s))), snd (st_step o s) :: snd (st_run t (fst (st_step o s)))).
Proof.
  simpl. destruct (st_step o s) as [s1 r]. simpl. destruct (st_run t s1). reflexivity.
Qed.

Lemma inv_run h : forall s, Inv s -> Inv (fst (st_run h s)).
Proof.
  induction h as [|o t IH]; intros s H; [exact H|].
  rewrite st_run_cons. simpl. apply IH. apply inv_step. exact H.
Qed.

(* ---------- no two live symbols share a slot ---------- *)
(* y is the symbol stored under name n in the table at depth d (0 = current) *)
Definition live_in (ts : list table) (d : nat) (n : str) (y : symbol) : Prop :=
  exists t, nth_error ts d = Some t /\ slookup n (store t) = Some y.
Definition live_at (d : nat) (n : str) (y : symbol) (s : symtab) : Prop :=
  live_in (cur s :: outers s) d n y.

(* every LOCAL symbol stored anywhere in ts lies below b *)
Definition all_below (b : N) (ts : list table) : Prop :=
  forall d n y, live_in ts d n y -> sscp y = LocalScope -> sidx y < b.

Lemma live_in_S t tl d n y : live_in (t :: tl) (S d) n y <-> live_in tl d n y.
Proof. unfold live_in; simpl; tauto. Qed.

Lemma live_in_0 t tl n y : live_in (t :: tl) 0 n y <-> slookup n (store t) = Some y.
Proof.
  unfold live_in; simpl. split.
  - intros (t' & E & H). inversion E; subst; auto.
  - intro H; eauto.
Qed.

Lemma live_S t tl d n y : live_in (t :: tl) (S d) n y -> live_in tl d n y.
Proof. apply live_in_S. Qed.
Lemma live_0 t tl n y : live_in (t :: tl) 0 n y -> slookup n (store t) = Some y.
Proof. apply live_in_0. Qed.

Lemma chain_below ts : chain_ok ts -> all_below (base_of ts) ts /\
  (forall d n y, live_in ts d n y -> sscp y = LocalScope -> (S d < length ts)%nat).
Proof.
  induction ts as [|t tl IH]; [simpl; tauto|].
  destruct tl as [|o r].
  - simpl. intros (A & B & C). split.
    + intros d n y H L. destruct d; [|destruct H as (? & E & _); destruct d; discriminate].
      apply live_0 in H. apply B in H. destruct H as (_ & S & _). congruence.
    + intros d n y H L. destruct d; [|destruct H as (? & E & _); destruct d; discriminate].
      apply live_0 in H. apply B in H. destruct H as (_ & S & _). congruence.
  - intro H. apply chain_ok_cons in H; [|discriminate]. destruct H as [(A & B & C) H2].
    specialize (IH H2). destruct IH as [IH1 IH2]. split.
    + intros d n y H L. cbn [base_of]. destruct d.
      * apply live_0 in H. apply B in H. lia.
      * apply live_S in H. specialize (IH1 _ _ _ H L). lia.
    + intros d n y H L. destruct d; [simpl; lia|].
      apply live_S in H. specialize (IH2 _ _ _ H L). simpl in *. lia.
Qed.

Lemma chain_no_sharing ts : chain_ok ts ->
  forall d1 d2 n1 n2 y1 y2, live_in ts d1 n1 y1 -> live_in ts d2 n2 y2 ->
    sscp y1 = sscp y2 -> sidx y1 = sidx y2 -> d1 = d2 /\ n1 = n2.
Proof.
  induction ts as [|t tl IH]; [simpl; tauto|].
  intros H d1 d2 n1 n2 y1 y2 L1 L2 ES EI.
  destruct tl as [|o r].
  - destruct d1; [|destruct L1 as (? & E & _); destruct d1; discriminate].
    destruct d2; [|destruct L2 as (? & E & _); destruct d2; discriminate].
    simpl in H. destruct H as (A & B & C). apply live_0 in L1, L2. split; eauto.
  - apply chain_ok_cons in H; [|discriminate]. destruct H as [(A & B & C) H2].
    pose proof (chain_below _ H2) as [BL _].
    destruct d1, d2.
    + apply live_0 in L1, L2. split; eauto.
    + exfalso. apply live_0 in L1. apply live_S in L2. apply B in L1.
      destruct L1 as (_ & S1 & R1). assert (sscp y2 = LocalScope) by congruence.
      specialize (BL _ _ _ L2 H). lia.
    + exfalso. apply live_0 in L2. apply live_S in L1. apply B in L2.
      destruct L2 as (_ & S2 & R2). assert (sscp y1 = LocalScope) by congruence.
      specialize (BL _ _ _ L1 H). lia.
    + apply live_S in L1, L2. destruct (IH H2 _ _ _ _ _ _ L1 L2 ES EI). split; congruence.
Qed.

Theorem symtab_no_sharing : forall (h : list sop),
  let s := fst (st_run h new_symtab) in
  forall d1 d2 n1 n2 y1 y2, live_at d1 n1 y1 s -> live_at d2 n2 y2 s ->
    sscp y1 = sscp y2 -> sidx y1 = sidx y2 -> d1 = d2 /\ n1 = n2.
Proof.
  intros h s. apply chain_no_sharing. apply (inv_run h new_symtab inv_new).
Qed.

(* ---------- Resolve finds the innermost definition ---------- *)
Lemma resolve_in_spec n ts :
  match resolve_in n ts with
  | Some y => exists d, live_in ts d n y /\ forall d' y', (d' < d)%nat -> ~ live_in ts d' n y'
  | None => forall d y, ~ live_in ts d n y
  end.
Proof.
  induction ts as [|t tl IH]; simpl.
  - intros d y (t & E & _). destruct d; discriminate.
  - destruct (slookup n (store t)) eqn:E.
    + exists 0%nat. split; [apply live_in_0; exact E|]. intros; lia.
    + destruct (resolve_in n tl) as [y|].
      * destruct IH as (d & L & M). exists (S d). split; [apply live_in_S; exact L|].
        intros d' y' Hd HL. destruct d'.
        -- apply live_0 in HL. congruence.
        -- apply live_S in HL. apply (M d' y'); [lia|exact HL].
      * intros d y HL. destruct d.
        -- apply live_0 in HL. congruence.
        -- apply live_S in HL. apply (IH d y HL).
Qed.

Theorem resolve_innermost : forall (s : symtab) (n : str),
  match st_resolve n s with
  | Some y => exists d, live_at d n y s /\ forall d' y', (d' < d)%nat -> ~ live_at d' n y' s
  | None => forall d y, ~ live_at d n y s
  end.
Proof. intros s n. apply resolve_in_spec. Qed.

Theorem define_then_resolve : forall (s : symtab) (n : str),
  st_resolve n (fst (st_define n s)) = Some (snd (st_define n s)).
Proof.
  intros s n. unfold st_define, st_resolve.
  destruct (slookup n (store (cur s))) eqn:E; cbn [fst snd cur outers resolve_in store].
  - rewrite E. reflexivity.
  - rewrite slookup_cons_same. reflexivity.
Qed.

(* ---------- a closed block leaves the enclosing scopes as they were ---------- *)
Inductive wellnested : list sop -> Prop :=
| wn_nil : wellnested []
| wn_define n h : wellnested h -> wellnested (SDefine n :: h)
| wn_resolve n h : wellnested h -> wellnested (SResolve n :: h)
| wn_block h1 h2 : wellnested h1 -> wellnested h2 -> wellnested (SPush :: h1 ++ SPop :: h2).

Lemma st_run_app h1 : forall h2 s,
  fst (st_run (h1 ++ h2) s) = fst (st_run h2 (fst (st_run h1 s))).
Proof.
  induction h1 as [|o t IH]; intros h2 s; [reflexivity|].
  rewrite <- app_comm_cons. rewrite !st_run_cons. cbn [fst]. apply IH.
Qed.

(* what a well-nested history may change in the current table: only add
   definitions on top, advance index, raise nmax *)
Lemma wellnested_frame h : wellnested h -> forall s,
  outers (fst (st_run h s)) = outers s /\
  exists added, store (cur (fst (st_run h s))) = added ++ store (cur s).
Proof.
  induction 1; intro s.
  - simpl. split; [reflexivity|exists []; reflexivity].
  - rewrite st_run_cons. destruct (IHwellnested (fst (st_step (SDefine n) s))) as [A (ad & B)].
    cbn [fst]. rewrite A, B. simpl. unfold st_define.
    destruct (slookup n (store (cur s))); cbn [fst cur outers store].
    + split; [reflexivity|exists ad; reflexivity].
    + split; [reflexivity|]. exists (ad ++ [(n, {| sname := n; sscp := match outers s with [] => GlobalScope | _ :: _ => LocalScope end; sidx := index (cur s) |})]).
      rewrite <- app_assoc. reflexivity.
  - rewrite st_run_cons. cbn [fst st_step]. apply IHwellnested.
  - rewrite st_run_cons. cbn [fst st_step]. rewrite st_run_app. rewrite st_run_cons. cbn [fst st_step].
    set (s1 := fst (st_run h1 (st_push s))).
    destruct (IHwellnested1 (st_push s)) as [A1 _]. fold s1 in A1. cbn [st_push outers] in A1.
    destruct (IHwellnested2 (st_pop s1)) as [A2 (ad & B2)].
    rewrite A2, B2. unfold st_pop. rewrite A1. cbn [cur outers store]. split; [reflexivity|exists ad; reflexivity].
Qed.

(* names defined inside a block vanish when it is closed: everything that
   was resolvable before the block resolves to the same symbol after it *)
Theorem block_is_transparent : forall (h : list sop) (s : symtab) (n : str),
  wellnested h ->
  st_resolve n (fst (st_run (SPush :: h ++ [SPop]) s)) = st_resolve n s.
Proof.
  intros h s n W.
  assert (W2 : wellnested (SPush :: h ++ SPop :: [])) by (apply wn_block; [exact W|constructor]).
  rewrite st_run_cons. cbn [fst st_step]. rewrite st_run_app. rewrite st_run_cons. cbn [fst st_step st_run].
  destruct (wellnested_frame h W (st_push s)) as [A _]. cbn [st_push outers] in A.
  unfold st_resolve, st_pop. rewrite A. cbn [cur outers resolve_in store]. reflexivity.
Qed.

(* ---------- every local slot is below the final LocalCount ---------- *)
Definition P (c : table) (os : list table) : N := nmax (st_pop_all_aux c os).

Lemma P_mono os : forall c c', nmax c <= nmax c' -> index c <= index c' -> P c os <= P c' os.
Proof.
  unfold P. induction os as [|o r IH]; intros c c' H1 H2; simpl; [exact H1|].
  apply IH; simpl; lia.
Qed.

Lemma P_ge_nmax os : forall c, nmax c <= P c os.
Proof.
  unfold P. induction os as [|o r IH]; intro c; simpl; [lia|].
  etransitivity; [|apply IH]. simpl. lia.
Qed.

Lemma P_ge_sum os : forall c, os <> [] -> nmax c + index c <= P c os.
Proof.
  intros c H. destruct os as [|o r]; [congruence|]. unfold P; simpl.
  etransitivity; [|apply (P_ge_nmax r)]. simpl. lia.
Qed.

Lemma P_ge_index os : forall c t, In t (removelast os) -> index t <= P c os.
Proof.
  induction os as [|o r IH]; intros c t H; [destruct H|].
  destruct r as [|o2 r2]; [destruct H|].
  change (removelast (o :: o2 :: r2)) with (o :: removelast (o2 :: r2)) in H.
  unfold P. cbn [st_pop_all_aux]. destruct H as [<-|H].
  - etransitivity; [|apply (P_ge_sum (o2 :: r2)); discriminate]. simpl. lia.
  - apply (IH _ _ H).
Qed.

Definition bound (s : symtab) : N := P (cur s) (outers s).

Lemma bound_step o s : bound s <= bound (fst (st_step o s)).
Proof.
  unfold bound. destruct o; simpl.
  - unfold st_push; cbn [cur outers]. unfold P at 2. cbn [st_pop_all_aux]. apply P_mono; simpl; lia.
  - unfold st_pop. destruct (outers s) as [|o r] eqn:E; [rewrite E; lia|]. cbn [cur outers].
    unfold P at 1. cbn [st_pop_all_aux]. unfold P. lia.
  - unfold st_define. destruct (slookup name (store (cur s))); cbn [fst cur outers]; [lia|].
    apply P_mono; simpl; lia.
  - lia.
Qed.

(* every live local symbol is below the bound *)
Lemma live_below_bound s : Inv s -> forall d n y, live_at d n y s -> sscp y = LocalScope -> sidx y < bound s.
Proof.
  unfold Inv, live_at, bound. intros H d n y L S.
  pose proof (chain_below _ H) as [_ DL]. specialize (DL _ _ _ L S). simpl in DL.
  revert H L DL. destruct (outers s) as [|o r]; intros H L DL; [simpl in DL; lia|].
  apply chain_ok_cons in H; [|discriminate]. destruct H as [(A & B & C) H2].
  destruct d.
  - apply live_0 in L. apply B in L. pose proof (P_ge_sum (o :: r) (cur s) ltac:(discriminate)). lia.
  - apply live_S in L. pose proof (chain_below _ H2) as [_ DL2]. specialize (DL2 _ _ _ L S).
    destruct L as (t & E & HL).
    assert (In t (removelast (o :: r))).
    { clear - E DL2. revert d E DL2. generalize (o :: r). induction l as [|a l IH]; intros d E DL; [destruct d; discriminate|].
      destruct l as [|b l]; [simpl in DL; lia|].
      change (removelast (a :: b :: l)) with (a :: removelast (b :: l)).
      destruct d; [inversion E; left; reflexivity|]. right. apply (IH d); [exact E|simpl in *; lia]. }
    pose proof (P_ge_index (o :: r) (cur s) t H).
    assert (sidx y < index t); [|lia].
    clear - H2 E HL S. revert d E. generalize dependent (o :: r). induction l as [|a l IH]; intros H d E; [destruct d; discriminate|].
    destruct l as [|b l].
    + destruct d; [|destruct d; discriminate]. inversion E; subst. simpl in H. destruct H as (_ & B & _). apply B in HL. destruct HL as (_ & X & _). congruence.
    + apply chain_ok_cons in H; [|discriminate]. destruct H as [(A & B & C) H3].
      destruct d; [inversion E; subst; apply B in HL; lia|]. apply (IH H3 d E).
Qed.

Lemma step_result_below o s : Inv s -> forall y, snd (st_step o s) = RSym y -> sscp y = LocalScope ->
  sidx y < bound (fst (st_step o s)).
Proof.
  intros H y E S. destruct o; simpl in E; try discriminate.
  - pose proof (inv_step (SDefine name) s H) as H'. simpl in *.
    pose proof (define_then_resolve s name) as DR.
    destruct (st_define name s) as [s' y'] eqn:ED. simpl in *. inversion E; subst y'.
    pose proof (resolve_innermost s' name) as RI. rewrite DR in RI. destruct RI as (d & L & _).
    apply (live_below_bound s' H' d name y L S).
  - simpl. destruct (st_resolve name s) eqn:ER; [|discriminate]. inversion E; subst.
    pose proof (resolve_innermost s name) as RI. rewrite ER in RI. destruct RI as (d & L & _).
    apply (live_below_bound s H d name y L S).
Qed.

Lemma bound_run h : forall s, bound s <= bound (fst (st_run h s)).
Proof.
  induction h as [|o t IH]; intro s; [simpl; lia|].
  rewrite st_run_cons. cbn [fst]. etransitivity; [apply (bound_step o s)|apply IH].
Qed.

Lemma run_results_below h : forall s, Inv s ->
  forall y, In (RSym y) (snd (st_run h s)) -> sscp y = LocalScope -> sidx y < bound (fst (st_run h s)).
Proof.
  induction h as [|o t IH]; intros s H y HI S; [destruct HI|].
  rewrite st_run_cons in *. cbn [fst snd] in *. destruct HI as [E|HI].
  - pose proof (step_result_below o s H y E S). pose proof (bound_run t (fst (st_step o s))). lia.
  - apply IH; auto. apply inv_step; auto.
Qed.

(* every LOCAL symbol any Define/Resolve of the history ever returned has an
   index below the nestedMaxIndex the root table has once all open scopes are
   popped — i.e. below Bytecode.LocalCount *)
Theorem symtab_locals_below_localcount : forall (h : list sop) (y : symbol),
  In (RSym y) (snd (st_run h new_symtab)) -> sscp y = LocalScope ->
  sidx y < nmax (st_pop_all (fst (st_run h new_symtab))).
Proof. intros h y HI S. apply (run_results_below h new_symtab inv_new y HI S). Qed.

Corollary symtab_locals_below_localcount_closed : forall (h : list sop) (y : symbol),
  outers (fst (st_run h new_symtab)) = [] ->
  In (RSym y) (snd (st_run h new_symtab)) -> sscp y = LocalScope ->
  sidx y < st_local_count (fst (st_run h new_symtab)).
Proof.
  intros h y E HI S. pose proof (symtab_locals_below_localcount h y HI S) as H.
  unfold st_pop_all in H. rewrite E in H. exact H.
Qed.

(* globals: every GLOBAL symbol returned is below GlobalCount at the end *)
Lemma global_index_mono o s : outers s = [] -> outers (fst (st_step o s)) = [] -> index (cur s) <= index (cur (fst (st_step o s))).
Proof.
  intros E E'. destruct o; simpl in *.
  - discriminate.
  - unfold st_pop. rewrite E. lia.
  - unfold st_define. destruct (slookup name (store (cur s))); simpl; lia.
  - lia.
Qed.
