(* TypesBuiltinProofs.v — a call result is a variable-like value, for every
   result type and in particular for every row of the regenerated built-in
   table. *)
From Coq Require Import List Bool String.
From EvyV Require Import Base TypesSyntax Types TypesSpec TypesSpecProofs TypesProofs BuiltinTy TypesBuiltin.
From EvyV.Gen Require Import BuiltinSigs.
Import ListNotations.

Lemma embed_no_fixed s : has_fixed (embed s) = false.
Proof. induction s; simpl; auto. Qed.

Definition composite (t : sty) : bool := match t with SArr _ | SMap _ => true | _ => false end.

Lemma call_type_var_ty t : closed t = true -> composite t = true -> var_ty (fixed_type (embed t)) = true.
Proof.
  intros Hc Hk. unfold var_ty.
  destruct (fixed_type_keeps (embed t)) as [A B]. rewrite A, B, spec_embed, (closed_embed_iff t Hc). simpl.
  destruct t; simpl in *; try discriminate; rewrite embed_no_fixed; reflexivity.
Qed.

Lemma erase_fixed_type t : erase (fixed_type t) = erase t.
Proof. destruct t; reflexivity. Qed.

(* the node of a call, what the specification says about it, and — for a
   composite result type — assignability of the result: exactly that of a
   variable (identical type or any), never the conversion a constant gets *)
Theorem call_result_is_variable t :
  closed t = true ->
  tc (ECall t) = ONode (NLeaf (fixed_type (embed t))) false /\
  spec_tc (ECall t) = Some (KVar, t) /\
  (composite t = true -> forall T, spec_ty T = true ->
     (accepts T (fixed_type (embed t)) = true <-> Assignable KVar (erase T) t)).
Proof.
  intros Hc. split; [reflexivity|]. split; [reflexivity|].
  intros Hk T HT.
  assert (Hv := call_type_var_ty t Hc Hk).
  assert (K : kind_of (fixed_type (embed t)) = KVar).
  { apply var_ty_inv in Hv as (_ & _ & _ & H). unfold kind_of. rewrite H. reflexivity. }
  assert (E : erase (fixed_type (embed t)) = t) by (rewrite erase_fixed_type; apply erase_embed).
  assert (Hp : pure_ty (fixed_type (embed t)) = true) by (unfold pure_ty; rewrite Hv; apply orb_true_r).
  pose proof (accepts_iff_assignable T (fixed_type (embed t)) HT Hp) as H.
  rewrite K, E in H. exact H.
Qed.

(* a variable is assignable to the identical type or to any only *)
Lemma assignable_var_inv T t : Assignable KVar T t <-> T = t \/ T = SAny.
Proof.
  split.
  - intro H. inversion H; subst; auto.
  - intros [-> | ->]; constructor.
Qed.

(* every result type of the regenerated built-in table can be written in a program *)
Lemma builtin_results_closed : Forall (fun p => closed (snd p) = true) builtin_results.
Proof. vm_compute. repeat constructor. Qed.

Lemma builtin_ret_in name t : builtin_ret name = Some t ->
  exists s, In s builtin_sigs /\ s_ (b_name s) = name /\ sty_of_bty (b_ret s) = Some t.
Proof.
  unfold builtin_ret. induction builtin_sigs as [|s r IH]; simpl; [discriminate|].
  destruct (str_eqb (s_ (b_name s)) name) eqn:E.
  - intro H. exists s. apply str_eqb_eq in E. auto.
  - intro H. destruct (IH H) as (s' & I & N & R). exists s'. auto.
Qed.

Lemma sig_in_results s t : In s builtin_sigs -> sty_of_bty (b_ret s) = Some t -> In (b_name s, t) builtin_results.
Proof.
  intros I R. unfold builtin_results. apply in_flat_map. exists s. split; [exact I|]. rewrite R. left. reflexivity.
Qed.

Theorem builtin_call_result_is_variable name t :
  builtin_ret name = Some t ->
  closed t = true /\
  tc (ECall t) = ONode (NLeaf (fixed_type (embed t))) false /\
  spec_tc (ECall t) = Some (KVar, t) /\
  (composite t = true -> forall T, spec_ty T = true ->
     (accepts T (fixed_type (embed t)) = true <-> erase T = t \/ erase T = SAny)).
Proof.
  intro H. destruct (builtin_ret_in name t H) as (s & I & _ & R).
  assert (Hc : closed t = true).
  { pose proof builtin_results_closed as F. rewrite Forall_forall in F.
    exact (F _ (sig_in_results s t I R)). }
  split; [exact Hc|].
  destruct (call_result_is_variable t Hc) as (A & B & C).
  split; [exact A|]. split; [exact B|].
  intros Hk T HT. rewrite (C Hk T HT). apply assignable_var_inv.
Qed.

(* non-vacuity: split is in the table with a composite result type *)
Lemma builtin_split_row : builtin_ret (s_ "split") = Some (SArr SString).
Proof. vm_compute. reflexivity. Qed.
