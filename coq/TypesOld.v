(* TypesOld.v — the definitions of Types.v as they mirrored /repo BEFORE the fix
   commits 0e214ac (combineTypes keeps Fixed flags / keeps the variable's type)
   and f8788c6 ([] * n typed as array).  Kept only for the regression lemmas
   "…_before_fix_refuted" of Props/C04.v.  No proofs here. *)
From Coq Require Import List Bool.
From EvyV Require Import Base TypesSyntax Types.
Import ListNotations.


(* func combineTypes(types []*Type) *Type — one loop iteration.
   [comb sw a b]: combinedT and t are (a, b) when sw = false and (b, a) when
   sw = true (the recursive call combineTypes([]*Type{t.Sub, combinedT.Sub})
   swaps the roles; recursion is on [a] either way).  "return ANY_TYPE" is
   rendered as continuing with combinedT = ANY_TYPE, which is the same
   function (once combinedT is ANY_TYPE every later iteration keeps it or
   returns ANY_TYPE).  None = nil dereference (GENERIC shapes only). *)
Fixpoint comb_old (sw : bool) (a b : ty) {struct a} : option ty :=
  let c := if sw then b else a in
  let t := if sw then a else b in
  if equals c t then Some c
  else if fixed t || fixed c then Some TAny
  else if (is_array_name t || is_map_name t) && name_eqb (name t) (name c) then
    if is_empty t then Some c
    else if is_empty c then Some t
    else match a with
         | TArr _ a' | TMap _ a' =>
             match sub b with
             | Some b' => match comb_old (negb sw) a' b' with
                          | Some s => Some (mk_composite t s)
                          | None => None
                          end
             | None =>                        (* b GENERIC (Sub nil): inner call on (t.Sub, c.Sub) with one nil *)
                 if sw then None              (* c = b: t' = c.Sub = nil, t'.Fixed dereferences nil *)
                 else                         (* t = b: Equals(nil, a') false; a'.Fixed || nil.Fixed *)
                   (if fixed a' then Some (mk_composite t TAny) else None)
             end
         | _ =>                               (* a GENERIC (Sub nil), b composite with Sub b' *)
             match sub b with
             | Some b' =>
                 (* inner call: Equals(nil-or-b', …) is false; then [t'.Fixed || combinedT'.Fixed]
                    where t' = c.Sub, combinedT' = t.Sub *)
                 if sw then (* c = b, t = a: t' = b' , combinedT' = nil *)
                   (if fixed b' then Some (mk_composite t TAny) else None)
                 else None (* c = a: t' = nil *)
             | None => None
             end
         end
  else Some TAny.

Definition combine2_old (c t : ty) : option ty := comb_old false c t.

Fixpoint combine_from_old (c : ty) (ts : list ty) : option ty :=
  match ts with
  | [] => Some c
  | t :: rest => match combine2_old c t with Some c' => combine_from_old c' rest | None => None end
  end.

(* None on the empty list = index out of range on types[0] *)
Definition combine_old (ts : list ty) : option ty :=
  match ts with [] => None | c :: rest => combine_from_old c rest end.


(* parseBinaryExpr before f8788c6 *)
Definition binary_node_type_old (op : binop) (lt rt : ty) : ty :=
  let exp := if is_comparison op then TBool else lt in
  if is_empty_arr exp then rt else exp.

(* parseBinaryExpr between f8788c6 and 6b5553c: only the TOP-LEVEL Fixed flag of the right operand was looked at *)
Definition binary_node_type_pre_6b5553c (op : binop) (lt rt : ty) : ty :=
  let exp := if is_comparison op then TBool else lt in
  let t := if is_empty_arr exp && is_plus op then rt else exp in
  if is_array_name t && fixed rt then fixed_type t else t.
