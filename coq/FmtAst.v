(* FmtAst.v — the AST as the FORMATTER sees it (pkg/parser/format.go): every
   statement node kind in place, literals with the text the two oracles
   strconv.FormatFloat(v,'f',-1,64) / strconv.Quote(v) render for them, and the
   three side tables of parser.formatting (comments, wss, multiline) inlined at
   the node they are keyed by.  The tree is exported by the Go harness
   (harness/astexport_fmt.go) from the real parser.Parse result through the
   verif hooks VerifComment / VerifWSS / VerifMultiline and decoded here. *)
From Coq Require Import ZArith NArith List String Bool.
From EvyV Require Import Base.
Import ListNotations.
Open Scope Z_scope.

(* parser.TypeName *)
Inductive tyname := TNnum | TNstring | TNbool | TNany | TNarr | TNmap | TNnone.

(* parser.Type as formatType walks it: Name, then Sub unless Sub == nil or the
   type is the interned EMPTY_ARRAY / EMPTY_MAP (exported with sub = None). *)
Inductive fty := FTy (n : tyname) (sub : option fty).

(* parser.Operator (all 17 values; the formatter prints Op.String() of any) *)
Inductive fop :=
| OpIllegal | OpPlus | OpMinus | OpSlash | OpAsterisk | OpPercent | OpOr | OpAnd
| OpEq | OpNotEq | OpLt | OpGt | OpLtEq | OpGtEq | OpIndex | OpDot | OpBang.

Inductive fexpr :=
| FVar (name : str)
| FNum (bits : Z) (text : str)           (* text = strconv.FormatFloat(Value,'f',-1,64) *)
| FStr (val : str) (quoted : str)        (* quoted = strconv.Quote(Value) *)
| FBool (b : bool)
| FAny (e : fexpr)                       (* parser.Any: format(n.Value) *)
| FArr (items : list str) (els : list fexpr)                   (* formatting.multiline[n], n.Elements *)
| FMap (items : list str) (keys : list str) (vals : list fexpr) (* multiline[n]; n.Pairs listed in n.Order *)
| FCall (name : str) (args : list fexpr)
| FUn (op : fop) (r : fexpr)
| FBin (op : fop) (wss : bool) (l r : fexpr)                   (* wss = formatting.wss[n] *)
| FIdx (l i : fexpr)
| FSlice (l : fexpr) (s e : option fexpr)
| FDot (l : fexpr) (key : str)
| FAssert (l : fexpr) (t : fty)
| FGroup (e : fexpr).

Inductive frange :=
| RStep (start : option fexpr) (stop : fexpr) (step : option fexpr)   (* parser.StepRange *)
| RExpr (e : fexpr).

(* Every [c : str] below is formatting.comments[node] ("" when absent). *)
Inductive fstmt :=
| SEmpty (c : str)
| STypedDecl (name : str) (t : fty) (c : str)
| SInferredDecl (name : str) (v : fexpr) (c : str)
| SAssign (target value : fexpr) (c : str)
| SCall (name : str) (args : list fexpr) (c : str)
| SReturn (v : option fexpr) (c : str)
| SBreak (c : str)
| SIf (ifb : cblock) (elifs : list cblock) (els : option (str * list fstmt)) (cend : str)
| SWhile (cond : fexpr) (chead : str) (body : list fstmt) (cend : str)
| SFor (lv : option str) (r : frange) (chead : str) (body : list fstmt) (cend : str)
| SFunc (name : str) (ret : option fty) (params : list (str * fty)) (variadic : option (str * fty))
        (chead : str) (body : list fstmt) (cend : str)
| SOn (name : str) (params : list (str * fty)) (chead : str) (body : list fstmt) (cend : str)
with cblock := CBlock (cond : fexpr) (c : str) (body : list fstmt).    (* parser.ConditionalBlock *)

Definition fprog := list fstmt.

(* ---------- induction principles for the nested types ---------- *)
Section FexprInd.
  Variable P : fexpr -> Prop.
  Hypothesis HVar : forall n, P (FVar n).
  Hypothesis HNum : forall b t, P (FNum b t).
  Hypothesis HStr : forall v q, P (FStr v q).
  Hypothesis HBool : forall b, P (FBool b).
  Hypothesis HAny : forall e, P e -> P (FAny e).
  Hypothesis HArr : forall items els, Forall P els -> P (FArr items els).
  Hypothesis HMap : forall items keys vals, Forall P vals -> P (FMap items keys vals).
  Hypothesis HCall : forall n args, Forall P args -> P (FCall n args).
  Hypothesis HUn : forall op r, P r -> P (FUn op r).
  Hypothesis HBin : forall op w l r, P l -> P r -> P (FBin op w l r).
  Hypothesis HIdx : forall l i, P l -> P i -> P (FIdx l i).
  Hypothesis HSlice : forall l s e, P l -> (forall x, s = Some x -> P x) -> (forall x, e = Some x -> P x) -> P (FSlice l s e).
  Hypothesis HDot : forall l k, P l -> P (FDot l k).
  Hypothesis HAssert : forall l t, P l -> P (FAssert l t).
  Hypothesis HGroup : forall e, P e -> P (FGroup e).

  Fixpoint fexpr_ind' (e : fexpr) : P e :=
    let all := fix all (l : list fexpr) : Forall P l :=
      match l with [] => Forall_nil P | x :: t => Forall_cons x (fexpr_ind' x) (all t) end in
    let opt := fun (o : option fexpr) =>
      match o return forall x, o = Some x -> P x with
      | Some y => fun x H => match H in _ = z return match z with Some x' => P x' | None => True end with eq_refl => fexpr_ind' y end
      | None => fun x H => match H in _ = z return match z with Some x' => P x' | None => True end with eq_refl => I end
      end in
    match e with
    | FVar n => HVar n
    | FNum b t => HNum b t
    | FStr v q => HStr v q
    | FBool b => HBool b
    | FAny e => HAny e (fexpr_ind' e)
    | FArr items els => HArr items els (all els)
    | FMap items keys vals => HMap items keys vals (all vals)
    | FCall n args => HCall n args (all args)
    | FUn op r => HUn op r (fexpr_ind' r)
    | FBin op w l r => HBin op w l r (fexpr_ind' l) (fexpr_ind' r)
    | FIdx l i => HIdx l i (fexpr_ind' l) (fexpr_ind' i)
    | FSlice l s e => HSlice l s e (fexpr_ind' l) (opt s) (opt e)
    | FDot l k => HDot l k (fexpr_ind' l)
    | FAssert l t => HAssert l t (fexpr_ind' l)
    | FGroup e => HGroup e (fexpr_ind' e)
    end.
End FexprInd.

Section FstmtInd.
  Variable P : fstmt -> Prop.
  Definition Pblock (c : cblock) : Prop := match c with CBlock _ _ body => Forall P body end.
  Hypothesis HEmpty : forall c, P (SEmpty c).
  Hypothesis HTyped : forall n t c, P (STypedDecl n t c).
  Hypothesis HInferred : forall n v c, P (SInferredDecl n v c).
  Hypothesis HAssign : forall t v c, P (SAssign t v c).
  Hypothesis HCall : forall n a c, P (SCall n a c).
  Hypothesis HReturn : forall v c, P (SReturn v c).
  Hypothesis HBreak : forall c, P (SBreak c).
  Hypothesis HIf : forall ifb elifs els cend,
      Pblock ifb -> Forall Pblock elifs -> (forall c b, els = Some (c, b) -> Forall P b) -> P (SIf ifb elifs els cend).
  Hypothesis HWhile : forall cond ch body ce, Forall P body -> P (SWhile cond ch body ce).
  Hypothesis HFor : forall lv r ch body ce, Forall P body -> P (SFor lv r ch body ce).
  Hypothesis HFunc : forall n rt ps v ch body ce, Forall P body -> P (SFunc n rt ps v ch body ce).
  Hypothesis HOn : forall n ps ch body ce, Forall P body -> P (SOn n ps ch body ce).

  Fixpoint fstmt_ind' (s : fstmt) : P s :=
    let all := fix all (l : list fstmt) : Forall P l :=
      match l with [] => Forall_nil P | x :: t => Forall_cons x (fstmt_ind' x) (all t) end in
    let blk := fun (c : cblock) => match c return Pblock c with CBlock _ _ body => all body end in
    let blks := fix blks (l : list cblock) : Forall Pblock l :=
      match l with [] => Forall_nil Pblock | x :: t => Forall_cons x (blk x) (blks t) end in
    match s with
    | SEmpty c => HEmpty c
    | STypedDecl n t c => HTyped n t c
    | SInferredDecl n v c => HInferred n v c
    | SAssign t v c => HAssign t v c
    | SCall n a c => HCall n a c
    | SReturn v c => HReturn v c
    | SBreak c => HBreak c
    | SIf ifb elifs els cend =>
        HIf ifb elifs els cend (blk ifb) (blks elifs)
          (match els return forall c b, els = Some (c, b) -> Forall P b with
           | Some (c0, b0) => fun c b H =>
               match H in _ = z return match z with Some (_, b') => Forall P b' | None => True end with eq_refl => all b0 end
           | None => fun c b H =>
               match H in _ = z return match z with Some (_, b') => Forall P b' | None => True end with eq_refl => I end
           end)
    | SWhile cond ch body ce => HWhile cond ch body ce (all body)
    | SFor lv r ch body ce => HFor lv r ch body ce (all body)
    | SFunc n rt ps v ch body ce => HFunc n rt ps v ch body ce (all body)
    | SOn n ps ch body ce => HOn n ps ch body ce (all body)
    end.
End FstmtInd.

(* ---------- decoder (wire format documented in harness/astexport_fmt.go) ---------- *)
Definition bind {A B} (o : option A) (f : A -> option B) : option B :=
  match o with Some a => f a | None => None end.
Notation "'do' x <- o ;; k" := (bind o (fun x => k)) (at level 200, x pattern, o at level 100, k at level 200).

Definition y_ty := Eval compute in s_ "ty".
Definition y_num := Eval compute in s_ "num".
Definition y_string := Eval compute in s_ "string".
Definition y_bool := Eval compute in s_ "bool".
Definition y_any := Eval compute in s_ "any".
Definition y_arr := Eval compute in s_ "arr".
Definition y_map := Eval compute in s_ "map".
Definition y_none := Eval compute in s_ "none".
Definition y_nil := Eval compute in s_ "nil".
Definition y_true := Eval compute in s_ "true".
Definition y_false := Eval compute in s_ "false".
Definition y_var := Eval compute in s_ "var".
Definition y_str := Eval compute in s_ "str".
Definition y_items := Eval compute in s_ "items".
Definition y_keys := Eval compute in s_ "keys".
Definition y_vals := Eval compute in s_ "vals".
Definition y_maplit := Eval compute in s_ "maplit".
Definition y_call := Eval compute in s_ "call".
Definition y_un := Eval compute in s_ "un".
Definition y_bin := Eval compute in s_ "bin".
Definition y_idx := Eval compute in s_ "idx".
Definition y_slice := Eval compute in s_ "slice".
Definition y_dot := Eval compute in s_ "dot".
Definition y_assert := Eval compute in s_ "assert".
Definition y_group := Eval compute in s_ "group".
Definition y_empty := Eval compute in s_ "empty".
Definition y_tdecl := Eval compute in s_ "tdecl".
Definition y_idecl := Eval compute in s_ "idecl".
Definition y_assign := Eval compute in s_ "assign".
Definition y_callstmt := Eval compute in s_ "callstmt".
Definition y_ret := Eval compute in s_ "ret".
Definition y_break := Eval compute in s_ "break".
Definition y_if := Eval compute in s_ "if".
Definition y_while := Eval compute in s_ "while".
Definition y_for := Eval compute in s_ "for".
Definition y_step := Eval compute in s_ "step".
Definition y_expr := Eval compute in s_ "expr".
Definition y_func := Eval compute in s_ "func".
Definition y_on := Eval compute in s_ "on".
Definition y_prog := Eval compute in s_ "prog".

Definition dec_tyname (s : str) : option tyname :=
  if str_eqb s y_num then Some TNnum else if str_eqb s y_string then Some TNstring
  else if str_eqb s y_bool then Some TNbool else if str_eqb s y_any then Some TNany
  else if str_eqb s y_arr then Some TNarr else if str_eqb s y_map then Some TNmap
  else if str_eqb s y_none then Some TNnone else None.

Fixpoint dec_fty (x : sx) : option fty :=
  match x with
  | Lst [Sym t; Sym n] => if str_eqb t y_ty then do n <- dec_tyname n;; Some (FTy n None) else None
  | Lst [Sym t; Sym n; sub] =>
      if str_eqb t y_ty then do n <- dec_tyname n;; do s <- dec_fty sub;; Some (FTy n (Some s)) else None
  | _ => None
  end.

Definition op_names : list (str * fop) := Eval compute in
  [(s_ "illegal", OpIllegal); (s_ "+", OpPlus); (s_ "-", OpMinus); (s_ "/", OpSlash); (s_ "*", OpAsterisk);
   (s_ "%", OpPercent); (s_ "or", OpOr); (s_ "and", OpAnd); (s_ "==", OpEq); (s_ "!=", OpNotEq);
   (s_ "<", OpLt); (s_ ">", OpGt); (s_ "<=", OpLtEq); (s_ ">=", OpGtEq); (s_ "[op_index]", OpIndex);
   (s_ ".", OpDot); (s_ "!", OpBang)].

Fixpoint assoc_str {A} (k : str) (l : list (str * A)) : option A :=
  match l with [] => None | (k', v) :: t => if str_eqb k' k then Some v else assoc_str k t end.

Definition dec_op (s : str) : option fop := assoc_str s op_names.

Definition dec_bool (x : sx) : option bool :=
  match x with Sym s => if str_eqb s y_true then Some true else if str_eqb s y_false then Some false else None | _ => None end.

Definition dec_string (x : sx) : option str := match x with Str s => Some s | _ => None end.

Fixpoint dec_strings (l : list sx) : option (list str) :=
  match l with [] => Some [] | Str s :: t => do r <- dec_strings t;; Some (s :: r) | _ => None end.

Fixpoint dec_fexpr (x : sx) : option fexpr :=
  let dec_opt (y : sx) : option (option fexpr) :=
    match y with Sym _ => Some None | _ => option_map Some (dec_fexpr y) end in
  let dec_exprs := fix go (l : list sx) : option (list fexpr) :=
    match l with [] => Some [] | y :: t => do a <- dec_fexpr y;; do r <- go t;; Some (a :: r) end in
  match x with
  | Lst (Sym tag :: args) =>
      if str_eqb tag y_var then match args with [Str n] => Some (FVar n) | _ => None end
      else if str_eqb tag y_num then match args with [Int b; Str t] => Some (FNum b t) | _ => None end
      else if str_eqb tag y_str then match args with [Str v; Str q] => Some (FStr v q) | _ => None end
      else if str_eqb tag y_bool then match args with [b] => option_map FBool (dec_bool b) | _ => None end
      else if str_eqb tag y_any then match args with [e] => option_map FAny (dec_fexpr e) | _ => None end
      else if str_eqb tag y_arr then
        match args with
        | Lst (Sym it :: items) :: els =>
            if str_eqb it y_items then do items <- dec_strings items;; do els <- dec_exprs els;; Some (FArr items els) else None
        | _ => None end
      else if str_eqb tag y_maplit then
        match args with
        | [Lst (Sym it :: items); Lst (Sym ks :: keys); Lst (Sym vs :: vals)] =>
            if str_eqb it y_items && str_eqb ks y_keys && str_eqb vs y_vals then
              do items <- dec_strings items;; do keys <- dec_strings keys;; do vals <- dec_exprs vals;;
              Some (FMap items keys vals)
            else None
        | _ => None end
      else if str_eqb tag y_call then
        match args with Str n :: a => do a <- dec_exprs a;; Some (FCall n a) | _ => None end
      else if str_eqb tag y_un then
        match args with [Sym o; r] => do o <- dec_op o;; do r <- dec_fexpr r;; Some (FUn o r) | _ => None end
      else if str_eqb tag y_bin then
        match args with
        | [Sym o; w; l; r] => do o <- dec_op o;; do w <- dec_bool w;; do l <- dec_fexpr l;; do r <- dec_fexpr r;; Some (FBin o w l r)
        | _ => None end
      else if str_eqb tag y_idx then
        match args with [l; i] => do l <- dec_fexpr l;; do i <- dec_fexpr i;; Some (FIdx l i) | _ => None end
      else if str_eqb tag y_slice then
        match args with [l; s; e] => do l <- dec_fexpr l;; do s <- dec_opt s;; do e <- dec_opt e;; Some (FSlice l s e) | _ => None end
      else if str_eqb tag y_dot then
        match args with [l; Str k] => do l <- dec_fexpr l;; Some (FDot l k) | _ => None end
      else if str_eqb tag y_assert then
        match args with [l; t] => do l <- dec_fexpr l;; do t <- dec_fty t;; Some (FAssert l t) | _ => None end
      else if str_eqb tag y_group then
        match args with [e] => option_map FGroup (dec_fexpr e) | _ => None end
      else None
  | _ => None
  end.

Fixpoint dec_fexprs (l : list sx) : option (list fexpr) :=
  match l with [] => Some [] | y :: t => do a <- dec_fexpr y;; do r <- dec_fexprs t;; Some (a :: r) end.

Definition dec_opt_fexpr (y : sx) : option (option fexpr) :=
  match y with Sym _ => Some None | _ => option_map Some (dec_fexpr y) end.

Definition dec_param (x : sx) : option (str * fty) :=
  match x with Lst [Str n; t] => do t <- dec_fty t;; Some (n, t) | _ => None end.

Fixpoint dec_params (l : list sx) : option (list (str * fty)) :=
  match l with [] => Some [] | y :: t => do a <- dec_param y;; do r <- dec_params t;; Some (a :: r) end.

Definition dec_frange (x : sx) : option frange :=
  match x with
  | Lst [Sym t; a; b; c] =>
      if str_eqb t y_step then do a <- dec_opt_fexpr a;; do b <- dec_fexpr b;; do c <- dec_opt_fexpr c;; Some (RStep a b c) else None
  | Lst [Sym t; e] => if str_eqb t y_expr then option_map RExpr (dec_fexpr e) else None
  | _ => None
  end.

Fixpoint dec_fstmt (x : sx) : option fstmt :=
  let dec_stmts := fix go (l : list sx) : option (list fstmt) :=
    match l with [] => Some [] | y :: t => do a <- dec_fstmt y;; do r <- go t;; Some (a :: r) end in
  let dec_cblock (y : sx) : option cblock :=
    match y with
    | Lst [c; Str cm; Lst body] => do c <- dec_fexpr c;; do body <- dec_stmts body;; Some (CBlock c cm body)
    | _ => None end in
  let dec_cblocks := fix go (l : list sx) : option (list cblock) :=
    match l with [] => Some [] | y :: t => do a <- dec_cblock y;; do r <- go t;; Some (a :: r) end in
  match x with
  | Lst (Sym tag :: args) =>
      if str_eqb tag y_empty then match args with [Str c] => Some (SEmpty c) | _ => None end
      else if str_eqb tag y_tdecl then
        match args with [Str n; t; Str c] => do t <- dec_fty t;; Some (STypedDecl n t c) | _ => None end
      else if str_eqb tag y_idecl then
        match args with [Str n; v; Str c] => do v <- dec_fexpr v;; Some (SInferredDecl n v c) | _ => None end
      else if str_eqb tag y_assign then
        match args with [t; v; Str c] => do t <- dec_fexpr t;; do v <- dec_fexpr v;; Some (SAssign t v c) | _ => None end
      else if str_eqb tag y_callstmt then
        match args with [Str n; Lst a; Str c] => do a <- dec_fexprs a;; Some (SCall n a c) | _ => None end
      else if str_eqb tag y_ret then
        match args with [v; Str c] => do v <- dec_opt_fexpr v;; Some (SReturn v c) | _ => None end
      else if str_eqb tag y_break then match args with [Str c] => Some (SBreak c) | _ => None end
      else if str_eqb tag y_if then
        match args with
        | [Lst (ifb :: elifs); els; Str cend] =>
            do ifb <- dec_cblock ifb;; do elifs <- dec_cblocks elifs;;
            do els <- match els with
                      | Sym _ => Some None
                      | Lst [Str c; Lst body] => do body <- dec_stmts body;; Some (Some (c, body))
                      | _ => None end;;
            Some (SIf ifb elifs els cend)
        | _ => None end
      else if str_eqb tag y_while then
        match args with
        | [c; Str ch; Lst body; Str ce] => do c <- dec_fexpr c;; do body <- dec_stmts body;; Some (SWhile c ch body ce)
        | _ => None end
      else if str_eqb tag y_for then
        match args with
        | [lv; r; Str ch; Lst body; Str ce] =>
            do lv <- match lv with Sym _ => Some None | Str n => Some (Some n) | _ => None end;;
            do r <- dec_frange r;; do body <- dec_stmts body;; Some (SFor lv r ch body ce)
        | _ => None end
      else if str_eqb tag y_func then
        match args with
        | [Str n; rt; Lst ps; v; Str ch; Lst body; Str ce] =>
            do rt <- match rt with Sym _ => Some None | _ => option_map Some (dec_fty rt) end;;
            do ps <- dec_params ps;;
            do v <- match v with Sym _ => Some None | _ => option_map Some (dec_param v) end;;
            do body <- dec_stmts body;; Some (SFunc n rt ps v ch body ce)
        | _ => None end
      else if str_eqb tag y_on then
        match args with
        | [Str n; Lst ps; Str ch; Lst body; Str ce] =>
            do ps <- dec_params ps;; do body <- dec_stmts body;; Some (SOn n ps ch body ce)
        | _ => None end
      else None
  | _ => None
  end.

Fixpoint dec_fstmts (l : list sx) : option (list fstmt) :=
  match l with [] => Some [] | y :: t => do a <- dec_fstmt y;; do r <- dec_fstmts t;; Some (a :: r) end.

Definition dec_fprog (x : sx) : option fprog :=
  match x with
  | Lst (Sym t :: stmts) => if str_eqb t y_prog then dec_fstmts stmts else None
  | _ => None
  end.
