(* FmtCmd.v — model of `evy fmt` on one file (main.go: fmtCmd.Run, fmtEvyFile,
   fmtTxtarFile, format, writeAtomically) as a program over a small file-system
   state machine, with an adversary that decides, for every system call, whether
   it fails / how many bytes it transfers, and when the process is killed.
   No proofs here (see FmtCmdProofs.v).

   The formatter itself is NOT modelled: [fmt1] (parser.Parse + Program.Format,
   None = does not parse), [parts] (the evy sources inside a file: the file
   itself for x.evy, the *.evy members for x.txtar) and [join] (the bytes that
   are written back: the formatted text itself for x.evy, txtar.Format of the
   archive with the formatted members for x.txtar) are Section variables. *)
From Coq Require Import ZArith NArith List String Bool Arith.
From EvyV Require Import Base.
Import ListNotations.

Definition bytes := list N.
Definition path := str.

(* ---------- the file system ---------- *)
Record file := { f_data : bytes; f_mode : N }.
(* one directory: [files] maps a path to its regular file, [dirw] says whether
   the process may create / rename / unlink entries in it *)
Record fsys := { files : path -> option file; dirw : bool }.

Definition upd (fs : fsys) (p : path) (v : option file) : fsys :=
  {| files := fun q => if str_eqb q p then v else files fs q; dirw := dirw fs |}.

Inductive errno := ENOENT | EACCES | EEXIST | ENOSPC | EIO | EBADF | EFBIG | ENOTDIR | EOTHER.

(* the system calls the command makes on the target's directory *)
Inductive call :=
| COpenR (p : path)                 (* openat(p, O_RDONLY|O_CLOEXEC)          os.ReadFile: Open *)
| CFstat (p : path)                 (* fstat(fd)                              os.ReadFile: f.Stat, only sizes the buffer *)
| CRead (p : path) (off : nat)      (* read(fd, buf) at file offset off       os.ReadFile: read loop *)
| CCloseR (p : path)                (* close(fd)                              os.ReadFile: defer f.Close *)
| CStat (p : path)                  (* newfstatat(p, 0)                       writeAtomically: os.Stat(filename) *)
| CCreateTemp (p : path) (m : N)    (* openat(p, O_RDWR|O_CREAT|O_EXCL, 0600) os.CreateTemp *)
| CWrite (p : path) (d : bytes)     (* write(fd, d)                           File.Write -> poll.FD.Write loop *)
| CFchmod (p : path) (m : N)        (* fchmod(fd, m)                          writeAndClose: f.Chmod(perm) *)
| CCloseW (p : path)                (* close(fd)                              tempFile.Close *)
| CLstat (p : path)                 (* newfstatat(p, AT_SYMLINK_NOFOLLOW)     os.Rename: refuse a directory as newname *)
| CRename (a b : path)              (* renameat(a, b)                         os.Rename *)
| CUnlink (p : path)                (* unlinkat(p, 0)                         writeAtomically: os.Remove(temp) on error paths *)
| CRmdir (p : path).                (* unlinkat(p, AT_REMOVEDIR)  os.Remove's second attempt after a failed unlink *)

Inductive ret := ROk | RData (d : bytes) | RCount (n : nat) | RMode (m : N) | RErr (e : errno).

(* what the adversary proposes for one call: let it succeed completely, let it
   transfer (at most) n bytes, or make it fail *)
Inductive outcome := OOk | OCount (n : nat) | OErr (e : errno).

(* Kernel side.  A failing call has no effect.  write appends (the only file
   written is the freshly created temp file, written sequentially). *)
Definition sys_exec (fs : fsys) (c : call) (o : outcome) : fsys * ret :=
  match o with
  | OErr e => (fs, RErr e)
  | _ =>
    match c with
    | COpenR p => match files fs p with Some _ => (fs, ROk) | None => (fs, RErr ENOENT) end
    | CFstat p | CLstat p | CStat p =>
        match files fs p with Some f => (fs, RMode (f_mode f)) | None => (fs, RErr ENOENT) end
    | CRead p off =>
        match files fs p with
        | Some f =>
            let rest := skipn off (f_data f) in
            let n := match o with OCount n => Nat.max 1 (Nat.min n (List.length rest)) | _ => List.length rest end in
            (fs, RData (firstn n rest))
        | None => (fs, RErr EBADF)
        end
    | CCloseR p | CCloseW p => (fs, ROk)
    | CCreateTemp p m =>
        if negb (dirw fs) then (fs, RErr EACCES)
        else match files fs p with
             | Some _ => (fs, RErr EEXIST)
             | None => (upd fs p (Some {| f_data := []; f_mode := m |}), ROk)
             end
    | CWrite p d =>
        match files fs p with
        | Some f =>
            let n := match o with OCount n => Nat.min n (List.length d) | _ => List.length d end in
            (upd fs p (Some {| f_data := f_data f ++ firstn n d; f_mode := f_mode f |}), RCount n)
        | None => (fs, RErr EBADF)
        end
    | CFchmod p m =>
        match files fs p with
        | Some f => (upd fs p (Some {| f_data := f_data f; f_mode := m |}), ROk)
        | None => (fs, RErr EBADF)
        end
    | CRename a b =>
        match files fs a with
        | Some f => if negb (dirw fs) then (fs, RErr EACCES)
                    else if str_eqb a b then (fs, ROk)
                    else (upd (upd fs b (Some f)) a None, ROk)
        | None => (fs, RErr ENOENT)
        end
    | CUnlink p =>
        match files fs p with
        | Some _ => if negb (dirw fs) then (fs, RErr EACCES) else (upd fs p None, ROk)
        | None => (fs, RErr ENOENT)
        end
    | CRmdir p => match files fs p with Some _ => (fs, RErr ENOTDIR) | None => (fs, RErr ENOENT) end
    end
  end.

(* ---------- the process ---------- *)
Inductive status := Exit (n : N) | Killed | OutOfFuel.
Definition event := (call * ret)%type.

(* [w_left]: how many more system calls the process gets to make before it is
   killed; [w_sched]: the adversary's outcome for each coming call (OOk when
   exhausted); [w_trace]: calls made so far, latest first *)
Record world := { w_fs : fsys; w_sched : list outcome; w_left : nat; w_trace : list event }.

Inductive step (A : Type) := Go (a : A) (w : world) | Stop (s : status) (w : world).
Arguments Go {A}. Arguments Stop {A}.

Definition syscall (c : call) (w : world) : step ret :=
  match w_left w with
  | O => Stop Killed w
  | S k =>
      let x := sys_exec (w_fs w) c (hd OOk (w_sched w)) in
      Go (snd x) {| w_fs := fst x; w_sched := tl (w_sched w); w_left := k; w_trace := (c, snd x) :: w_trace w |}
  end.

Definition bind {A B} (m : world -> step A) (k : A -> world -> step B) : world -> step B :=
  fun w => match m w with Go a w' => k a w' | Stop s w' => Stop s w' end.
Definition ret_ {A} (a : A) : world -> step A := fun w => Go a w.
Notation "x <- m ;; k" := (bind m (fun x => k)) (at level 61, m at next level, right associativity).

Definition is_ok (r : ret) : bool := match r with RErr _ => false | _ => true end.

(* os.ReadFile: the read loop.  A read that returns no data is EOF. *)
Fixpoint read_loop (fuel : nat) (p : path) (acc : bytes) (w : world) : step (option bytes) :=
  match fuel with
  | O => Stop OutOfFuel w
  | S fuel' =>
      match syscall (CRead p (List.length acc)) w with
      | Stop s w' => Stop s w'
      | Go (RData []) w' => Go (Some acc) w'
      | Go (RData d) w' => read_loop fuel' p (acc ++ d) w'
      | Go _ w' => Go None w'
      end
  end.

Definition file_len (fs : fsys) (p : path) : nat :=
  match files fs p with Some f => List.length (f_data f) | None => 0 end.

(* os.ReadFile(filename): None = error *)
Definition read_file (p : path) : world -> step (option bytes) :=
  r0 <- syscall (COpenR p) ;;
  if is_ok r0 then
    _ <- syscall (CFstat p) ;;                      (* error ignored by ReadFile *)
    (fun w => (r <- read_loop (S (file_len (w_fs w) p)) p [] ;;
               _ <- syscall (CCloseR p) ;;          (* deferred; error ignored *)
               ret_ r) w)
  else ret_ None.

(* poll.FD.Write: loop until everything is written; 0 bytes without an error is
   io.ErrUnexpectedEOF.  true = success *)
Fixpoint write_loop (fuel : nat) (tmp : path) (rest : bytes) (w : world) : step bool :=
  match fuel with
  | O => Stop OutOfFuel w
  | S fuel' =>
      match syscall (CWrite tmp rest) w with
      | Stop s w' => Stop s w'
      | Go (RCount n) w' =>
          if Nat.eqb n (List.length rest) then Go true w'
          else if Nat.eqb n 0 then Go false w'
          else write_loop fuel' tmp (skipn n rest) w'
      | Go _ w' => Go false w'
      end
  end.

Definition mode0600 : N := 384.

(* os.Remove(tempFile.Name()): unlink, then rmdir if that failed; errors ignored *)
Definition remove_temp (tmp : path) : world -> step bool :=
  r <- syscall (CUnlink tmp) ;;
  if is_ok r then ret_ false else (_ <- syscall (CRmdir tmp) ;; ret_ false).

(* writeAndClose's error return (f.Close(), error ignored) followed by the caller's os.Remove *)
Definition close_remove_temp (tmp : path) : world -> step bool :=
  _ <- syscall (CCloseW tmp) ;; remove_temp tmp.

(* main.go: writeAtomically + writeAndClose — THE PROTOCOL IN FORCE (since commit
   c62275b): stat the target, create the temp file (0600), write, fchmod it to the
   target's permission bits, close, rename; on every error after the creation the
   temp file is removed *)
Definition write_atomically (out : bytes) (target tmp : path) : world -> step bool :=
  r0 <- syscall (CStat target) ;;
  match r0 with
  | RMode m =>
      r1 <- syscall (CCreateTemp tmp mode0600) ;;
      if is_ok r1 then
        okw <- write_loop (S (List.length out)) tmp out ;;
        if okw : bool then
          r2 <- syscall (CFchmod tmp m) ;;
          if is_ok r2 then
            r3 <- syscall (CCloseW tmp) ;;
            if is_ok r3 then
              _ <- syscall (CLstat target) ;;
              r4 <- syscall (CRename tmp target) ;;
              if is_ok r4 then ret_ true else remove_temp tmp
            else remove_temp tmp
          else close_remove_temp tmp
        else close_remove_temp tmp
      else ret_ false
  | _ => ret_ false
  end.

(* REGRESSION MODEL: writeAtomically as it was before commit c62275b: no stat, no
   chmod (the temp file's 0600 replaced the target's mode), and no removal of the
   temp file on any error path.  Kept for the C18_…_before_fix lemmas. *)
Definition write_atomically_before_fix (out : bytes) (target tmp : path) : world -> step bool :=
  r1 <- syscall (CCreateTemp tmp mode0600) ;;
  if is_ok r1 then
    okw <- write_loop (S (List.length out)) tmp out ;;
    if okw : bool then
      r3 <- syscall (CCloseW tmp) ;;
      if is_ok r3 then
        _ <- syscall (CLstat target) ;;             (* os.Rename; error ignored *)
        r4 <- syscall (CRename tmp target) ;;
        ret_ (is_ok r4)
      else ret_ false
    else ret_ false
  else ret_ false.

Inductive variant := BeforeFix | Current.
Definition write_atomically_of (v : variant) :=
  match v with BeforeFix => write_atomically_before_fix | Current => write_atomically end.

(* -w / -c / neither (kong makes -w and -c exclusive) *)
Inductive cmd := CmdWrite | CmdCheck | CmdPlain.

Record result := { r_fs : fsys; r_status : status; r_trace : list event }.

Section Formatter.
  Variable fmt1 : bytes -> option bytes.
  Variable parts : bytes -> list bytes.
  Variable join : bytes -> list bytes -> bytes.

  Fixpoint fmt_parts (ps : list bytes) : option (list bytes) :=
    match ps with
    | [] => Some []
    | p :: t => match fmt1 p with
                | None => None
                | Some o => match fmt_parts t with Some os => Some (o :: os) | None => None end
                end
    end.

  (* what `fmt -w` writes back: format every part (checkOnly = false), join *)
  Definition fmt_all (src : bytes) : option bytes :=
    match fmt_parts (parts src) with Some os => Some (join src os) | None => None end.

  (* format(b, checkOnly = true) succeeds for every part: parses and in == out *)
  Definition part_ok (p : bytes) : bool :=
    match fmt1 p with Some o => str_eqb p o | None => false end.
  Definition check_ok (src : bytes) : bool := forallb part_ok (parts src).

  (* fmtCmd.fmtEvyFile / fmtTxtarFile for one file; true = nil error *)
  Definition fmt_file (v : variant) (c : cmd) (target tmp : path) : world -> step bool :=
    r <- read_file target ;;
    match r with
    | None => ret_ false
    | Some src =>
        match c with
        | CmdCheck => ret_ (check_ok src)
        | CmdPlain => ret_ (match fmt_all src with Some _ => true | None => false end)
        | CmdWrite =>
            match fmt_all src with
            | None => ret_ false
            | Some out => write_atomically_of v out target tmp
            end
        end
    end.

  (* main + kong: nil error -> exit 0, error -> FatalIfErrorf -> exit 1.
     [kill] = number of system calls after which the process is killed. *)
  Definition run (v : variant) (c : cmd) (target tmp : path) (fs : fsys)
             (sched : list outcome) (kill : nat) : result :=
    match fmt_file v c target tmp {| w_fs := fs; w_sched := sched; w_left := kill; w_trace := [] |} with
    | Go true w => {| r_fs := w_fs w; r_status := Exit 0; r_trace := rev (w_trace w) |}
    | Go false w => {| r_fs := w_fs w; r_status := Exit 1; r_trace := rev (w_trace w) |}
    | Stop s w => {| r_fs := w_fs w; r_status := s; r_trace := rev (w_trace w) |}
    end.
  (* fmtCmd.Run over c.Files (non-empty): the files in order, each with its own temp
     name; the first error ends the run (`return err`), later files are not looked at *)
  Fixpoint fmt_files (v : variant) (c : cmd) (fl : list (path * path)) : world -> step bool :=
    match fl with
    | [] => ret_ true
    | (target, tmp) :: rest =>
        b <- fmt_file v c target tmp ;;
        if b : bool then fmt_files v c rest else ret_ false
    end.

  Definition run_files (v : variant) (c : cmd) (fl : list (path * path)) (fs : fsys)
             (sched : list outcome) (kill : nat) : result :=
    match fmt_files v c fl {| w_fs := fs; w_sched := sched; w_left := kill; w_trace := [] |} with
    | Go true w => {| r_fs := w_fs w; r_status := Exit 0; r_trace := rev (w_trace w) |}
    | Go false w => {| r_fs := w_fs w; r_status := Exit 1; r_trace := rev (w_trace w) |}
    | Stop s w => {| r_fs := w_fs w; r_status := s; r_trace := rev (w_trace w) |}
    end.

  (* fmtCmd.Run without files: formatStdInOut (no file-system call at all): -w is
     errBadWriteFlag; otherwise format stdin, print the result unless checking.
     Result: exit status and what is written to stdout *)
  Definition fmt_stdin (c : cmd) (stdin : bytes) : status * bytes :=
    match c with
    | CmdWrite => (Exit 1, [])
    | CmdCheck => (if part_ok stdin then Exit 0 else Exit 1, [])
    | CmdPlain => match fmt1 stdin with Some o => (Exit 0, o) | None => (Exit 1, []) end
    end.
End Formatter.

(* the instantiation for a plain x.evy file *)
Definition evy_parts (src : bytes) : list bytes := [src].
Definition evy_join (src : bytes) (os : list bytes) : bytes := match os with [o] => o | _ => [] end.

(* ---------- wire format (harness <-> extracted model) ---------- *)
Local Open Scope string_scope.

Definition errno_name (e : errno) : string :=
  match e with
  | ENOENT => "ENOENT" | EACCES => "EACCES" | EEXIST => "EEXIST" | ENOSPC => "ENOSPC" | EIO => "EIO"
  | EBADF => "EBADF" | EFBIG => "EFBIG" | ENOTDIR => "ENOTDIR" | EOTHER => "EOTHER"
  end.

Definition dec_errno (s : str) : errno :=
  if str_eqb s (s_ "ENOENT") then ENOENT else if str_eqb s (s_ "EACCES") then EACCES
  else if str_eqb s (s_ "EEXIST") then EEXIST else if str_eqb s (s_ "ENOSPC") then ENOSPC
  else if str_eqb s (s_ "EIO") then EIO else if str_eqb s (s_ "EBADF") then EBADF
  else if str_eqb s (s_ "EFBIG") then EFBIG else if str_eqb s (s_ "ENOTDIR") then ENOTDIR else EOTHER.

Definition dec_outcome (x : sx) : outcome :=
  match x with
  | Lst [Sym k; Int n] => if str_eqb k (s_ "count") then OCount (Z.to_nat n) else OOk
  | Lst [Sym k; Sym e] => if str_eqb k (s_ "err") then OErr (dec_errno e) else OOk
  | _ => OOk
  end.

Definition enc_ret (r : ret) : sx :=
  match r with
  | ROk => Sym (s_ "ok")
  | RData d => Lst [Sym (s_ "count"); sx_nat (List.length d)]
  | RCount n => Lst [Sym (s_ "count"); sx_nat n]
  | RMode m => Lst [Sym (s_ "mode"); Int (Z.of_N m)]
  | RErr e => Lst [Sym (s_ "err"); Sym (s_ (errno_name e))]
  end.

Definition enc_event (e : event) : sx :=
  let '(c, r) := e in
  match c with
  | COpenR p => Lst [Sym (s_ "openr"); Str p; enc_ret r]
  | CFstat p => Lst [Sym (s_ "fstat"); Str p; enc_ret r]
  | CRead p off => Lst [Sym (s_ "read"); Str p; sx_nat off; enc_ret r]
  | CCloseR p => Lst [Sym (s_ "closer"); Str p; enc_ret r]
  | CStat p => Lst [Sym (s_ "stat"); Str p; enc_ret r]
  | CCreateTemp p m => Lst [Sym (s_ "createtemp"); Str p; Int (Z.of_N m); enc_ret r]
  | CWrite p d => Lst [Sym (s_ "write"); Str p; sx_nat (List.length d); enc_ret r]
  | CFchmod p m => Lst [Sym (s_ "fchmod"); Str p; Int (Z.of_N m); enc_ret r]
  | CCloseW p => Lst [Sym (s_ "closew"); Str p; enc_ret r]
  | CLstat p => Lst [Sym (s_ "lstat"); Str p; enc_ret r]
  | CRename a b => Lst [Sym (s_ "rename"); Str a; Str b; enc_ret r]
  | CUnlink p => Lst [Sym (s_ "unlink"); Str p; enc_ret r]
  | CRmdir p => Lst [Sym (s_ "rmdir"); Str p; enc_ret r]
  end.

Definition enc_file (f : option file) : sx :=
  match f with
  | None => Sym (s_ "absent")
  | Some f => Lst [Str (f_data f); Int (Z.of_N (f_mode f))]
  end.

Definition enc_status (s : status) : sx :=
  match s with
  | Exit n => Lst [Sym (s_ "exit"); Int (Z.of_N n)]
  | Killed => Sym (s_ "killed")
  | OutOfFuel => Sym (s_ "fuel")
  end.

Fixpoint tbl_lookup (t : list (bytes * option bytes)) (k : bytes) : option bytes :=
  match t with
  | [] => None
  | (k', v) :: t' => if str_eqb k' k then v else tbl_lookup t' k
  end.

Fixpoint dec_parts (l : list sx) : list (bytes * option bytes) :=
  match l with
  | Lst [Str m; Str f] :: t => (m, Some f) :: dec_parts t
  | Lst [Str m; _] :: t => (m, None) :: dec_parts t
  | _ => []
  end.

(* (variant cmd "target" "tmp" dirw file ((member formatted|none)…) "joined" (outcome…) kill)
   ↦ (result status (event…) target-file tmp-file) *)
Definition fmtcmd_case (x : sx) : sx :=
  match x with
  | Lst [Sym v; Sym c; Str target; Str tmp; Sym dw; f; Lst ps; Str joined; Lst sched; Int kill] =>
      let v := if str_eqb v (s_ "before-fix") then BeforeFix else Current in
      let c := if str_eqb c (s_ "write") then CmdWrite else if str_eqb c (s_ "check") then CmdCheck else CmdPlain in
      let f0 := match f with
                | Lst [Str d; Int m] => Some {| f_data := d; f_mode := Z.to_N m |}
                | _ => None
                end in
      let fs := {| files := fun q => if str_eqb q target then f0 else None;
                   dirw := str_eqb dw (s_ "true") |} in
      let tbl := dec_parts ps in
      let r := run (tbl_lookup tbl) (fun _ => map fst tbl) (fun _ _ => joined)
                   v c target tmp fs (map dec_outcome sched) (Z.to_nat kill) in
      Lst [Sym (s_ "result"); enc_status (r_status r); Lst (map enc_event (r_trace r));
           enc_file (files (r_fs r) target); enc_file (files (r_fs r) tmp)]
  | _ => Sym (s_ "decode-error")
  end.

(* several files in one invocation:
   (variant cmd dirw ((name tmp file ((member formatted|none)…) "joined")…) (outcome…) kill)
   ↦ (result status (event…) (target-file…) (tmp-file…)) *)
Fixpoint dec_mfiles (l : list sx) : list (path * path * option file * list (bytes * option bytes) * bytes) :=
  match l with
  | Lst [Str name; Str tmp; f; Lst ps; Str joined] :: t =>
      let f0 := match f with
                | Lst [Str d; Int m] => Some {| f_data := d; f_mode := Z.to_N m |}
                | _ => None
                end in
      (name, tmp, f0, dec_parts ps, joined) :: dec_mfiles t
  | _ => []
  end.

Fixpoint mfile_lookup {A} (l : list (path * path * option file * list (bytes * option bytes) * bytes))
         (proj : path * path * option file * list (bytes * option bytes) * bytes -> A) (dflt : A) (src : bytes) : A :=
  match l with
  | [] => dflt
  | x :: t => match x with
              | (_, _, Some f, _, _) => if str_eqb (f_data f) src then proj x else mfile_lookup t proj dflt src
              | _ => mfile_lookup t proj dflt src
              end
  end.

Definition fmtmulti_case (x : sx) : sx :=
  match x with
  | Lst [Sym v; Sym c; Sym dw; Lst fls; Lst sched; Int kill] =>
      let v := if str_eqb v (s_ "before-fix") then BeforeFix else Current in
      let c := if str_eqb c (s_ "write") then CmdWrite else if str_eqb c (s_ "check") then CmdCheck else CmdPlain in
      let ml := dec_mfiles fls in
      let fs := {| files := fun q => (fix look l := match l with
                                                   | [] => None
                                                   | (name, _, f0, _, _) :: t => if str_eqb q name then f0 else look t
                                                   end) ml;
                   dirw := str_eqb dw (s_ "true") |} in
      let tbl := flat_map (fun x => match x with (_, _, _, ps, _) => ps end) ml in
      let parts := mfile_lookup ml (fun x => match x with (_, _, _, ps, _) => map fst ps end) [] in
      let join := fun src (_ : list bytes) => mfile_lookup ml (fun x => match x with (_, _, _, _, j) => j end) [] src in
      let fl := map (fun x => match x with (name, tmp, _, _, _) => (name, tmp) end) ml in
      let r := run_files (tbl_lookup tbl) parts join v c fl fs (map dec_outcome sched) (Z.to_nat kill) in
      Lst [Sym (s_ "result"); enc_status (r_status r); Lst (map enc_event (r_trace r));
           Lst (map (fun p => enc_file (files (r_fs r) (fst p))) fl);
           Lst (map (fun p => enc_file (files (r_fs r) (snd p))) fl)]
  | _ => Sym (s_ "decode-error")
  end.

(* stdin mode: (cmd "stdin" formatted|none) ↦ (result status "stdout") *)
Definition fmtstdin_case (x : sx) : sx :=
  match x with
  | Lst [Sym c; Str input; o] =>
      let c := if str_eqb c (s_ "write") then CmdWrite else if str_eqb c (s_ "check") then CmdCheck else CmdPlain in
      let f1 := fun (_ : bytes) => match o with Str f => Some f | _ => None end in
      let r := fmt_stdin f1 c input in
      Lst [Sym (s_ "result"); enc_status (fst r); Str (snd r)]
  | _ => Sym (s_ "decode-error")
  end.
