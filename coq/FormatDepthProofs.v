(* FormatDepthProofs.v — C07: exact indentation depth.  Every non-blank statement nested at
   block depth d of a program is written at the beginning of a line, behind exactly 4*d
   spaces, and its own text starts with a non-blank character. *)
From Coq Require Import ZArith NArith List Bool Lia Arith.
From EvyV Require Import Base FmtAst Format FormatProofs FormatNlProofs FormatShapeProofs.
Import ListNotations.
Open Scope N_scope.

(* the statement lists directly inside a statement *)
Definition cb_body (cb : cblock) : list fstmt := match cb with CBlock _ _ b => b end.

Definition bodies (s : fstmt) : list (list fstmt) :=
  match s with
  | SIf ifb elifs els _ =>
      cb_body ifb :: map cb_body elifs ++ match els with Some (_, b) => [b] | None => [] end
  | SWhile _ _ b _ | SFor _ _ _ b _ | SFunc _ _ _ _ _ b _ | SOn _ _ _ b _ => [b]
  | _ => []
  end.

(* [nested d s d' s']: s' occurs strictly inside s (which is at depth d), at depth d' *)
Inductive nested : nat -> fstmt -> nat -> fstmt -> Prop :=
| nested_direct d s b t : In b (bodies s) -> In t b -> nested d s (S d) t
| nested_step d s b t d' s' : In b (bodies s) -> In t b -> nested (S d) t d' s' -> nested d s d' s'.

(* [at_depth p d s]: s occurs in program p at block depth d *)
Definition at_depth (p : fprog) (d : nat) (s : fstmt) : Prop :=
  (In s p /\ d = 0%nat) \/ exists t, In t p /\ nested 0 t d s.

Definition bol (pre : list piece) : Prop := pre = [] \/ exists q, pre = q ++ [NL].

Section Depth.
  Variable fx : fixes.

  Definition wstmts (lvl : nat) (b : list fstmt) : list piece :=
    stmts_loop (S lvl) false (map (fun x => (is_blank x, fmt_stmt fx (S lvl) x)) b).

  Ltac absall :=
    repeat match goal with
           | |- context [stmts_loop ?a ?b ?c] => generalize (stmts_loop a b c); intro
           | |- context [fmt_expr ?a ?b ?c] => generalize (fmt_expr a b c); intro
           | |- context [write_comment ?c] => generalize (write_comment c); intro
           | |- context [fmt_range ?a ?b ?c] => generalize (fmt_range a b c); intro
           | |- context [fmt_params ?a] => generalize (fmt_params a); intro
           | |- context [fmt_type ?a] => generalize (fmt_type a); intro
           | |- context [write_decl ?a ?b] => generalize (write_decl a b); intro
           | |- context [flat_map ?f ?l] => generalize (flat_map f l); intro
           end.
  Ltac assoc_done := absall; rewrite <- ?app_assoc; cbn [app]; reflexivity.

  (* a body is written right after a newline *)
  Lemma body_in_stmt s lvl b : In b (bodies s) ->
    exists A B, fmt_stmt fx lvl s = A ++ [NL] ++ wstmts lvl b ++ B.
  Proof.
    unfold wstmts. destruct s as [c|n t c|n v c|t v c|n a c|v c|c|ifb elifs els cend
                   |cond ch body ce|lv r ch body ce|n rt ps v ch body ce|n ps ch body ce];
      cbn [bodies]; intro Hin; try contradiction.
    - (* if *)
      destruct ifb as [cond c body]. cbn [cb_body] in Hin.
      destruct Hin as [<-|Hin].
      + cbn [fmt_stmt].
        match goal with |- exists A B, (?h ++ ?c1 ++ ?w1 ++ ?n1 ++ ?b1) ++ ?rest = _ =>
          exists (h ++ c1 ++ w1), rest end.
        assoc_done.
      + apply in_app_or in Hin as [Hin|Hin].
        * apply in_map_iff in Hin as (cb & <- & Hcb). apply in_split in Hcb as (l1 & l2 & ->).
          destruct cb as [cond0 c0 body0]. cbn [cb_body]. cbn [fmt_stmt].
          rewrite flat_map_app. cbn [flat_map].
          match goal with |- exists A B, ?hh ++ (?f1 ++ (?hd ++ ?c2 ++ ?w2 ++ ?n2 ++ ?b2) ++ ?f2) ++ ?rest = _ =>
            exists (hh ++ f1 ++ hd ++ c2 ++ w2), (f2 ++ rest) end.
          assoc_done.
        * destruct els as [[c0 body0]|]; [|contradiction]. destruct Hin as [<-|[]]. cbn [fmt_stmt].
          match goal with |- exists A B, ?hh ++ ?fm ++ (?hd ++ ?w2 ++ ?n2 ++ ?b2) ++ ?rest = _ =>
            exists (hh ++ fm ++ hd ++ w2), rest end.
          assoc_done.
    - destruct Hin as [<-|[]]. cbn [fmt_stmt].
      exists ([T k_while; Sp] ++ fmt_expr fx lvl cond ++ write_comment ch), ([Ind lvl; T k_end] ++ write_comment ce).
      assoc_done.
    - destruct Hin as [<-|[]]. cbn [fmt_stmt].
      exists ([T k_for; Sp] ++ match lv with Some n => [T n; Sp; T k_declare; Sp] | None => [] end
              ++ [T k_range; Sp] ++ fmt_range fx lvl r ++ write_comment ch), ([Ind lvl; T k_end] ++ write_comment ce).
      destruct lv; assoc_done.
    - destruct Hin as [<-|[]]. cbn [fmt_stmt].
      exists ([T k_func; Sp; T n] ++ match rt with Some t => T k_colon :: fmt_type t | None => [] end
              ++ fmt_params ps
              ++ match v with Some p => Sp :: write_decl (fst p) (snd p) ++ [T k_dot3] | None => [] end
              ++ write_comment ch), ([Ind lvl; T k_end] ++ write_comment ce).
      destruct rt, v; assoc_done.
    - destruct Hin as [<-|[]]. cbn [fmt_stmt].
      exists ([T k_on; Sp; T n] ++ fmt_params ps ++ write_comment ch), ([Ind lvl; T k_end] ++ write_comment ce).
      assoc_done.
  Qed.

  (* a non-blank statement of a body is written at the beginning of a line behind Ind lvl *)
  Lemma loop_occ lvl lvl' body : forall e t, In t body -> is_blank t = false ->
    exists pre post,
      stmts_loop lvl e (map (fun x => (is_blank x, fmt_stmt fx lvl' x)) body)
      = pre ++ [Ind lvl] ++ fmt_stmt fx lvl' t ++ [NL] ++ post /\ bol pre.
  Proof.
    induction body as [|s body IH]; intros e t Hin Hnb; [contradiction|].
    cbn [map stmts_loop]. destruct Hin as [->|Hin].
    - rewrite Hnb. exists [], (stmts_loop lvl false (map (fun x => (is_blank x, fmt_stmt fx lvl' x)) body)).
      split; [reflexivity | left; reflexivity].
    - destruct (is_blank s).
      + destruct (IH true t Hin Hnb) as (pre & post & -> & Hb).
        exists ((if e then [] else [NL]) ++ pre), post. split; [rewrite <- !app_assoc; reflexivity|].
        destruct Hb as [->|(q & ->)].
        * destruct e; [left; reflexivity | right; exists []; reflexivity].
        * right. exists ((if e then [] else [NL]) ++ q). rewrite <- app_assoc. reflexivity.
      + destruct (IH false t Hin Hnb) as (pre & post & -> & Hb).
        exists (([Ind lvl] ++ fmt_stmt fx lvl' s ++ [NL]) ++ pre), post.
        split; [rewrite <- !app_assoc; reflexivity|]. right.
        destruct Hb as [->|(q & ->)].
        * exists ([Ind lvl] ++ fmt_stmt fx lvl' s). rewrite app_nil_r, <- !app_assoc. reflexivity.
        * exists (([Ind lvl] ++ fmt_stmt fx lvl' s ++ [NL]) ++ q). rewrite <- !app_assoc. reflexivity.
  Qed.

  (* [occ ps d t]: t is written in ps right after a newline, behind Ind d, followed by a newline *)
  Definition occ (ps : list piece) (d : nat) (t : fstmt) : Prop :=
    exists pre post, ps = pre ++ [NL; Ind d] ++ fmt_stmt fx d t ++ [NL] ++ post.

  Lemma occ_direct lvl s b t : In b (bodies s) -> In t b -> is_blank t = false ->
    occ (fmt_stmt fx lvl s) (S lvl) t.
  Proof.
    intros Hb Ht Hnb. destruct (body_in_stmt s lvl b Hb) as (A & B & ->).
    unfold wstmts. destruct (loop_occ (S lvl) (S lvl) b false t Ht Hnb) as (pre & post & -> & Hbol).
    destruct Hbol as [->|(q & ->)].
    - exists A, (post ++ B). rewrite <- !app_assoc. reflexivity.
    - exists (A ++ [NL] ++ q), (post ++ B). rewrite <- !app_assoc. reflexivity.
  Qed.

  Theorem nested_occ d s d' s' : nested d s d' s' -> is_blank s' = false -> occ (fmt_stmt fx d s) d' s'.
  Proof.
    induction 1 as [d s b t Hb Ht | d s b t d' s' Hb Ht Hn IH]; intro Hnb.
    - apply (occ_direct d s b t); auto.
    - specialize (IH Hnb). destruct IH as (pre & post & Heq).
      destruct (is_blank t) eqn:Et.
      + (* a blank statement contains nothing *)
        exfalso. destruct t; try discriminate. inversion Hn; subst; simpl in *; contradiction.
      + destruct (occ_direct d s b t Hb Ht Et) as (pre0 & post0 & ->).
        rewrite Heq. exists (pre0 ++ [NL; Ind (S d)] ++ pre), (post ++ [NL] ++ post0).
        rewrite <- !app_assoc. reflexivity.
  Qed.

  (* top level *)
  Lemma prog_loop_occ nl l : forall i e t, In t l -> is_blank t = false ->
    exists pre post, prog_loop fx nl i e l = pre ++ [Ind 0] ++ fmt_stmt fx 0 t ++ [NL] ++ post /\ bol pre.
  Proof.
    induction l as [|s l IH]; intros i e t Hin Hnb; [contradiction|].
    cbn [prog_loop]. destruct Hin as [->|Hin].
    - rewrite Hnb. exists [], ((if mem_nat i nl then [NL] else []) ++ prog_loop fx nl (S i) false l).
      split; [reflexivity | left; reflexivity].
    - destruct (is_blank s).
      + destruct (IH (S i) true t Hin Hnb) as (pre & post & -> & Hb).
        exists ((if e then [] else [NL]) ++ pre), post. split; [rewrite <- !app_assoc; reflexivity|].
        destruct Hb as [->|(q & ->)].
        * destruct e; [left; reflexivity | right; exists []; reflexivity].
        * right. exists ((if e then [] else [NL]) ++ q). rewrite <- app_assoc. reflexivity.
      + destruct (IH (S i) false t Hin Hnb) as (pre & post & -> & Hb).
        exists (([Ind 0] ++ fmt_stmt fx 0 s ++ [NL] ++ (if mem_nat i nl then [NL] else [])) ++ pre), post.
        split; [rewrite <- !app_assoc; reflexivity|]. right.
        destruct Hb as [->|(q & ->)].
        * destruct (mem_nat i nl).
          -- exists ([Ind 0] ++ fmt_stmt fx 0 s ++ [NL]). rewrite app_nil_r, <- !app_assoc. reflexivity.
          -- exists ([Ind 0] ++ fmt_stmt fx 0 s). rewrite !app_nil_r, <- !app_assoc. reflexivity.
        * exists (([Ind 0] ++ fmt_stmt fx 0 s ++ [NL] ++ (if mem_nat i nl then [NL] else [])) ++ q).
          rewrite <- !app_assoc. reflexivity.
  Qed.

  Theorem at_depth_occ p d s : at_depth p d s -> is_blank s = false ->
    exists pre post, fmt_prog fx p = pre ++ [Ind d] ++ fmt_stmt fx d s ++ [NL] ++ post /\ bol pre.
  Proof.
    intros [[Hin ->]|(t & Hin & Hn)] Hnb; unfold fmt_prog.
    - destruct p as [|s0 p0]; [contradiction|]. apply prog_loop_occ; auto.
    - destruct p as [|s0 p0]; [contradiction|].
      assert (Et : is_blank t = false).
      { destruct (is_blank t) eqn:E; [|reflexivity]. exfalso. destruct t; try discriminate. inversion Hn; subst; simpl in *; contradiction. }
      destruct (prog_loop_occ (nl_after (fix_nl fx) (map stmt_kind (s0 :: p0))) (s0 :: p0) 0%nat false t Hin Et)
        as (pre & post & -> & _).
      destruct (nested_occ 0 t d s Hn Hnb) as (pre1 & post1 & ->).
      exists ((pre ++ [Ind 0] ++ pre1) ++ [NL]), (post1 ++ [NL] ++ post).
      split; [rewrite <- !app_assoc; reflexivity | right; eexists; reflexivity].
  Qed.

  (* the text of a non-blank statement starts with a non-blank character *)
  Definition head_tok (ps : list piece) : Prop :=
    exists s rest, (ps = T s :: rest \/ ps = Q s :: rest \/ ps = Cm s :: rest) /\ tok_shape s = true.

  Lemma head_tok_app a b : head_tok a -> head_tok (a ++ b).
  Proof.
    intros (s & rest & [ -> | [ -> | -> ] ] & H); exists s, (rest ++ b); (split; [|exact H]); auto.
  Qed.

  Lemma head_tok_T s ps : tok_shape s = true -> head_tok (T s :: ps).
  Proof. intro H. exists s, ps. auto. Qed.

  Lemma head_tok_expr e : forall lvl, wf_expr e = true -> head_tok (fmt_expr fx lvl e).
  Proof.
    induction e as [n|b t|v q|b|e IH|items els IH|items keys vals IH|n args IH|op r IH|op w l r IHl IHr|l i IHl IHi|l s e IHl IHs IHe|l k IHl|l t IHl|e IH] using fexpr_ind';
      intros lvl Hwf; cbn [fmt_expr]; cbn [wf_expr] in Hwf.
    - apply head_tok_T, plain_tok_shape, Hwf.
    - apply head_tok_T, plain_tok_shape, Hwf.
    - exists q, []. split; [auto | apply quoted_tok_shape, Hwf].
    - destruct b; apply head_tok_T; reflexivity.
    - auto.
    - unfold fmt_array. destruct (format_multiline items); apply head_tok_T; reflexivity.
    - unfold fmt_map. destruct (format_multiline items); apply head_tok_T; reflexivity.
    - apply andb_true_iff in Hwf as [Hn _]. apply head_tok_T, plain_tok_shape, Hn.
    - apply head_tok_T, op_shape.
    - apply andb_true_iff in Hwf as [Hl _]. apply head_tok_app; auto.
    - apply andb_true_iff in Hwf as [Hl _]. apply head_tok_app; auto.
    - apply andb_true_iff in Hwf as [Hl _]. apply andb_true_iff in Hl as [Hl _]. apply head_tok_app; auto.
    - apply andb_true_iff in Hwf as [Hl _]. apply head_tok_app; auto.
    - apply head_tok_app; auto.
    - apply head_tok_T; reflexivity.
  Qed.

  Lemma head_tok_stmt s lvl : wf_stmt s = true -> is_blank s = false -> head_tok (fmt_stmt fx lvl s).
  Proof.
    destruct s as [c|n t c|n v c|t v c|n a c|v c|c|ifb elifs els cend
                   |cond ch body ce|lv r ch body ce|n rt ps v ch body ce|n ps ch body ce];
      intros Hwf Hnb; cbn [fmt_stmt]; cbn [wf_stmt] in Hwf; try (apply head_tok_T; reflexivity).
    - cbn [is_blank] in Hnb. unfold write_comment_empty. rewrite Hnb.
      exists (trim c), []. split; [auto | apply comment_ok_shape; auto].
    - apply andb_true_iff in Hwf as [Hn _]. unfold write_decl. cbn [app]. apply head_tok_T, plain_tok_shape, Hn.
    - apply andb_true_iff in Hwf as [Hwf _]. apply andb_true_iff in Hwf as [Hn _]. apply head_tok_T, plain_tok_shape, Hn.
    - apply andb_true_iff in Hwf as [Hwf _]. apply andb_true_iff in Hwf as [Ht _]. apply head_tok_app, head_tok_expr, Ht.
    - apply andb_true_iff in Hwf as [Hwf _]. apply andb_true_iff in Hwf as [Hn _]. unfold fmt_call. cbn [app].
      apply head_tok_T, plain_tok_shape, Hn.
    - destruct ifb. apply head_tok_T; reflexivity.
  Qed.

  Lemma head_tok_char ps : head_tok ps -> exists c r, render ps = c :: r /\ is_space c = false.
  Proof.
    intros (s & rest & Hps & Hs). destruct (tok_shape_spec s Hs) as (c & s' & -> & Hc & _).
    exists c, (s' ++ render rest). split; [|exact Hc]. destruct Hps as [ -> | [ -> | -> ] ]; reflexivity.
  Qed.

  Lemma render_bol pre : bol pre -> render pre = [] \/ exists q, render pre = q ++ [10].
  Proof.
    intros [->|(q & ->)]; [left; reflexivity|]. right. exists (render q). rewrite render_app. reflexivity.
  Qed.

  (* C07: exact indentation.  A non-blank statement at block depth d is written at the beginning
     of a line, behind exactly 4*d spaces, its own text starting with a non-blank character. *)
  Theorem stmt_at_exact_depth p d s :
    at_depth p d s -> is_blank s = false -> wf_stmt s = true ->
    exists pre post,
      format fx p = pre ++ spaces (4 * d) ++ render (fmt_stmt fx d s) ++ [10] ++ post
      /\ (pre = [] \/ exists q, pre = q ++ [10])
      /\ exists c r, render (fmt_stmt fx d s) = c :: r /\ is_space c = false.
  Proof.
    intros Hat Hnb Hwf. destruct (at_depth_occ p d s Hat Hnb) as (pre & post & Heq & Hbol).
    exists (render pre), (render post). split; [|split].
    - unfold format. rewrite Heq, !render_app.
      change (render [Ind d]) with (spaces (4 * d) ++ []). change (render [NL]) with [10]. rewrite app_nil_r. reflexivity.
    - apply render_bol, Hbol.
    - apply head_tok_char, head_tok_stmt; auto.
  Qed.
  (* ---------- the second pass at top level ---------- *)
  (* what formatProgram does when nothing is marked and no two blank lines are adjacent:
     it writes the statements one by one, nothing inserted, nothing squeezed *)
  Definition plain_line (s : fstmt) : list piece :=
    if is_blank s then [NL] else [Ind 0] ++ fmt_stmt fx 0 s ++ [NL].

  Lemma prog_loop_plain l : forall i e,
    no_adj_empty (map stmt_kind l) = true ->
    (e = true -> match l with s :: _ => is_blank s = false | [] => True end) ->
    prog_loop fx [] i e l = flat_map plain_line l.
  Proof.
    induction l as [|s l IH]; intros i e Hna He; [reflexivity|].
    cbn [prog_loop flat_map]. cbn [map no_adj_empty] in Hna. apply andb_true_iff in Hna as [H1 Hna].
    unfold plain_line at 1. destruct (is_blank s) eqn:Eb.
    - destruct e; [specialize (He eq_refl); simpl in He; congruence|]. cbn [app]. f_equal.
      apply IH; auto. intros _. destruct l as [|s2 l']; [exact I|].
      apply is_blank_kind in Eb. unfold is_emptyk in H1. rewrite Eb in H1. cbn [map skind_eqb andb] in H1.
      apply negb_true_iff in H1. destruct (is_blank s2) eqn:E2; [|reflexivity].
      apply is_blank_kind in E2. rewrite E2 in H1. discriminate.
    - cbn [mem_nat app]. rewrite <- !app_assoc. cbn [app]. do 1 f_equal. f_equal. f_equal.
      apply IH; auto. intro; discriminate.
  Qed.

  (* C07: a tree whose top-level skeleton is the skeleton of a formatter output (of the repaired
     nlAfter) is written statement by statement: the second pass inserts and removes no blank line *)
  Theorem second_pass_is_plain p ks : fix_nl fx = true ->
    map stmt_kind p = skel_step true ks -> fmt_prog fx p = flat_map plain_line p.
  Proof.
    intros Hfx Hk. unfold fmt_prog. destruct p as [|s p]; [exfalso; apply (skel_step_nonempty ks); symmetry; exact Hk|].
    rewrite Hfx, Hk, skel_step_fixed_stable. apply prog_loop_plain.
    - rewrite Hk. apply skel_step_no_adj_empty.
    - intro; discriminate.
  Qed.
End Depth.
