(* Parser.v — model of evy's statement-level parser (pkg/parser/parser.go) on top of
   the expression parser model Pratt.v.  No proofs here (ParserProofs.v).

   Mirrored function by function: newParser (consumeTokens, parseFuncSignatures,
   parseFuncDefSignature), Parse, parseProgram, parseStatement, parseEmptyStmt,
   parseAssignmentStatement / parseAssignmentTarget, parseTypedDeclStatement /
   parseTypedDecl, parseInferredDeclStatement, validateVarDecl, parseFunCallStatement,
   parseReturnStatement, parseBreakStatement, parseForStatement, parseWhileStatement,
   parseIfStatement / parseIfConditionalBlock / parseCondition, parseBlock /
   parseIfBlock / parseBlockWithEndTokens, parseFunc / addParamsToScope,
   parseEventHandler / addEventParamsToScope, validateScope, advancePastNL, assertEOL,
   the scope chain (scope.go) with the isUsed flags, alwaysTerminates.

   What is abstracted: TYPING.  Wherever the Go code consults the type of a node
   (accepts / matches / Type() == ...), the model asks an arbitrary oracle
   (benv.b_tyerr, Pratt.tsite lists the sites) whether an error is reported there and
   then does what the Go code does in that case (append an error; return nil where Go
   returns nil).  Theorems quantify over every oracle.  The position blamed for a typing
   error is not mirrored (such errors carry kind E_type); every other error carries the
   position of the token the Go code blames.  recordComment / formatting tables,
   CalledBuiltinFuncs and the types stored in scopes are not modelled.

   Positions: a token is located by the number of tokens from it to the end of the input
   (Pratt.here); [parse] turns that into the (line, column) supplied with the token. *)
From Coq Require Import List String NArith ZArith Bool Arith.
From EvyV Require Import Base Pratt.
From EvyV.Gen Require Import Prec.
Import ListNotations.
Local Open Scope nat_scope.

(* ---------- statements ---------- *)
Inductive stmt :=
| SEmpty
| STypedDecl (name : str) (t : option ty)
| SInferredDecl (name : str) (v : tree)
| SAssign (target value : tree)
| SCallStmt (c : tree)
| SReturn (v : option tree)
| SBreak
| SIf (branches : list (option tree * block)) (els : option block)
| SWhile (cond : option tree) (b : block)
| SFor (var : option str) (range : list tree) (b : block)
| SFunc (name : str) (ret : bool) (params : list str) (b : block)   (* ret: declared with a return type *)
| SOn (name : str) (params : list str) (b : block)
with block := Block (stmts : list stmt) (terms : bool).   (* BlockStatement.alwaysTerms *)

Definition block_terms (b : block) : bool := match b with Block _ t => t end.

(* alwaysTerms(n) *)
Definition always_terms (s : stmt) : bool :=
  match s with
  | SReturn _ | SBreak => true
  | SIf brs (Some e) => block_terms e && forallb (fun cb => block_terms (snd cb)) brs
  | _ => false
  end.
Definition is_empty_stmt (s : stmt) : bool := match s with SEmpty => true | _ => false end.

(* ---------- error sites of parser.go (perr.E_stmt codes) ---------- *)
Definition K_unknown_function := 1.      (* parseStatement: unknown function "x" *)
Definition K_unexpected_input := 2.      (* parseStatement: unexpected input *)
Definition K_assign_to_func := 3.        (* parseAssignmentStatement *)
Definition K_assign_underscore := 4.     (* parseAssignmentTarget: assignment to "_" *)
Definition K_unknown_var := 5.           (* parseAssignmentTarget: unknown variable name *)
Definition K_invalid_type_decl := 6.     (* parseTypedDecl *)
Definition K_redecl_builtin_var := 7.    (* validateVarDecl *)
Definition K_redecl := 8.
Definition K_decl_func_name := 9.
Definition K_decl_underscore := 10.
Definition K_invalid_inferred := 11.     (* parseInferredDeclStatement *)
Definition K_expected_eol := 12.         (* assertEOL *)
Definition K_return_not_allowed := 13.   (* parseReturnStatement *)
Definition K_break_not_in_loop := 14.    (* parseBreakStatement *)
Definition K_range_empty := 15.          (* parseForStatement *)
Definition K_unreachable := 16.          (* parseBlockWithEndTokens / parseProgram *)
Definition K_empty_block := 17.          (* at least one statement is required here *)
Definition K_unused := 18.               (* validateScope *)
Definition K_redecl_func_body := 19.     (* parseFunc *)
Definition K_missing_return := 20.
Definition K_redecl_on := 21.            (* parseEventHandler *)
Definition K_unknown_event := 22.
Definition K_event_param_count := 23.    (* addEventParamsToScope *)
Definition K_invalid_return_type := 24.  (* parseFuncDefSignature *)
Definition K_variadic_with_others := 25.
Definition K_override_builtin_var := 26. (* parseFuncSignatures *)
Definition K_override_builtin_func := 27.
Definition K_redecl_func := 28.
Definition K_event_param_type := 29.
Definition K_bare_return := 30.          (* parseReturnStatement: expected return value of type T, found none *)
Definition K_return_value_failed := 31.  (* parseReturnStatement: the value expression failed: ..., found ILLEGAL *)    (* addEventParamsToScope: wrong type for parameter *)

(* ---------- parser state above the token cursor ---------- *)
Record var := { v_name : str; v_used : bool; v_pos : nat }.         (* parser.Var: Name, isUsed, token *)
Record scope := { sc_vars : list var; sc_ret : bool; sc_retval : bool; sc_loop : bool }.
   (* scope.vars (newest first); returnType != nil; returnType != NONE_TYPE; block is a WhileStmt / ForStmt *)
Record finfo := { fi_nil : bool;                 (* isNiladic *)
                  fi_ret : bool;                 (* ReturnType != NONE_TYPE *)
                  fi_arity : option nat;         (* len(Params), None when VariadicParam != nil *)
                  fi_params : list (str * nat) }. (* Params / VariadicParam: name and declaration token *)

(* Builtins, and the typing oracle *)
Record benv := { b_funcs : list (str * bool);          (* builtins.Funcs: name, isNiladic *)
                 b_arity : list (str * option nat);    (* builtins.Funcs: number of parameters, None = variadic *)
                 b_globals : list str;                 (* builtins.Globals *)
                 b_events : list (str * list ty);      (* builtins.EventHandlers: parameter types *)
                 b_tyerr : tsite -> tree -> nat -> bool }.   (* site, tree, blamed token *)

Record pst := { cs : pstate;                     (* token cursor, wss stack, errors, used log *)
                scs : list scope;                (* p.scope chain, innermost first *)
                fns : list (str * finfo);        (* p.funcs *)
                bodies : list str;               (* names of functions whose Body is set *)
                hds : list str }.                (* p.eventHandlers *)

(* outcomes of the recursive functions *)
Inductive PR (A : Type) : Type :=
| Ok (a : A) (s : pst)
| Crash (why : string)     (* a Go panic: nil dereference, failed type assertion, panic(...) *)
| Oof.                     (* out of fuel *)
Arguments Ok {A}. Arguments Crash {A}. Arguments Oof {A}.

Notation "'pdo' ( x , s ) <- m ; k" :=
  (match m with Ok x s => k | Crash w => Crash w | Oof => Oof end)
  (at level 200, x name, s name, m at level 100, k at level 200).

Definition with_cs (s : pst) (c : pstate) : pst :=
  {| cs := c; scs := scs s; fns := fns s; bodies := bodies s; hds := hds s |}.
Definition with_scs (s : pst) (l : list scope) : pst :=
  {| cs := cs s; scs := l; fns := fns s; bodies := bodies s; hds := hds s |}.
Definition upd (f : pstate -> pstate) (s : pst) : pst := with_cs s (f (cs s)).

Definition pos (s : pst) : nat := here (cs s).
Definition ct (s : pst) : toktype := cur_t (cs s).
Definition serr_at (k : nat) (n : nat) (s : pst) : pst := upd (add_err_at (E_stmt k) n) s.
Definition serr (k : nat) (s : pst) : pst := serr_at k (pos s) s.
Definition adv (s : pst) : pst := upd advance s.

(* assertToken *)
Definition passert (t : toktype) (s : pst) : bool * pst :=
  let '(ok, c) := assert_token t (cs s) in (ok, with_cs s c).
(* assertEOL *)
Definition assert_eol (s : pst) : pst := if is_at_eol (cs s) then s else serr K_expected_eol s.

(* advancePastNL *)
Fixpoint apnl_loop (fuel : nat) (c : pstate) : pstate :=
  match fuel with
  | 0 => c
  | S f => match cur_t c with
           | T_NL => advance c
           | T_EOF => c
           | _ => apnl_loop f (advance c)
           end
  end.
Definition apnl (s : pst) : pst := upd (fun c => apnl_loop (S (here c)) c) s.

(* ---------- scopes (scope.go) ---------- *)
Fixpoint has_var (n : str) (l : list var) : bool :=
  match l with [] => false | v :: r => str_eqb (v_name v) n || has_var n r end.
Definition in_local (n : str) (s : pst) : bool :=          (* scope.inLocalScope *)
  match scs s with [] => false | sc :: _ => has_var n (sc_vars sc) end.
Definition scope_get (n : str) (s : pst) : bool :=          (* scope.get: found? *)
  negb (str_eqb n (s_ "_")) && existsb (fun sc => has_var n (sc_vars sc)) (scs s).
Definition visible (l : list scope) : list str := flat_map (fun sc => map v_name (sc_vars sc)) l.

Fixpoint remove_var (n : str) (l : list var) : list var :=
  match l with [] => [] | v :: r => if str_eqb (v_name v) n then remove_var n r else v :: remove_var n r end.
(* scope.set: a Go map assignment, replaces an entry of the same name *)
Definition scope_set (n : str) (p : nat) (s : pst) : pst :=
  if str_eqb n (s_ "_") then s else
  match scs s with
  | [] => s
  | sc :: r => with_scs s ({| sc_vars := {| v_name := n; v_used := false; v_pos := p |} :: remove_var n (sc_vars sc);
                              sc_ret := sc_ret sc; sc_retval := sc_retval sc; sc_loop := sc_loop sc |} :: r)
  end.

(* v.isUsed = true on the variable scope.get finds (innermost scope first) *)
Fixpoint mark_in (n : str) (l : list var) : list var :=
  match l with
  | [] => []
  | v :: r => if str_eqb (v_name v) n then {| v_name := v_name v; v_used := true; v_pos := v_pos v |} :: r
              else v :: mark_in n r
  end.
Fixpoint mark_scopes (n : str) (l : list scope) : list scope :=
  match l with
  | [] => []
  | sc :: r => if has_var n (sc_vars sc)
               then {| sc_vars := mark_in n (sc_vars sc); sc_ret := sc_ret sc; sc_retval := sc_retval sc; sc_loop := sc_loop sc |} :: r
               else sc :: mark_scopes n r
  end.
Definition mark (n : str) (s : pst) : pst := with_scs s (mark_scopes n (scs s)).

(* take over the reads logged by the expression parser *)
Definition collect (s : pst) (c : pstate) : pst :=
  let s1 := fold_right mark (with_cs s c) (used c) in
  upd (fun c => {| prev := prev c; rest := rest c; peek := peek c; wss := wss c; errs := errs c; used := [] |}) s1.

Definition push_scope (ret retval loop : bool) (s : pst) : pst :=
  with_scs s ({| sc_vars := []; sc_ret := ret; sc_retval := retval; sc_loop := loop |} :: scs s).
(* pushScopeWithNode: returnType is inherited *)
Definition push_inherit (loop : bool) (s : pst) : pst :=
  push_scope (match scs s with sc :: _ => sc_ret sc | [] => false end)
             (match scs s with sc :: _ => sc_retval sc | [] => false end) loop s.
Definition pop_scope (s : pst) : pst := with_scs s (tl (scs s)).
Definition in_loop (s : pst) : bool := existsb sc_loop (scs s).
Definition has_ret (s : pst) : bool := match scs s with sc :: _ => sc_ret sc | [] => false end.
Definition ret_value (s : pst) : bool := match scs s with sc :: _ => sc_retval sc | [] => false end.

(* validateScope: unused variables of the innermost scope, in source order *)
Fixpoint insert_by_pos (v : var) (l : list var) : list var :=
  match l with
  | [] => [v]
  | w :: r => if Nat.leb (v_pos w) (v_pos v) then v :: l else w :: insert_by_pos v r
  end.
Definition sort_by_pos (l : list var) : list var := fold_right insert_by_pos [] l.
Definition validate_scope (s : pst) : pst :=
  match scs s with
  | [] => s
  | sc :: _ =>
      fold_left (fun s v => serr_at K_unused (v_pos v) s)
                (sort_by_pos (filter (fun v => negb (v_used v)) (sc_vars sc))) s
  end.

Fixpoint lookup_fn (n : str) (l : list (str * finfo)) : option finfo :=
  match l with [] => None | (m, f) :: r => if str_eqb m n then Some f else lookup_fn n r end.
Fixpoint lookup_ev (n : str) (l : list (str * list ty)) : option (list ty) :=
  match l with [] => None | (m, f) :: r => if str_eqb m n then Some f else lookup_ev n r end.

Fixpoint ty_eqb (a b : ty) : bool :=
  match a, b with
  | TyNum, TyNum | TyStr, TyStr | TyBool, TyBool | TyAny, TyAny => true
  | TyArr x, TyArr y | TyMap x, TyMap y => ty_eqb x y
  | _, _ => false
  end.

Section WithBuiltins.
Variable B : benv.

(* the environment handed to the expression parser *)
Definition env_of (s : pst) : env :=
  {| e_funcs := map (fun nf => (fst nf, fi_nil (snd nf))) (fns s);
     e_vars := visible (scs s);
     e_arity := map (fun nf => (fst nf, fi_arity (snd nf))) (fns s);
     e_tyerr := b_tyerr B;
     e_fix_slice := true |}.

(* fuel that suffices for any expression at the cursor (ParserProofs.expr_fuel_suffices) *)
Definition efuel (c : pstate) : nat := 2 * here c + 10.

Definition expr_call {A} (f : env -> nat -> pstate -> res A) (s : pst) : PR A :=
  match f (env_of s) (efuel (cs s)) (cs s) with
  | None => Oof
  | Some (a, c) => Ok a (collect s c)
  end.

Definition p_toplevel : pst -> PR (option tree) :=
  expr_call (fun E f c => parse_toplevel E (parse_expr E f) f c).
Definition p_expr_list : pst -> PR (option (list tree)) :=
  expr_call (fun E f c => parse_expr_list (parse_expr E f) f [] c).
Definition p_func_call (niladic : bool) : pst -> PR (option tree) :=
  expr_call (fun E f c => parse_func_call E (parse_expr E f) f true niladic c).
Definition p_index (left : tree) : pst -> PR (option tree) :=
  expr_call (fun E f c => parse_index_or_slice E (parse_expr E f) f false left c).
Definition p_dot (left : tree) : pst -> PR (option tree) :=
  expr_call (fun E f c => parse_dot E left c).
Definition p_type : pst -> PR (option ty) :=
  expr_call (fun E f c => parse_type f c).

Definition tyerr_s (site : tsite) (t : tree) (blame : nat) : bool := b_tyerr B site t blame.
Definition ty_err_here (site : tsite) (s : pst) : pst := upd (add_err (E_type site)) s.

Definition is_func (n : str) (s : pst) : bool := match lookup_fn n (fns s) with Some _ => true | None => false end.

(* validateVarDecl *)
Definition validate_var_decl (n : str) (p : nat) (allow_underscore : bool) (s : pst) : bool * pst :=
  if mem_str n (b_globals B) then (false, serr_at K_redecl_builtin_var p s)
  else if in_local n s then (false, serr_at K_redecl p s)
  else if is_func n s then (false, serr_at K_decl_func_name p s)
  else if negb allow_underscore && str_eqb n (s_ "_") then (false, serr_at K_decl_underscore p s)
  else (true, s).

(* parseTypedDecl: name, declaration token, type (None = invalid, error reported) *)
Definition parse_typed_decl (s : pst) : PR (str * nat * option ty) :=
  let s0 := snd (passert T_IDENT s) in
  let name := tlit (cur (cs s0)) in
  let dpos := pos s0 in
  let s1 := adv (snd (passert T_COLON (adv s0))) in   (* the ':' is asserted since /repo 5fe5d4d (before: skipped unseen) *)
  pdo (t, s2) <- p_type s1;
  match t with
  | None => Ok (name, dpos, None) (serr_at K_invalid_type_decl dpos s2)
  | Some _ => Ok (name, dpos, t) s2
  end.

(* parseTypedDeclStatement *)
Definition parse_typed_decl_stmt (s : pst) : PR (option stmt) :=
  pdo (d, s1) <- parse_typed_decl s;
  let '(name, dpos, t) := d in
  let s3 := match t with
            | None => s1
            | Some _ => let '(ok, s2) := validate_var_decl name dpos false s1 in
                        if ok then assert_eol (scope_set name dpos s2) else s2
            end in
  Ok (Some (STypedDecl name t)) (apnl s3).

(* parseInferredDeclStatement; the deferred advancePastNL runs on every return *)
Definition parse_inferred_decl_stmt (s : pst) : PR (option stmt) :=
  let s0 := snd (passert T_IDENT s) in
  let name := tlit (cur (cs s0)) in
  let dpos := pos s0 in
  let s1 := adv (adv s0) in
  pdo (v, s2) <- p_toplevel s1;
  match v with
  | None => Ok None (apnl (serr K_invalid_inferred s2))
  | Some t =>
    if tyerr_s TS_decl_none t (pos s2) then Ok None (apnl (ty_err_here TS_decl_none s2)) else
    let '(ok, s3) := validate_var_decl name dpos false s2 in
    if ok then Ok (Some (SInferredDecl name t)) (apnl (assert_eol (scope_set name dpos s3)))
    else Ok None (apnl s3)
  end.

(* parseAssignmentTarget: the loop over "[" and "." *)
Fixpoint assign_target_loop (fuel : nat) (tok : nat) (n : tree) (s : pst) : PR (option tree) :=
  match fuel with
  | 0 => Oof
  | S f =>
    match ct s with
    | T_LBRACKET =>
        if tyerr_s TS_assign_string_index n tok then Ok None (upd (add_err_at (E_type TS_assign_string_index) tok) s) else
        pdo (r, s1) <- p_index n s;
        match r with None => Ok None s1 | Some n' => assign_target_loop f tok n' s1 end
    | T_DOT =>
        pdo (r, s1) <- p_dot n s;
        match r with None => Ok None s1 | Some n' => assign_target_loop f tok n' s1 end
    | _ => Ok (Some n) s
    end
  end.

(* parseAssignmentTarget *)
Definition parse_assign_target (s : pst) : PR (option tree) :=
  let tok := pos s in
  let name := tlit (cur (cs s)) in
  let s1 := adv s in
  if str_eqb name (s_ "_") then Ok None (serr_at K_assign_underscore tok s1)
  else if negb (scope_get name s1) then Ok None (serr_at K_unknown_var tok s1)
  else assign_target_loop (S (pos s1)) tok (TVar name) (mark name s1).

(* parseAssignmentStatement *)
Definition parse_assign_stmt (s : pst) : PR (option stmt) :=
  if is_func (tlit (cur (cs s))) s then Ok None (apnl (serr K_assign_to_func s)) else
  let tok := pos s in
  pdo (tg, s1) <- parse_assign_target s;
  match tg with
  | None => Ok None (apnl s1)
  | Some target =>
    let s2 := adv (snd (passert T_ASSIGN s1)) in
    pdo (v, s3) <- p_toplevel s2;
    match v with
    | None => Ok None (apnl s3)
    | Some value =>
      let s4 := if tyerr_s TS_assign_type (TBin T_ASSIGN target value) tok
                then upd (add_err_at (E_type TS_assign_type) tok) s3 else s3 in
      Ok (Some (SAssign target value)) (apnl (assert_eol s4))
    end
  end.

(* parseFunCallStatement; p.funcs[name] is dereferenced by parseFuncCall *)
Definition parse_call_stmt (s : pst) : PR (option stmt) :=
  match lookup_fn (tlit (cur (cs s))) (fns s) with
  | None => Crash "parseFuncCall: nil FuncDefStmt"
  | Some fi =>
    pdo (r, s1) <- p_func_call (fi_nil fi) s;
    match r with
    | None => Crash "parseFunCallStatement: type assertion on nil"
    | Some c => Ok (Some (SCallStmt c)) (apnl (assert_eol s1))
    end
  end.

(* parseReturnStatement *)
Definition parse_return_stmt (s : pst) : PR (option stmt) :=
  let s1 := adv s in
  let rv := pos s1 in
  let bare := is_at_eol (cs s1) in
  pdo (v, s2) <- (if bare then Ok None s1
                  else pdo (r, s2) <- p_toplevel s1;
                       match r with None => Ok None s2 | Some _ => Ok r (assert_eol s2) end);
  (* returnType.accepts(ret.T).  ret.T is NONE for a bare return: never accepted by a declared return
     type, always accepted by a procedure / handler (returnType NONE_TYPE); nil when the value
     expression failed: never accepted; otherwise it is a matter of typing *)
  let s3 := if negb (has_ret s2) then serr_at K_return_not_allowed rv s2
            else match v with
                 | None => if bare then (if ret_value s2 then serr_at K_bare_return rv s2 else s2)
                           else serr_at K_return_value_failed rv s2
                 | Some t => if tyerr_s TS_return_type t rv then upd (add_err_at (E_type TS_return_type) rv) s2 else s2
                 end in
  Ok (Some (SReturn v)) (apnl s3).

(* parseBreakStatement *)
Definition parse_break_stmt (s : pst) : PR (option stmt) :=
  let s1 := if in_loop s then s else serr K_break_not_in_loop s in
  Ok (Some SBreak) (apnl (assert_eol (adv s1))).

(* parseCondition *)
Definition parse_condition (s : pst) : PR (option tree) :=
  let tok := pos s in
  pdo (c, s1) <- p_toplevel s;
  match c with
  | None => Ok None s1
  | Some t =>
    let s2 := assert_eol s1 in
    Ok c (if tyerr_s TS_condition t tok then upd (add_err_at (E_type TS_condition) tok) s2 else s2)
  end.

(* the statement parser is open in [ps] = parseStatement at the fuel available to callees *)
Section Open.
Variable ps : pst -> PR (option stmt).

(* parseBlockWithEndTokens: the loop.  [els] = ELSE is an end token (parseIfBlock) *)
Fixpoint block_loop (fuel : nat) (els : bool) (acc : list stmt) (terms : bool) (s : pst) : PR block :=
  match fuel with
  | 0 => Oof
  | S f =>
    let at_end := match ct s with T_END | T_EOF => true | T_ELSE => els | _ => false end in
    if at_end then Ok (Block (rev acc) terms) s else
    let tok := pos s in
    pdo (r, s1) <- ps s;
    match r with
    | None => block_loop f els acc terms s1
    | Some st =>
      if terms && negb (is_empty_stmt st) then block_loop f els acc terms (serr_at K_unreachable tok s1)
      else block_loop f els (st :: acc) (terms || always_terms st) s1
    end
  end.

(* parseBlockWithEndTokens *)
Definition parse_block_with (fuel : nat) (els : bool) (s : pst) : PR block :=
  let btok := pos s in
  pdo (b, s1) <- block_loop fuel els [] false s;
  let s2 := match b with Block [] _ => serr_at K_empty_block btok s1 | _ => s1 end in
  Ok b (validate_scope s2).

(* "end" handling shared by func, on, for, while, if:
   p.assertEnd(); p.advance(); p.assertEOL(); p.recordComment(..); p.advancePastNL() *)
Definition finish_end (s : pst) : pst := apnl (assert_eol (adv (snd (passert T_END s)))).

(* parseForStatement; the deferred popScope runs on every return *)
Definition parse_for_stmt (fuel : nat) (s : pst) : PR (option stmt) :=
  let s1 := adv (push_inherit true s) in
  (* optional loop variable; None = rejected by validateVarDecl *)
  let lv : option (option str) * pst :=
    match ct s1 with
    | T_IDENT =>
        let name := tlit (cur (cs s1)) in
        let '(ok, s2) := validate_var_decl name (pos s1) false s1 in
        if ok then (Some (Some name), adv (snd (passert T_DECLARE (adv (scope_set name (pos s1) s2)))))
        else (None, s2)
    | _ => (Some None, s1)
    end in
  match lv with
  | (None, s2) => Ok None (pop_scope (apnl s2))
  | (Some v, s4) =>
    let '(ok, s5) := passert T_RANGE s4 in
    if negb ok then Ok None (pop_scope (apnl s5)) else
    let s6 := adv s5 in
    pdo (ns, s7) <- p_expr_list s6;
    let nodes := match ns with Some l => l | None => [] end in
    match nodes with
    | [] => Ok None (pop_scope (serr K_range_empty s7))
    | n :: more =>
      if (match more with [] => false | _ => true end) && tyerr_s TS_for_multi n (pos s7)
      then Ok None (pop_scope (ty_err_here TS_for_multi s7)) else
      let s8 := assert_eol s7 in
      let s9 := if tyerr_s TS_for_range_type (TCall [] nodes) (pos s8) then ty_err_here TS_for_range_type s8 else s8 in
      pdo (b, s10) <- parse_block_with fuel false (apnl s9);
      Ok (Some (SFor v nodes b)) (pop_scope (finish_end s10))
    end
  end.

(* parseWhileStatement *)
Definition parse_while_stmt (fuel : nat) (s : pst) : PR (option stmt) :=
  let s1 := push_inherit true (adv s) in
  pdo (c, s2) <- parse_condition s1;
  pdo (b, s3) <- parse_block_with fuel false (apnl s2);
  Ok (Some (SWhile c b)) (pop_scope (finish_end s3)).

(* parseIfConditionalBlock (with the pushScope / popScope around it) *)
Definition parse_if_cond_block (fuel : nat) (s : pst) : PR (option tree * block) :=
  let s1 := adv (push_inherit false s) in
  pdo (c, s2) <- parse_condition s1;
  pdo (b, s3) <- parse_block_with fuel true (apnl s2);
  Ok (c, b) (pop_scope s3).

(* parseIfStatement: the else-if loop *)
Fixpoint else_if_loop (fuel : nat) (bfuel : nat) (acc : list (option tree * block)) (s : pst)
  : PR (list (option tree * block)) :=
  match fuel with
  | 0 => Oof
  | S f =>
    match ct s, ttype (peek (cs s)) with
    | T_ELSE, T_IF =>
        pdo (cb, s1) <- parse_if_cond_block bfuel (adv s);
        else_if_loop f bfuel (cb :: acc) s1
    | _, _ => Ok (rev acc) s
    end
  end.

(* parseIfStatement *)
Definition parse_if_stmt (fuel : nat) (s : pst) : PR (option stmt) :=
  pdo (cb, s1) <- parse_if_cond_block fuel s;
  pdo (brs, s2) <- else_if_loop (S (pos s1)) fuel [cb] s1;
  pdo (els, s3) <- (match ct s2 with
                    | T_ELSE =>
                        let s3 := push_inherit false (apnl (assert_eol (adv s2))) in
                        pdo (b, s4) <- parse_block_with fuel false s3;
                        Ok (Some b) (pop_scope s4)
                    | _ => Ok None s2
                    end);
  Ok (Some (SIf brs els)) (finish_end s3).

(* parseEmptyStmt *)
Definition parse_empty_stmt (s : pst) : PR (option stmt) :=
  match ct s with
  | T_NL => Ok (Some SEmpty) (adv s)
  | T_COMMENT => Ok (Some SEmpty) (adv (adv s))
  | _ => Crash "internal error: parseEmptyStmt of invalid type"
  end.

(* parseStatement *)
Definition parse_statement_body (fuel : nat) (s : pst) : PR (option stmt) :=
  match ct s with
  | T_WS => Ok None (adv s)
  | T_NL | T_COMMENT => parse_empty_stmt s
  | T_IDENT =>
      match ttype (peek (cs s)) with
      | T_ASSIGN | T_DOT => parse_assign_stmt s
      | T_COLON => parse_typed_decl_stmt s
      | T_DECLARE => parse_inferred_decl_stmt s
      | pk =>
        if is_func (tlit (cur (cs s))) s then parse_call_stmt s
        else match pk with
             | T_LBRACKET => parse_assign_stmt s
             | _ => Ok None (apnl (serr K_unknown_function s))
             end
      end
  | T_RETURN => parse_return_stmt s
  | T_BREAK => parse_break_stmt s
  | T_FOR => parse_for_stmt fuel s
  | T_WHILE => parse_while_stmt fuel s
  | T_IF => parse_if_stmt fuel s
  | _ => Ok None (apnl (serr K_unexpected_input s))
  end.

End Open.

(* parseStatement; fuel bounds the nesting depth of blocks *)
Fixpoint parse_statement (fuel : nat) (s : pst) : PR (option stmt) :=
  match fuel with
  | 0 => Oof
  | S f => parse_statement_body (parse_statement f) f s
  end.

(* parseBlock at statement fuel [fuel] *)
Definition parse_block (fuel : nat) (s : pst) : PR block :=
  parse_block_with (parse_statement fuel) fuel false s.

(* addParamsToScope *)
Definition add_params (l : list (str * nat)) (s : pst) : pst :=
  fold_left (fun s np => scope_set (fst np) (snd np) (snd (validate_var_decl (fst np) (snd np) true s))) l s.

(* parseFunc *)
Definition parse_func (fuel : nat) (s : pst) : PR (option stmt) :=
  let s1 := adv s in
  let is_ident := match ct s1 with T_IDENT => true | _ => false end in
  let name := tlit (cur (cs s1)) in
  let s2 := apnl s1 in
  let fi := match (if is_ident then lookup_fn name (fns s2) else None) with
            | Some fi => fi
            | None => {| fi_nil := true; fi_ret := false; fi_arity := Some 0; fi_params := [] |}   (* placeholder *)
            end in
  let s3 := add_params (fi_params fi) (push_scope true (fi_ret fi) false s2) in
  pdo (b, s4) <- parse_block fuel s3;
  if negb is_ident then Ok None (pop_scope s4)
  else if mem_str name (bodies s4) then Ok None (pop_scope (serr K_redecl_func_body s4))
  else
    let s5 := if fi_ret fi && negb (block_terms b) then serr K_missing_return s4 else s4 in
    let s6 := finish_end s5 in
    Ok (Some (SFunc name (fi_ret fi) (map fst (fi_params fi)) b))
       (pop_scope {| cs := cs s6; scs := scs s6; fns := fns s6; bodies := name :: bodies s6; hds := hds s6 |}).

(* parseEventHandler: the parameter loop *)
Fixpoint on_params_loop (fuel : nat) (acc : list (str * nat * option ty)) (s : pst) : PR (list (str * nat * option ty)) :=
  match fuel with
  | 0 => Oof
  | S f =>
    if is_at_eol (cs s) then Ok (rev acc) s else
    pdo (d, s1) <- parse_typed_decl (snd (passert T_IDENT s));
    on_params_loop f (d :: acc) s1
  end.

(* addEventParamsToScope *)
Fixpoint add_event_params (ps : list (str * nat * option ty)) (ex : list ty) (s : pst) : pst :=
  match ps, ex with
  | (n, p, t) :: ps', e :: ex' =>
      let s1 := snd (validate_var_decl n p true s) in
      let s2 := match t with
                | Some t' => if ty_eqb t' e then s1 else serr K_event_param_type s1
                | None => s1
                end in
      add_event_params ps' ex' (scope_set n p s2)
  | _, _ => s
  end.

(* parseEventHandler *)
Definition parse_event_handler (fuel : nat) (s : pst) : PR (option stmt) :=
  let s1 := adv s in
  let '(ok, s2) := passert T_IDENT s1 in
  if negb ok then Ok None (apnl s2) else
  let name := tlit (cur (cs s2)) in
  let ev := lookup_ev name (b_events B) in
  let s3 := if mem_str name (hds s2) then serr K_redecl_on s2
            else match ev with
                 | None => serr K_unknown_event s2
                 | Some _ => {| cs := cs s2; scs := scs s2; fns := fns s2; bodies := bodies s2; hds := name :: hds s2 |}
                 end in
  pdo (params, s4) <- on_params_loop (S (pos s3)) [] (adv s3);
  let s5 := push_scope true false false (apnl s4) in
  let s6 := match params, ev with
            | _ :: _, Some ex =>
                let s' := if Nat.eqb (List.length params) (List.length ex) then s5 else serr K_event_param_count s5 in
                add_event_params params ex s'
            | _, _ => s5
            end in
  pdo (b, s7) <- parse_block fuel s6;
  Ok (Some (SOn name (map (fun d => fst (fst d)) params) b)) (pop_scope (finish_end s7)).

(* parseProgram: the statement loop *)
Fixpoint program_loop (fuel : nat) (acc : list stmt) (terms : bool) (s : pst) : PR (list stmt) :=
  match fuel with
  | 0 => Oof
  | S f =>
    match ct s with
    | T_EOF => Ok (rev acc) s
    | T_FUNC =>
        pdo (r, s1) <- parse_func f s;
        program_loop f (match r with Some st => st :: acc | None => acc end) terms s1
    | T_ON =>
        pdo (r, s1) <- parse_event_handler f s;
        program_loop f (match r with Some st => st :: acc | None => acc end) terms s1
    | _ =>
        let tok := pos s in
        pdo (r, s1) <- parse_statement f s;
        match r with
        | None => program_loop f acc terms s1
        | Some st =>
          if terms then program_loop f acc terms (serr_at K_unreachable tok s1)
          else program_loop f (st :: acc) (always_terms st) s1
        end
    end
  end.

(* ---------- newParser: the function-signature pre-pass ---------- *)

(* the parameter loop of parseFuncDefSignature *)
Fixpoint sig_params_loop (fuel : nat) (acc : list (str * nat)) (s : pst) : PR (list (str * nat)) :=
  match fuel with
  | 0 => Oof
  | S f =>
    if is_at_eol (cs s) || (match ct s with T_DOT3 => true | _ => false end) then Ok (rev acc) s else
    pdo (d, s1) <- parse_typed_decl (snd (passert T_IDENT s));
    let '(n, p, _) := d in
    sig_params_loop f ((n, p) :: acc) s1
  end.

(* parseFuncDefSignature: None = returned nil *)
Definition parse_func_def_signature (s : pst) : PR (option (str * finfo)) :=
  let s1 := adv s in
  let '(ok, s2) := passert T_IDENT s1 in
  if negb ok then Ok None (apnl s2) else
  let name := tlit (cur (cs s2)) in
  let s3 := adv s2 in
  pdo (ret, s4) <- (match ct s3 with
                    | T_COLON =>
                        let s4 := adv s3 in
                        let tok := pos s4 in
                        pdo (t, s5) <- p_type s4;
                        Ok true (match t with None => serr_at K_invalid_return_type tok s5 | Some _ => s5 end)
                    | _ => Ok false s3
                    end);
  pdo (params, s5) <- sig_params_loop (S (pos s4)) [] s4;
  let variadic := match ct s5 with T_DOT3 => Nat.eqb (List.length params) 1 | _ => false end in
  let s6 := match ct s5 with
            | T_DOT3 =>
                let s' := adv s5 in
                if Nat.eqb (List.length params) 1 then s' else serr K_variadic_with_others s'
            | _ => s5
            end in
  Ok (Some (name, {| fi_nil := match params with [] => true | _ => false end; fi_ret := ret;
                     fi_arity := if variadic then None else Some (List.length params); fi_params := params |}))
     (apnl (assert_eol s6)).

(* advanceTo(i) *)
Definition state_at (pv : token) (toks : list token) (es : list (perr * nat)) : pstate :=
  {| prev := pv; rest := toks;
     peek := if is_ws (look1 toks) then look2 toks else look1 toks;
     wss := [false]; errs := es; used := [] |}.

(* parseFuncSignatures: one step, for the FUNC token at the head of [toks] *)
Definition signature_step (pv : token) (toks : list token) (s : pst) : PR unit :=
  let s0 := with_cs s (state_at pv toks (errs (cs s))) in
  let ftok := pos s0 in
  pdo (r, s1) <- parse_func_def_signature s0;
  match r with
  | None => Ok tt s1
  | Some (name, fi) =>
    let s2 := if mem_str name (b_globals B) then serr_at K_override_builtin_var ftok s1 else s1 in
    let s3 := match lookup_fn name (map (fun nb => (fst nb, {| fi_nil := snd nb; fi_ret := false; fi_arity := None; fi_params := [] |})) (b_funcs B)) with
              | Some _ => serr_at K_override_builtin_func ftok s2
              | None => if is_func name s2 then serr_at K_redecl_func ftok s2 else s2
              end in
    Ok tt {| cs := cs s3; scs := scs s3; fns := (name, fi) :: fns s3; bodies := bodies s3; hds := hds s3 |}
  end.

Fixpoint signatures (pv : token) (toks : list token) (s : pst) : PR unit :=
  match toks with
  | [] => Ok tt s
  | t :: r =>
    match ttype t with
    | T_FUNC => pdo (u, s1) <- signature_step pv toks s; signatures t r s1
    | _ => signatures t r s
    end
  end.

End WithBuiltins.

(* ---------- Parse ---------- *)
Definition position := (nat * nat)%type.     (* line, column *)

Inductive outcome :=
| Accept (p : list stmt)
| Reject (errors : list position)      (* in the order Go reports them *)
| CrashOut (why : string)
| OutOfFuel.

(* consumeTokens: ILLEGAL tokens are reported and dropped *)
Definition is_illegal (t : token) : bool := match ttype t with T_ILLEGAL => true | _ => false end.

(* position of the token that has [n] tokens after it (0 = EOF) *)
Definition locate (poss : list position) (eof : position) (n : nat) : position :=
  nth (List.length poss - n) poss eof.

Definition fuel_of (toks : list token) : nat := 2 * List.length toks + 10.

(* [raw]: the tokens of the lexer up to but excluding EOF, each with its position; [eof]: position of EOF *)
Definition parse (B : benv) (raw : list (token * position)) (eof : position) : outcome :=
  let illegal := map snd (filter (fun tp => is_illegal (fst tp)) raw) in
  let good := filter (fun tp => negb (is_illegal (fst tp))) raw in
  let toks := map fst good in
  let poss := map snd good in
  (* the token blamed for a wrong argument count (arg.Token()) is not mirrored: reported as (0, 0) *)
  let loc := fun e : perr * nat => match fst e with E_arity => (0, 0) | _ => locate poss eof (snd e) end in
  let s0 := {| cs := state_at tEOF toks [];
               scs := [];
               fns := map (fun nb => (fst nb, {| fi_nil := snd nb; fi_ret := true;
                                                fi_arity := match lookup_arity (fst nb) (b_arity B) with Some a => a | None => None end;
                                                fi_params := [] |})) (b_funcs B);
               bodies := []; hds := [] |} in
  match signatures B tEOF toks s0 with
  | Crash w => CrashOut w
  | Oof => OutOfFuel
  | Ok _ s1 =>
    match illegal ++ map loc (rev (errs (cs s1))) with
    | (_ :: _) as es => Reject es                      (* Parse: errors of newParser end the parse *)
    | [] =>
      let globals := {| sc_vars := map (fun n => {| v_name := n; v_used := true; v_pos := 0 |}) (b_globals B);
                        sc_ret := false; sc_retval := false; sc_loop := false |} in
      let s2 := {| cs := state_at tEOF toks []; scs := [globals]; fns := fns s1; bodies := []; hds := [] |} in
      match program_loop B (fuel_of toks) [] false s2 with
      | Crash w => CrashOut w
      | Oof => OutOfFuel
      | Ok prog s3 =>
        let s4 := validate_scope s3 in
        match map loc (rev (errs (cs s4))) with
        | [] => Accept prog
        | es => Reject es
        end
      end
    end
  end.

(* ---------- the premise of the scoping theorem (ParserScope.v) ---------- *)
(* every `func` keyword at which the statement loop arrives is followed by an identifier *)
Fixpoint loop_named (B : benv) (fuel : nat) (terms : bool) (s : pst) : bool :=
  match fuel with
  | 0 => true
  | S f =>
    match ct s with
    | T_EOF => true
    | T_FUNC => (match ct (adv s) with T_IDENT => true | _ => false end) &&
                match parse_func B f s with Ok _ s1 => loop_named B f terms s1 | _ => true end
    | T_ON => match parse_event_handler B f s with Ok _ s1 => loop_named B f terms s1 | _ => true end
    | _ => match parse_statement B f s with
           | Ok None s1 => loop_named B f terms s1
           | Ok (Some st) s1 => if terms then true else loop_named B f (always_terms st) s1
           | _ => true
           end
    end
  end.

Definition legal_toks (raw : list (token * position)) : list token :=
  map fst (filter (fun tp => negb (is_illegal (fst tp))) raw).
(* the parser as newParser creates it: the builtin functions *)
Definition newparser_state (B : benv) (toks : list token) : pst :=
  {| cs := state_at tEOF toks []; scs := [];
     fns := map (fun nb => (fst nb, {| fi_nil := snd nb; fi_ret := true;
                                      fi_arity := match lookup_arity (fst nb) (b_arity B) with Some a => a | None => None end;
                                      fi_params := [] |})) (b_funcs B);
     bodies := []; hds := [] |}.
(* the function table after the signature pre-pass (parseFuncSignatures): builtins and one entry per `func` signature *)
Definition fn_table (B : benv) (raw : list (token * position)) : list (str * finfo) :=
  match signatures B tEOF (legal_toks raw) (newparser_state B (legal_toks raw)) with Ok _ s1 => fns s1 | _ => [] end.
Definition globals_scope (B : benv) : scope :=
  {| sc_vars := map (fun n => {| v_name := n; v_used := true; v_pos := 0 |}) (b_globals B);
     sc_ret := false; sc_retval := false; sc_loop := false |}.
Definition loop_start_state (B : benv) (raw : list (token * position)) : pst :=
  {| cs := state_at tEOF (legal_toks raw) []; scs := [globals_scope B]; fns := fn_table B raw; bodies := []; hds := [] |}.
(* the statement loop of this parse never arrives at a `func` keyword that is not followed by an identifier *)
Definition funcs_named (B : benv) (raw : list (token * position)) : bool :=
  loop_named B (fuel_of (legal_toks raw)) false (loop_start_state B raw).


(* ---------- wire format ---------- *)
Definition decode_pos_token (x : sx) : option (token * position) :=
  match x with
  | Lst [Sym n; Str l; Int line; Int col] =>
      match toktype_of_name n with
      | Some t => Some ({| ttype := t; tlit := l |}, (Z.to_nat line, Z.to_nat col))
      | None => None
      end
  | _ => None
  end.

Fixpoint decode_ty (fuel : nat) (x : sx) : option ty :=
  match fuel with
  | 0 => None
  | S f =>
    match x with
    | Sym _ => if sym_is x "num" then Some TyNum else if sym_is x "string" then Some TyStr
               else if sym_is x "bool" then Some TyBool else if sym_is x "any" then Some TyAny else None
    | Lst [k; sub] =>
        match decode_ty f sub with
        | Some t => if sym_is k "arr" then Some (TyArr t) else if sym_is k "map" then Some (TyMap t) else None
        | None => None
        end
    | _ => None
    end
  end.

Definition decode_event (x : sx) : option (str * list ty) :=
  match x with
  | Lst [Str n; Lst tys] => match decode_list (decode_ty 20) tys with Some l => Some (n, l) | None => None end
  | _ => None
  end.

Definition pos_sx (p : position) : sx := Lst [sx_nat (fst p); sx_nat (snd p)].

Definition decode_func_ar (x : sx) : option (str * bool * option nat) :=
  match x with
  | Lst [Str n; b; Int a] => Some (n, sym_is b "true", Some (Z.to_nat a))
  | Lst [Str n; b; Sym _] => Some (n, sym_is b "true", None)
  | _ => None
  end.

Definition tsite_name (s : tsite) : string :=
  match s with
  | TS_unary => "unary" | TS_binary => "binary" | TS_not_indexable => "not_indexable" | TS_index_type => "index_type"
  | TS_not_sliceable => "not_sliceable" | TS_slice_bounds => "slice_bounds" | TS_dot_not_map => "dot_not_map"
  | TS_assert_not_any => "assert_not_any" | TS_array_elem_none => "array_elem_none" | TS_map_value_none => "map_value_none"
  | TS_call_args => "call_args" | TS_assign_string_index => "assign_string_index" | TS_assign_type => "assign_type"
  | TS_decl_none => "decl_none" | TS_return_type => "return_type" | TS_for_multi => "for_multi"
  | TS_for_range_type => "for_range_type" | TS_condition => "condition" | TS_event_param => "event_param"
  end.

Definition decode_tyerr (x : sx) : option (str * nat) :=
  match x with
  | Lst [Sym n; Int p] => Some (n, Z.to_nat p)
  | _ => None
  end.

(* case: (((fname niladic nparams|variadic) ...) (global ...) ((event (ty ...)) ...) ((TYPE "lit" line col) ...) (eofline eofcol)
          ((site blamed-token) ...))
   The last component is the typing oracle: the typing errors the real type checker reported, each as
   its site and the token it blames (tokens left); the oracle objects exactly there.
   answer: (accept) | (reject (line col) ...) | (crash) | (oof); a wrong argument count is reported as (0 0);
   (accept-but-funcs-named-false): accepted, but the premise of C05_scope_accept_scoped_partial does not hold on this run *)
Definition parser_case (x : sx) : sx :=
  match x with
  | Lst [Lst fs; Lst gs; Lst evs; Lst ts; Lst [Int el; Int ec]; Lst tes] =>
    match decode_list decode_func_ar fs, decode_list decode_str gs, decode_list decode_event evs,
          decode_list decode_pos_token ts, decode_list decode_tyerr tes with
    | Some funcs, Some globals, Some events, Some raw, Some tyerrs =>
      let oracle := fun (site : tsite) (_ : tree) (n : nat) =>
        existsb (fun e => str_eqb (fst e) (s_ (tsite_name site)) && Nat.eqb (snd e) n) tyerrs in
      let B := {| b_funcs := map (fun x => (fst (fst x), snd (fst x))) funcs; b_arity := map (fun x => (fst (fst x), snd x)) funcs;
                  b_globals := globals; b_events := events; b_tyerr := oracle |} in
      match parse B raw (Z.to_nat el, Z.to_nat ec) with
      | Accept _ => if funcs_named B raw then Lst [Sym (s_ "accept")] else Lst [Sym (s_ "accept-but-funcs-named-false")]
      | Reject es => Lst (Sym (s_ "reject") :: map pos_sx es)
      | CrashOut _ => Lst [Sym (s_ "crash")]
      | OutOfFuel => Lst [Sym (s_ "oof")]
      end
    | _, _, _, _, _ => Sym (s_ "bad-case")
    end
  | _ => Sym (s_ "bad-case")
  end.
