(* ParserTypedProofs.v — lemmas about ParserTyped.v (the parser model with the concrete typing oracle). *)
From Coq Require Import List String NArith ZArith Bool Arith Lia.
From EvyV Require Import Base Pratt Parser ParserProofs ParserRules ParserScope ParserTyped.
From EvyV Require TypesSyntax Types TypesSpec TypesProofs.
From EvyV.Gen Require Import Prec TypeNames.
Import ListNotations.
Local Open Scope nat_scope.

(* ---------- (a) the theorems of Parser.v that hold for every oracle, at the concrete one ---------- *)
Theorem typed_parse_total Bs globals bsigs raw eof :
  (exists prog, typed_parse Bs globals bsigs raw eof = Accept prog) \/
  (exists e es, typed_parse Bs globals bsigs raw eof = Reject (e :: es)).
Proof. unfold typed_parse. apply parse_total. Qed.

Theorem typed_parse_errors_located Bs globals bsigs raw eof es :
  typed_parse Bs globals bsigs raw eof = Reject es -> forall p, In p es -> In p (eof :: map snd raw) \/ p = (0, 0).
Proof. unfold typed_parse. apply errors_located. Qed.

Theorem typed_accept_structure Bs globals bsigs raw eof p :
  typed_parse Bs globals bsigs raw eof = Accept p -> structure_ok p = true.
Proof. unfold typed_parse. apply accept_structure. Qed.

(* the answer given on the wire is the verdict of Parser.parse with the concrete oracle *)
Lemma pos_list_eqb_eq a : forall b, pos_list_eqb a b = true -> a = b.
Proof.
  induction a as [|[x1 y1] a IH]; intros [|[x2 y2] b]; simpl; try discriminate; auto.
  intro H. apply andb_true_iff in H. destruct H as [H H3]. apply andb_true_iff in H. destruct H as [H1 H2].
  apply Nat.eqb_eq in H1. apply Nat.eqb_eq in H2. subst. f_equal. auto.
Qed.

Theorem typed_answer_accept Bs globals bsigs raw eof :
  typed_answer Bs globals bsigs raw eof = A_accept -> exists p, typed_parse Bs globals bsigs raw eof = Accept p.
Proof.
  unfold typed_answer.
  destruct (negb _); [discriminate|].
  destruct (tparse Bs globals bsigs false raw); destruct (typed_parse Bs globals bsigs raw eof) eqn:E; try discriminate.
  - eauto.
  - destruct (pos_list_eqb _ _); discriminate.
Qed.

Theorem typed_answer_reject Bs globals bsigs raw eof es :
  typed_answer Bs globals bsigs raw eof = A_reject es ->
  exists ps, typed_parse Bs globals bsigs raw eof = Reject ps /\ List.length ps = List.length es.
Proof.
  unfold typed_answer.
  destruct (negb _); [discriminate|].
  destruct (tparse Bs globals bsigs false raw) as [|ill tes steps| |]; destruct (typed_parse Bs globals bsigs raw eof) as [p|ps|w|] eqn:E; try discriminate.
  destruct (pos_list_eqb _ _) eqn:Q; [|discriminate].
  intro H. injection H as H. subst es. apply pos_list_eqb_eq in Q. subst ps.
  eexists. split; [reflexivity|].
  unfold plain_positions. rewrite !app_length, !map_length. reflexivity.
Qed.

(* ---------- (b) the concrete oracle against Types.v / TypesSpec.v ---------- *)
(* where the oracle answers, the default is irrelevant *)
Lemma coracle_defined d G rho site t n b : oracle3 G rho site t = Some b -> coracle d G rho site t n = b.
Proof. unfold coracle. intros ->. reflexivity. Qed.

(* operator tables: the oracle does not object exactly when Types.validate_binary / validate_unary hold of the operand
   types, and then the operands are related by the specification's operator table (TypesSpec.OpType / UnOpType) *)
Theorem oracle_binary_sound G rho op l r :
  oracle3 G rho TS_binary (TBin op l r) = Some false ->
  exists o lt rt, binop_of op = Some o /\ ty_of G l = Some lt /\ ty_of G r = Some rt /\
    Types.validate_binary o lt rt = true /\
    (TypesProofs.spec_ty lt = true -> TypesProofs.spec_ty rt = true ->
       exists res, TypesSpec.OpType o (TypesProofs.erase lt) (TypesProofs.erase rt) res).
Proof.
  simpl. destruct (ty_of G l) as [lt|]; [|discriminate]. destruct (ty_of G r) as [rt|]; [|discriminate]. simpl.
  destruct (binop_of op) as [o|]; [|discriminate].
  intro H. injection H as H. apply negb_false_iff in H.
  exists o, lt, rt. repeat split; auto.
  intros S1 S2. apply (TypesProofs.binop_accept_iff o lt rt S1 S2). exact H.
Qed.

Theorem oracle_binary_complete G rho op l r o lt rt :
  binop_of op = Some o -> ty_of G l = Some lt -> ty_of G r = Some rt ->
  oracle3 G rho TS_binary (TBin op l r) = Some (negb (Types.validate_binary o lt rt)).
Proof. intros H1 H2 H3. simpl. rewrite H2, H3. simpl. rewrite H1. reflexivity. Qed.

Theorem oracle_unary_sound G rho op r :
  oracle3 G rho TS_unary (TUn op r) = Some false ->
  exists o rt, unop_of op = Some o /\ ty_of G r = Some rt /\ Types.validate_unary o rt = true /\
    (TypesProofs.spec_ty rt = true -> TypesSpec.UnOpType o (TypesProofs.erase rt) (TypesProofs.erase rt)).
Proof.
  simpl. destruct (ty_of G r) as [rt|]; [|discriminate]. simpl.
  destruct (unop_of op) as [o|]; [|discriminate].
  intro H. injection H as H. apply negb_false_iff in H.
  exists o, rt. repeat split; auto.
  intros S1. apply (TypesProofs.unop_type_table o rt S1). exact H.
Qed.

(* a tree at which the binary / unary site does not object has a node (parseBinaryExpr does not return nil) *)
Theorem oracle_binary_node G rho op l r :
  oracle3 G rho TS_binary (TBin op l r) = Some false -> exists n e, tc_tree G (TBin op l r) = Types.ONode n e.
Proof.
  simpl. unfold ty_of.
  destruct (tc_tree G l) as [ln le| |]; try discriminate.
  destruct (tc_tree G r) as [rn re| |]; try discriminate. simpl.
  destruct (binop_of op) as [o|]; [|discriminate].
  intro H. injection H as H. apply negb_false_iff in H. rewrite H. eauto.
Qed.

(* ---------- tc_tree is Types.tc ---------- *)
(* a nested induction principle for Pratt trees *)
Section TreeInd.
Variable P : tree -> Prop.
Hypothesis HVar : forall n, P (TVar n).
Hypothesis HNum : forall l, P (TNum l).
Hypothesis HStr : forall l, P (TStr l).
Hypothesis HBool : forall b, P (TBool b).
Hypothesis HArr : forall l, Forall P l -> P (TArr l).
Hypothesis HMap : forall l, Forall (fun kv => P (snd kv)) l -> P (TMap l).
Hypothesis HUn : forall o r, P r -> P (TUn o r).
Hypothesis HBin : forall o l r, P l -> P r -> P (TBin o l r).
Hypothesis HGroup : forall e, P e -> P (TGroup e).
Hypothesis HIndex : forall l i, P l -> P i -> P (TIndex l i).
Hypothesis HSlice : forall l s e, P l -> (forall x, s = Some x -> P x) -> (forall x, e = Some x -> P x) -> P (TSlice l s e).
Hypothesis HDot : forall l k, P l -> P (TDot l k).
Hypothesis HAssert : forall l t, P l -> P (TAssert l t).
Hypothesis HCall : forall n a, Forall P a -> P (TCall n a).

Fixpoint tree_ind' (t : tree) : P t :=
  match t with
  | TVar n => HVar n
  | TNum l => HNum l
  | TStr l => HStr l
  | TBool b => HBool b
  | TArr l => HArr l ((fix go (l : list tree) : Forall P l :=
                         match l with [] => Forall_nil _ | x :: r => Forall_cons _ (tree_ind' x) (go r) end) l)
  | TMap l => HMap l ((fix go (l : list (str * tree)) : Forall (fun kv => P (snd kv)) l :=
                         match l with [] => Forall_nil _ | x :: r => Forall_cons _ (tree_ind' (snd x)) (go r) end) l)
  | TUn o r => HUn o r (tree_ind' r)
  | TBin o l r => HBin o l r (tree_ind' l) (tree_ind' r)
  | TGroup e => HGroup e (tree_ind' e)
  | TIndex l i => HIndex l i (tree_ind' l) (tree_ind' i)
  | TSlice l s e =>
      HSlice l s e (tree_ind' l)
        (match s return forall x, s = Some x -> P x with
         | Some y => fun x H => match H in _ = o return match o with Some z => P z | None => True end with eq_refl => tree_ind' y end
         | None => fun x H => match H in _ = o return match o with Some z => P z | None => True end with eq_refl => I end
         end)
        (match e return forall x, e = Some x -> P x with
         | Some y => fun x H => match H in _ = o return match o with Some z => P z | None => True end with eq_refl => tree_ind' y end
         | None => fun x H => match H in _ = o return match o with Some z => P z | None => True end with eq_refl => I end
         end)
  | TDot l k => HDot l k (tree_ind' l)
  | TAssert l t => HAssert l t (tree_ind' l)
  | TCall n a => HCall n a ((fix go (l : list tree) : Forall P l :=
                               match l with [] => Forall_nil _ | x :: r => Forall_cons _ (tree_ind' x) (go r) end) a)
  end.
End TreeInd.

(* the source type a *Type is the fixedType(parseType) image of *)
Fixpoint unembed (t : Types.ty) : option TypesSyntax.sty :=
  match t with
  | Types.TNum => Some TypesSyntax.SNum | Types.TString => Some TypesSyntax.SString
  | Types.TBool => Some TypesSyntax.SBool | Types.TAny => Some TypesSyntax.SAny
  | Types.TArr false s => option_map TypesSyntax.SArr (unembed s)
  | Types.TMap false s => option_map TypesSyntax.SMap (unembed s)
  | Types.TEmptyArr => Some TypesSyntax.SEmptyArr | Types.TEmptyMap => Some TypesSyntax.SEmptyMap
  | _ => None
  end.

Lemma unembed_embed t : forall s, unembed t = Some s -> Types.embed s = t.
Proof.
  induction t; intros s0 H; simpl in H; try (injection H as <-; reflexivity); try discriminate.
  - destruct fx; [discriminate|]. destruct (unembed t) as [u|]; [|discriminate]. injection H as <-. simpl. rewrite (IHt u); auto.
  - destruct fx; [discriminate|]. destruct (unembed t) as [u|]; [|discriminate]. injection H as <-. simpl. rewrite (IHt u); auto.
Qed.

Definition unfix (t : Types.ty) : option Types.ty :=
  match t with
  | Types.TArr true s => Some (Types.TArr false s)
  | Types.TMap true s => Some (Types.TMap false s)
  | Types.TArr false _ | Types.TMap false _ => None
  | _ => Some t
  end.

Lemma unfix_fixed t u : unfix t = Some u -> Types.fixed_type u = t.
Proof. destruct t as [| | | | |[] s|[] s| | | |]; simpl; intro H; try discriminate; injection H as <-; reflexivity. Qed.

Definition source_of (t : Types.ty) : option TypesSyntax.sty :=
  match unfix t with Some u => unembed u | None => None end.

Lemma source_of_ok t s : source_of t = Some s -> Types.fixed_type (Types.embed s) = t.
Proof.
  unfold source_of. destruct (unfix t) as [u|] eqn:U; [|discriminate].
  intro H. apply unembed_embed in H. rewrite H. apply unfix_fixed. exact U.
Qed.

Fixpoint sty_of (t : Pratt.ty) : TypesSyntax.sty :=
  match t with
  | TyNum => TypesSyntax.SNum | TyStr => TypesSyntax.SString | TyBool => TypesSyntax.SBool | TyAny => TypesSyntax.SAny
  | TyArr s => TypesSyntax.SArr (sty_of s) | TyMap s => TypesSyntax.SMap (sty_of s)
  end.
Lemma embed_sty_of t : Types.embed (sty_of t) = conv t.
Proof. induction t; simpl; congruence. Qed.

Definition omap {A B} (f : A -> option B) : list A -> option (list B) :=
  fix go (l : list A) : option (list B) :=
    match l with
    | [] => Some []
    | x :: r => match f x, go r with Some y, Some r' => Some (y :: r') | _, _ => None end
    end.

(* the expression of TypesSyntax a tree stands for: variables and calls are replaced by their (source) types;
   None when a type is not the image of a source type (a procedure call; an inferred array of array variables) *)
Fixpoint erase_tree (G : tenv) (t : tree) : option TypesSyntax.expr :=
  match t with
  | TNum _ => Some TypesSyntax.ELitNum
  | TStr _ => Some TypesSyntax.ELitStr
  | TBool _ => Some TypesSyntax.ELitBool
  | TVar n => match tlookup n (te_vars G) with Some ty => option_map TypesSyntax.EVar (source_of ty) | None => None end
  | TCall n _ => match assoc n (te_sigs G) with Some sg => option_map TypesSyntax.ECall (unembed (fs_ret sg)) | None => None end
  | TArr els => option_map TypesSyntax.EArr (omap (erase_tree G) els)
  | TMap ps => option_map TypesSyntax.EMap (omap (fun kv => erase_tree G (snd kv)) ps)
  | TBin op l r => match binop_of op, erase_tree G l, erase_tree G r with
                   | Some o, Some a, Some b => Some (TypesSyntax.EBin o a b)
                   | _, _, _ => None
                   end
  | TUn op r => match unop_of op, erase_tree G r with
                | Some o, Some a => Some (TypesSyntax.EUn o a)
                | _, _ => None
                end
  | TGroup g => option_map TypesSyntax.EGroup (erase_tree G g)
  | TIndex l i => match erase_tree G l, erase_tree G i with
                  | Some a, Some b => Some (TypesSyntax.EIndex a b)
                  | _, _ => None
                  end
  | TSlice l s e =>
      match erase_tree G l,
            match s with None => Some None | Some x => option_map Some (erase_tree G x) end,
            match e with None => Some None | Some x => option_map Some (erase_tree G x) end with
      | Some a, Some b, Some c => Some (TypesSyntax.ESlice a b c)
      | _, _, _ => None
      end
  | TDot l _ => option_map TypesSyntax.EDot (erase_tree G l)
  | TAssert a (Some t) => option_map (fun x => TypesSyntax.EAssert x (sty_of t)) (erase_tree G a)
  | TAssert _ None => None
  end.

Lemma omap_map {A} (f : A -> option TypesSyntax.expr) (g : A -> Types.outcome) l :
  Forall (fun x => forall e, f x = Some e -> g x = Types.tc e) l ->
  forall es, omap f l = Some es -> map g l = map Types.tc es.
Proof.
  induction 1 as [|x r Hx Hr IH]; intros es H; simpl in H.
  - injection H as <-. reflexivity.
  - destruct (f x) as [y|] eqn:Fx; [|discriminate]. destruct (omap f r) as [r'|]; [|discriminate].
    injection H as <-. simpl. rewrite (Hx y eq_refl), (IH r' eq_refl). reflexivity.
Qed.

(* on the trees that stand for an expression of TypesSyntax, the concrete oracle's typing function IS the
   implementation model of C04 (Types.tc, compared with the exported Go functions and proved against TypesSpec) *)
Theorem tc_tree_erase G t : forall e, erase_tree G t = Some e -> tc_tree G t = Types.tc e.
Proof.
  induction t using tree_ind'; intros e0 HE; simpl in HE.
  - (* TVar *) simpl. destruct (tlookup n (te_vars G)) as [ty|]; [|discriminate].
    destruct (source_of ty) as [s|] eqn:S; [|discriminate]. injection HE as <-. simpl. rewrite (source_of_ok _ _ S). reflexivity.
  - injection HE as <-. reflexivity.
  - injection HE as <-. reflexivity.
  - injection HE as <-. reflexivity.
  - (* TArr *) destruct (omap (erase_tree G) l) as [es|] eqn:O; [|discriminate]. injection HE as <-.
    simpl. rewrite (omap_map _ _ l H es O). reflexivity.
  - (* TMap *) destruct (omap (fun kv => erase_tree G (snd kv)) l) as [es|] eqn:O; [|discriminate]. injection HE as <-.
    simpl. rewrite (omap_map (fun kv => erase_tree G (snd kv)) (fun kv => tc_tree G (snd kv)) l H es O). reflexivity.
  - (* TUn *) destruct (unop_of o) as [u|] eqn:U; [|discriminate]. destruct (erase_tree G t) as [a|]; [|discriminate].
    injection HE as <-. simpl. rewrite U, (IHt a eq_refl). reflexivity.
  - (* TBin *) destruct (binop_of o) as [b|] eqn:U; [|discriminate].
    destruct (erase_tree G t1) as [a1|]; [|discriminate]. destruct (erase_tree G t2) as [a2|]; [|discriminate].
    injection HE as <-. simpl. rewrite U, (IHt1 a1 eq_refl), (IHt2 a2 eq_refl). reflexivity.
  - (* TGroup *) destruct (erase_tree G t) as [a|]; [|discriminate]. injection HE as <-. simpl. rewrite (IHt a eq_refl). reflexivity.
  - (* TIndex *) destruct (erase_tree G t1) as [a1|]; [|discriminate]. destruct (erase_tree G t2) as [a2|]; [|discriminate].
    injection HE as <-. simpl. rewrite (IHt1 a1 eq_refl), (IHt2 a2 eq_refl). reflexivity.
  - (* TSlice *) destruct (erase_tree G t) as [a|]; [|discriminate].
    destruct s as [sx|]; destruct e as [ex|]; simpl in HE.
    + destruct (erase_tree G sx) as [b|] eqn:B; [|discriminate]. destruct (erase_tree G ex) as [c|] eqn:C; [|discriminate].
      injection HE as <-. simpl. rewrite (IHt a eq_refl), (H sx eq_refl b B), (H0 ex eq_refl c C). reflexivity.
    + destruct (erase_tree G sx) as [b|] eqn:B; [|discriminate].
      injection HE as <-. simpl. rewrite (IHt a eq_refl), (H sx eq_refl b B). reflexivity.
    + destruct (erase_tree G ex) as [c|] eqn:C; [|discriminate].
      injection HE as <-. simpl. rewrite (IHt a eq_refl), (H0 ex eq_refl c C). reflexivity.
    + injection HE as <-. simpl. rewrite (IHt a eq_refl). reflexivity.
  - (* TDot *) destruct (erase_tree G t) as [a|]; [|discriminate]. injection HE as <-. simpl. rewrite (IHt a eq_refl). reflexivity.
  - (* TAssert *) destruct t0 as [ty|]; [|discriminate]. destruct (erase_tree G t) as [a|]; [|discriminate].
    injection HE as <-. simpl. rewrite (IHt a eq_refl), embed_sty_of. reflexivity.
  - (* TCall *) simpl. destruct (assoc n (te_sigs G)) as [sg|]; [|discriminate].
    destruct (unembed (fs_ret sg)) as [s|] eqn:S; [|discriminate]. injection HE as <-. simpl. rewrite (unembed_embed _ _ S). reflexivity.
Qed.

(* ---------- the typed run: a simple statement parsed without error has every typing site silent under the
   CONCRETE oracle of that point of the program ---------- *)
Lemma body_ps_irrelevant B ps1 ps2 fuel s :
  ct s <> T_FOR -> ct s <> T_WHILE -> ct s <> T_IF ->
  parse_statement_body B ps1 fuel s = parse_statement_body B ps2 fuel s.
Proof. intros H1 H2 H3. unfold parse_statement_body. destruct (ct s); try reflexivity; contradiction. Qed.

Lemma tbody_simple Bs dflt sigs tps fuel s ti :
  ct s <> T_FOR -> ct s <> T_WHILE -> ct s <> T_IF ->
  tparse_statement_body Bs dflt sigs tps fuel s ti =
  match parse_statement_body (BT Bs dflt sigs ti) (fun _ => Oof) fuel s with
  | Ok r s1 => Ok (r, post_simple sigs ti s s1 r) s1
  | Crash w => Crash w
  | Oof => Oof
  end.
Proof. intros H1 H2 H3. unfold tparse_statement_body. destruct (ct s); try reflexivity; contradiction. Qed.

Theorem typed_simple_stmt_sound Bs dflt sigs tps fuel s ti st ti' s' :
  tparse_statement_body Bs dflt sigs tps fuel s ti = Ok (Some st, ti') s' ->
  ct s <> T_FOR -> ct s <> T_WHILE -> ct s <> T_IF ->
  serrs s' = [] -> scs s <> [] -> ParserScope.sused s = [] ->
  ParserScope.stmt_sok (BT Bs dflt sigs ti) (fns s) st.
Proof.
  intros H H1 H2 H3 Q N U. rewrite (tbody_simple _ _ _ _ _ _ _ H1 H2 H3) in H.
  destruct (parse_statement_body (BT Bs dflt sigs ti) (fun _ => Oof) fuel s) as [r s1| |] eqn:P; try discriminate H.
  injection H as -> _ ->.
  rewrite (body_ps_irrelevant _ _ (parse_statement (BT Bs dflt sigs ti) fuel) _ _ H1 H2 H3) in P.
  change (parse_statement (BT Bs dflt sigs ti) (S fuel) s = Ok (Some st) s') in P.
  destruct (ParserScope.stmt_sim (BT Bs dflt sigs ti) (S fuel) s (Some st) s' P Q (conj N U)) as (_ & _ & S1 & _).
  exact S1.
Qed.

(* ... and at a binary node where the concrete oracle (undefined = objection) was silent, Types.validate_binary holds *)
Theorem typed_silent_binary Bs sigs ti op l r :
  ParserScope.silent (BT Bs true sigs ti) TS_binary (TBin op l r) ->
  exists o lt rt, binop_of op = Some o /\ ty_of (env_of_ti sigs ti) l = Some lt /\ ty_of (env_of_ti sigs ti) r = Some rt /\
    Types.validate_binary o lt rt = true.
Proof.
  intros [n H]. simpl in H. unfold coracle in H.
  destruct (oracle3 (env_of_ti sigs ti) (ti_ret ti) TS_binary (TBin op l r)) as [b|] eqn:O; [|discriminate].
  subst b. destruct (oracle_binary_sound _ _ _ _ _ O) as (o & lt & rt & A & B & C & D & _). eauto 8.
Qed.
