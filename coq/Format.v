(* Format.v — executable model of pkg/parser/format.go + multiline.go:
   AST + side tables  |->  list of code points.

   The Go code writes into a strings.Builder and keeps one piece of state, the
   indentation level.  The model passes the level as an argument and records
   WHAT each f.write(...) call emits as a list of [piece]s (a token text, a
   single space, a newline, an indentation of n levels); [render] concatenates
   them, so [format p = render (fmt_prog p)] is the text Go produces.  Every
   definition names the Go function it mirrors.  Nothing here is a proof. *)
From Coq Require Import ZArith NArith List String Bool.
From EvyV Require Import Base FmtAst.
Import ListNotations.
Open Scope N_scope.

(* ---------- output pieces ---------- *)
Inductive piece :=
| T (s : str)        (* keyword / identifier / number / operator / bracket text *)
| Q (s : str)        (* string literal text as rendered by strconv.Quote *)
| Cm (s : str)       (* comment text *)
| Sp                 (* " " *)
| NL                 (* "\n" *)
| Ind (n : nat).     (* f.indent() at indentLevel n: n times "    " *)

Definition spaces (n : nat) : str := repeat 32 n.

Definition render1 (p : piece) : str :=
  match p with
  | T s | Q s | Cm s => s
  | Sp => [32]
  | NL => [10]
  | Ind n => spaces (4 * n)
  end.

Definition render (ps : list piece) : str := flat_map render1 ps.

(* ---------- constants ---------- *)
Definition k_lbr := Eval compute in s_ "[".
Definition k_rbr := Eval compute in s_ "]".
Definition k_lcu := Eval compute in s_ "{".
Definition k_rcu := Eval compute in s_ "}".
Definition k_lpa := Eval compute in s_ "(".
Definition k_rpa := Eval compute in s_ ")".
Definition k_colon := Eval compute in s_ ":".
Definition k_dot := Eval compute in s_ ".".
Definition k_dot3 := Eval compute in s_ "...".
Definition k_declare := Eval compute in s_ ":=".
Definition k_assign := Eval compute in s_ "=".
Definition k_true := Eval compute in s_ "true".
Definition k_false := Eval compute in s_ "false".
Definition k_if := Eval compute in s_ "if".
Definition k_else := Eval compute in s_ "else".
Definition k_end := Eval compute in s_ "end".
Definition k_while := Eval compute in s_ "while".
Definition k_for := Eval compute in s_ "for".
Definition k_range := Eval compute in s_ "range".
Definition k_return := Eval compute in s_ "return".
Definition k_break := Eval compute in s_ "break".
Definition k_func := Eval compute in s_ "func".
Definition k_on := Eval compute in s_ "on".
Definition k_el := Eval compute in s_ "el".
Definition k_nl := Eval compute in s_ (String (Ascii.ascii_of_nat 10) EmptyString).
Definition k_unimpl := Eval compute in s_ "format unimplemented for <nil>".
Definition k_oob := Eval compute in s_ "<<panic: index out of range>>".

(* typeNameStrings[...].format *)
Definition tyname_pieces (n : tyname) : list piece :=
  match n with
  | TNnum => [T (s_ "num")] | TNstring => [T (s_ "string")] | TNbool => [T (s_ "bool")]
  | TNany => [T (s_ "any")] | TNnone => [T (s_ "none")]
  | TNarr => [T k_lbr; T k_rbr]
  | TNmap => [T k_lcu; T k_rcu]
  end.

(* operatorStrings *)
Definition op_str (o : fop) : str :=
  s_ match o with
     | OpIllegal => "illegal" | OpPlus => "+" | OpMinus => "-" | OpSlash => "/" | OpAsterisk => "*"
     | OpPercent => "%" | OpOr => "or" | OpAnd => "and" | OpEq => "==" | OpNotEq => "!="
     | OpLt => "<" | OpGt => ">" | OpLtEq => "<=" | OpGtEq => ">=" | OpIndex => "[op_index]"
     | OpDot => "." | OpBang => "!"
     end.

(* ---------- strings.TrimSpace ---------- *)
(* unicode.IsSpace: '\t' '\n' '\v' '\f' '\r' ' ' U+0085 U+00A0 U+1680 U+2000..U+200A U+2028 U+2029 U+202F U+205F U+3000 *)
Definition is_space (c : N) : bool :=
  ((9 <=? c) && (c <=? 13)) || (c =? 32) || (c =? 133) || (c =? 160) || (c =? 5760)
  || ((8192 <=? c) && (c <=? 8202)) || (c =? 8232) || (c =? 8233) || (c =? 8239) || (c =? 8287) || (c =? 12288).

Fixpoint drop_space (s : str) : str :=
  match s with
  | [] => []
  | c :: r => if is_space c then drop_space r else s
  end.

Definition trim (s : str) : str := rev (drop_space (rev (drop_space s))).

Definition is_empty (s : str) : bool := match s with [] => true | _ => false end.

(* ---------- multiline.go ---------- *)
Fixpoint has_prefix (p s : str) : bool :=
  match p, s with
  | [], _ => true
  | x :: p', y :: s' => (x =? y) && has_prefix p' s'
  | _ :: _, [] => false
  end.

Definition k_slashes := Eval compute in s_ "//".

(* multilineItem.isComment / isNL / isKey ; m == multilineEl *)
Definition item_is_comment (m : str) : bool := has_prefix k_slashes m.
Definition item_is_nl (m : str) : bool := str_eqb m k_nl.
Definition item_is_key (m : str) : bool := negb (item_is_nl m) && negb (item_is_comment m).
Definition item_is_el (m : str) : bool := str_eqb m k_el.

(* formatMultiline *)
Fixpoint format_multiline_loop (nl_count : nat) (items : list str) : list str :=
  match items with
  | [] => []
  | item :: rest =>
      let n := if item_is_nl item then S nl_count
               else if item_is_comment item then 1%nat
               else 0%nat in
      if (n <=? 2)%nat then item :: format_multiline_loop n rest
      else format_multiline_loop n rest
  end.
Definition format_multiline (items : list str) : list str := format_multiline_loop 0 items.

(* accumulation.stmtType *)
Inductive skind := KEmpty | KComment | KStmt | KFunc.
Definition skind_eqb (a b : skind) : bool :=
  match a, b with KEmpty, KEmpty | KComment, KComment | KStmt, KStmt | KFunc, KFunc => true | _, _ => false end.

Definition stmt_kind (s : fstmt) : skind :=
  match s with
  | SEmpty c => if is_empty c then KEmpty else KComment
  | SFunc _ _ _ _ _ _ _ | SOn _ _ _ _ _ => KFunc
  | _ => KStmt
  end.

(* newAccumulations, on the statement-kind skeleton *)
Fixpoint new_accumulations_loop (last : option skind) (i : nat) (ks : list skind) : list (skind * nat) :=
  match ks with
  | [] => []
  | k :: rest =>
      let same := match last with Some l => skind_eqb k l | None => false end in
      if negb same || skind_eqb k KFunc
      then (k, i) :: new_accumulations_loop (Some k) (S i) rest
      else new_accumulations_loop last (S i) rest
  end.
Definition new_accumulations (ks : list skind) : list (skind * nat) := new_accumulations_loop None 0 ks.

(* nlAfter: the loop over accums[:length-1]; the result is the set of indices.
   [fixed = true] is the proposed repair (/repo 6dbe4ed):
   the fourth case marks the statement just before the comment run instead of
   the first statement of the run. *)
Fixpoint nl_after_loop (fixed : bool) (accs : list (skind * nat)) : list nat :=
  match accs with
  | a :: ((b :: rest') as rest) =>
      (match fst a with
       | KEmpty | KComment => []
       | _ =>
           if skind_eqb (fst a) KFunc && skind_eqb (fst b) KStmt then [snd a]
           else if skind_eqb (fst b) KFunc then [(snd b - 1)%nat]
           else if skind_eqb (fst b) KComment
                   && match rest' with c :: _ => skind_eqb (fst c) KFunc | [] => false end
                then [if fixed then (snd b - 1)%nat else snd a]
           else []
       end) ++ nl_after_loop fixed rest
  | _ => []
  end.
Definition nl_after (fixed : bool) (ks : list skind) : list nat := nl_after_loop fixed (new_accumulations ks).

Fixpoint mem_nat (n : nat) (l : list nat) : bool :=
  match l with [] => false | x :: t => Nat.eqb x n || mem_nat n t end.

(* ---------- format.go ---------- *)
(* formatType *)
Fixpoint fmt_type (t : fty) : list piece :=
  match t with
  | FTy n sub => tyname_pieces n ++ match sub with Some s => fmt_type s | None => [] end
  end.

(* writeDecl *)
Definition write_decl (name : str) (t : fty) : list piece := [T name; T k_colon] ++ fmt_type t.

(* writeComment for a node that is not an EmptyStmt / that is an EmptyStmt *)
Definition write_comment (c : str) : list piece := if is_empty c then [] else [Sp; Cm (trim c)].
Definition write_comment_empty (c : str) : list piece := if is_empty c then [] else [Cm (trim c)].

(* writeWSS *)
Definition write_wss (wss : bool) : list piece := if wss then [] else [Sp].

(* f.write(string(m)) for an item that is a newline or a comment ("// ...\n") *)
Definition ends_with_nl (m : str) : bool := match rev m with c :: _ => c =? 10 | [] => false end.
Definition raw_item (m : str) : list piece :=
  if item_is_nl m then [NL]
  else if ends_with_nl m then [Cm (removelast m); NL]
  else [Cm m].

Definition next_not_nl (rest : list str) : bool :=
  match rest with [] => false | m :: _ => negb (item_is_nl m) end.

(* the loop of formatArrayLiteral; [els] are the already formatted n.Elements[idx:] *)
Fixpoint arr_loop (lvl' : nat) (multi : list str) (els : list (list piece)) : list piece :=
  match multi with
  | [] => []
  | m :: rest =>
      if item_is_el m then
        match els with
        | e :: els' => e ++ (if next_not_nl rest then [Sp] else []) ++ arr_loop lvl' rest els'
        | [] => [T k_oob]      (* Go: index out of range panic; excluded by wf *)
        end
      else raw_item m ++ (if next_not_nl rest then [Ind lvl'] else []) ++ arr_loop lvl' rest els
  end.

Definition last_is_nl (multi : list str) : bool :=
  match rev multi with m :: _ => item_is_nl m | [] => false end.
Definition last_is_nl_or_comment (multi : list str) : bool :=
  match rev multi with m :: _ => item_is_nl m || item_is_comment m | [] => false end.
Definition first_is_comment (multi : list str) : bool :=
  match multi with m :: _ => item_is_comment m | [] => false end.

(* formatArrayLiteral.  [fixed]: indent the closing bracket also after a trailing
   comment item (/repo c2656fe). *)
Definition fmt_array (fixed : bool) (lvl : nat) (multi : list str) (els : list (list piece)) : list piece :=
  match multi with
  | [] => [T k_lbr; T k_rbr]
  | _ =>
      [T k_lbr] ++ (if first_is_comment multi then [Sp] else [])
      ++ arr_loop (S lvl) multi els
      ++ (if (if fixed then last_is_nl_or_comment multi else last_is_nl multi) then [Ind lvl] else [])
      ++ [T k_rbr]
  end.

Fixpoint lookup_pieces (k : str) (kvs : list (str * list piece)) : list piece :=
  match kvs with
  | [] => [T k_unimpl]        (* Go: f.format(nil) -> default case *)
  | (k', v) :: t => if str_eqb k' k then v else lookup_pieces k t
  end.

(* the loop of formatMapLiteral *)
Fixpoint map_loop (lvl' : nat) (multi : list str) (kvs : list (str * list piece)) : list piece :=
  match multi with
  | [] => []
  | m :: rest =>
      if item_is_key m then
        [T m; T k_colon] ++ lookup_pieces m kvs ++ (if next_not_nl rest then [Sp] else []) ++ map_loop lvl' rest kvs
      else raw_item m ++ (if next_not_nl rest then [Ind lvl'] else []) ++ map_loop lvl' rest kvs
  end.

(* formatMapLiteral *)
Definition fmt_map (fixed : bool) (lvl : nat) (multi : list str) (kvs : list (str * list piece)) : list piece :=
  match multi with
  | [] => [T k_lcu; T k_rcu]
  | _ =>
      [T k_lcu] ++ (if first_is_comment multi then [Sp] else [])
      ++ map_loop (S lvl) multi kvs
      ++ (if (if fixed then last_is_nl_or_comment multi else last_is_nl multi) then [Ind lvl] else [])
      ++ [T k_rcu]
  end.

(* Which of the proposed repairs the model includes.  [current_fixes] is what
   /repo contains now (the correspondence run compares [format current_fixes]
   with Program.Format()); after a repair is committed to /repo, flip its flag here. *)
Record fixes := { fix_nl : bool;    (* /repo 6dbe4ed *)
                  fix_br : bool }.  (* /repo c2656fe *)
Definition no_fixes : fixes := {| fix_nl := false; fix_br := false |}.
Definition all_fixes : fixes := {| fix_nl := true; fix_br := true |}.
Definition current_fixes : fixes := all_fixes.   (* /repo 6dbe4ed (fix_nl) and c2656fe (fix_br) *)

Section Fmt.
  Variable fixed : fixes.

  (* format(n) for expression nodes; lvl = f.indentLevel *)
  Fixpoint fmt_expr (lvl : nat) (e : fexpr) {struct e} : list piece :=
    match e with
    | FVar n => [T n]
    | FNum _ t => [T t]
    | FStr _ q => [Q q]
    | FBool b => [T (if b then k_true else k_false)]
    | FAny e => fmt_expr lvl e
    | FArr items els => fmt_array (fix_br fixed) lvl (format_multiline items) (map (fmt_expr (S lvl)) els)
    | FMap items keys vals => fmt_map (fix_br fixed) lvl (format_multiline items) (combine keys (map (fmt_expr (S lvl)) vals))
    | FCall name args => T name :: flat_map (fun a => Sp :: fmt_expr lvl a) args     (* formatFuncCall *)
    | FUn op r => T (op_str op) :: fmt_expr lvl r
    | FBin op wss l r => fmt_expr lvl l ++ write_wss wss ++ [T (op_str op)] ++ write_wss wss ++ fmt_expr lvl r
    | FIdx l i => fmt_expr lvl l ++ [T k_lbr] ++ fmt_expr lvl i ++ [T k_rbr]
    | FSlice l s e =>
        fmt_expr lvl l ++ [T k_lbr]
        ++ match s with Some x => fmt_expr lvl x | None => [] end      (* formatIfNotNil *)
        ++ [T k_colon]
        ++ match e with Some x => fmt_expr lvl x | None => [] end
        ++ [T k_rbr]
    | FDot l k => fmt_expr lvl l ++ [T k_dot; T k]
    | FAssert l t => fmt_expr lvl l ++ [T k_dot; T k_lpa] ++ fmt_type t ++ [T k_rpa]
    | FGroup e => [T k_lpa] ++ fmt_expr lvl e ++ [T k_rpa]
    end.

  (* formatFuncCall *)
  Definition fmt_call (lvl : nat) (name : str) (args : list fexpr) : list piece :=
    T name :: flat_map (fun a => Sp :: fmt_expr lvl a) args.

  (* formatStepRange / format(s.Range) *)
  Definition fmt_range (lvl : nat) (r : frange) : list piece :=
    match r with
    | RStep start stop step =>
        match start with Some x => fmt_expr lvl x ++ [Sp] | None => [] end
        ++ fmt_expr lvl stop
        ++ match step with Some x => Sp :: fmt_expr lvl x | None => [] end
    | RExpr e => fmt_expr lvl e
    end.

  Definition fmt_params (ps : list (str * fty)) : list piece :=
    flat_map (fun p => Sp :: write_decl (fst p) (snd p)) ps.

  (* writeBlankLine's test: an EmptyStmt whose recorded comment is "" *)
  Definition is_blank (s : fstmt) : bool :=
    match s with SEmpty c => is_empty c | _ => false end.

  (* the loop shared by writeStmts (at the already incremented level) *)
  Fixpoint stmts_loop (lvl : nat) (empty : bool) (l : list (bool * list piece)) : list piece :=
    match l with
    | [] => []
    | (blank, ps) :: t =>
        if blank then (if empty then [] else [NL]) ++ stmts_loop lvl true t      (* writeBlankLine *)
        else [Ind lvl] ++ ps ++ [NL] ++ stmts_loop lvl false t
    end.

  (* format(n) for statement nodes (without the caller's indent() and writeLn()) *)
  Fixpoint fmt_stmt (lvl : nat) (s : fstmt) {struct s} : list piece :=
    (* writeStmts: indentLevel++ ... indentLevel-- *)
    let write_stmts := fun (body : list fstmt) =>
      stmts_loop (S lvl) false (map (fun x => (is_blank x, fmt_stmt (S lvl) x)) body) in
    (* format of a BlockStatement *)
    let fmt_block := fun (body : list fstmt) (cend : str) =>
      write_stmts body ++ [Ind lvl; T k_end] ++ write_comment cend in
    match s with
    | SEmpty c => write_comment_empty c
    | STypedDecl n t c => write_decl n t ++ write_comment c
    | SInferredDecl n v c => [T n; Sp; T k_declare; Sp] ++ fmt_expr lvl v ++ write_comment c
    | SAssign t v c => fmt_expr lvl t ++ [Sp; T k_assign; Sp] ++ fmt_expr lvl v ++ write_comment c
    | SCall n args c => fmt_call lvl n args ++ write_comment c
    | SReturn v c =>                                                       (* formatReturnStmt *)
        [T k_return] ++ match v with Some e => Sp :: fmt_expr lvl e | None => [] end ++ write_comment c
    | SBreak c => [T k_break] ++ write_comment c
    | SIf ifb elifs els cend =>                                            (* formatIfStmt *)
        match ifb with
        | CBlock cond c body => [T k_if; Sp] ++ fmt_expr lvl cond ++ write_comment c ++ [NL] ++ write_stmts body
        end
        ++ flat_map (fun cb => match cb with
                               | CBlock cond c body =>
                                   [Ind lvl; T k_else; Sp; T k_if; Sp] ++ fmt_expr lvl cond ++ write_comment c ++ [NL]
                                   ++ write_stmts body
                               end) elifs
        ++ match els with
           | Some (c, body) => [Ind lvl; T k_else] ++ write_comment c ++ [NL] ++ write_stmts body
           | None => []
           end
        ++ [Ind lvl; T k_end] ++ write_comment cend
    | SWhile cond ch body ce =>                                            (* "while " + format of the ConditionalBlock *)
        [T k_while; Sp] ++ fmt_expr lvl cond ++ write_comment ch ++ [NL] ++ fmt_block body ce
    | SFor lv r ch body ce =>                                              (* formatForStmt *)
        [T k_for; Sp] ++ match lv with Some n => [T n; Sp; T k_declare; Sp] | None => [] end
        ++ [T k_range; Sp] ++ fmt_range lvl r ++ write_comment ch ++ [NL] ++ fmt_block body ce
    | SFunc n rt ps v ch body ce =>                                        (* formatFuncDefStmt *)
        [T k_func; Sp; T n] ++ match rt with Some t => T k_colon :: fmt_type t | None => [] end
        ++ fmt_params ps
        ++ match v with Some p => Sp :: write_decl (fst p) (snd p) ++ [T k_dot3] | None => [] end
        ++ write_comment ch ++ [NL] ++ fmt_block body ce
    | SOn n ps ch body ce =>                                               (* formatEventHandlerStmt *)
        [T k_on; Sp; T n] ++ fmt_params ps ++ write_comment ch ++ [NL] ++ fmt_block body ce
    end.

  (* the loop of formatProgram *)
  Fixpoint prog_loop (nl : list nat) (i : nat) (empty : bool) (l : list fstmt) : list piece :=
    match l with
    | [] => []
    | s :: t =>
        if is_blank s then (if empty then [] else [NL]) ++ prog_loop nl (S i) true t
        else [Ind 0] ++ fmt_stmt 0 s ++ [NL] ++ (if mem_nat i nl then [NL] else []) ++ prog_loop nl (S i) false t
    end.

  (* formatProgram *)
  Definition fmt_prog (p : fprog) : list piece :=
    match p with
    | [] => [NL]
    | _ => prog_loop (nl_after (fix_nl fixed) (map stmt_kind p)) 0 false p
    end.

  (* Program.Format *)
  Definition format (p : fprog) : str := render (fmt_prog p).
End Fmt.

(* ---------- the blank-line logic on the statement-kind skeleton ---------- *)
(* What one formatting pass does to the skeleton (the kinds of the top-level
   statements of the re-parsed output): runs of blank lines are squeezed to one
   and a blank line appears after every index in nlAfter. *)
Fixpoint skel_step_loop (nl : list nat) (i : nat) (empty : bool) (ks : list skind) : list skind :=
  match ks with
  | [] => []
  | k :: t =>
      if skind_eqb k KEmpty then (if empty then [] else [KEmpty]) ++ skel_step_loop nl (S i) true t
      else [k] ++ (if mem_nat i nl then [KEmpty] else []) ++ skel_step_loop nl (S i) false t
  end.
Definition skel_step (fixed : bool) (ks : list skind) : list skind :=
  match ks with
  | [] => [KEmpty]          (* formatProgram writes "\n" for a program without statements *)
  | _ => skel_step_loop (nl_after fixed ks) 0 false ks
  end.

(* ---------- tokens of the tree, in source order (specification side of C06) ---------- *)
Definition ty_tokens (t : fty) : list str :=
  (fix go (t : fty) : list str :=
     match t with
     | FTy n sub =>
         (match n with
          | TNnum => [s_ "num"] | TNstring => [s_ "string"] | TNbool => [s_ "bool"] | TNany => [s_ "any"]
          | TNnone => [s_ "none"] | TNarr => [k_lbr; k_rbr] | TNmap => [k_lcu; k_rcu]
          end) ++ match sub with Some s => go s | None => [] end
     end) t.

Definition decl_tokens (name : str) (t : fty) : list str := [name; k_colon] ++ ty_tokens t.

(* a recorded comment contributes its text without surrounding white space *)
Definition comment_tokens (c : str) : list str := if is_empty c then [] else [trim c].

(* a multi-line item that is a comment ("// ...\n") contributes its text *)
Definition item_comment_tokens (m : str) : list str :=
  if item_is_nl m then [] else [if ends_with_nl m then removelast m else m].

Fixpoint arr_item_tokens (items : list str) (els : list (list str)) : list str :=
  match items with
  | [] => []
  | m :: rest =>
      if item_is_el m then
        match els with e :: els' => e ++ arr_item_tokens rest els' | [] => [k_oob] end
      else item_comment_tokens m ++ arr_item_tokens rest els
  end.

Fixpoint lookup_tokens (k : str) (kvs : list (str * list str)) : list str :=
  match kvs with
  | [] => [k_unimpl]
  | (k', v) :: t => if str_eqb k' k then v else lookup_tokens k t
  end.

Fixpoint map_item_tokens (items : list str) (kvs : list (str * list str)) : list str :=
  match items with
  | [] => []
  | m :: rest =>
      if item_is_key m then [m; k_colon] ++ lookup_tokens m kvs ++ map_item_tokens rest kvs
      else item_comment_tokens m ++ map_item_tokens rest kvs
  end.

Fixpoint expr_tokens (e : fexpr) : list str :=
  match e with
  | FVar n => [n]
  | FNum _ t => [t]
  | FStr _ q => [q]
  | FBool b => [if b then k_true else k_false]
  | FAny e => expr_tokens e
  | FArr items els => [k_lbr] ++ arr_item_tokens items (map expr_tokens els) ++ [k_rbr]
  | FMap items keys vals => [k_lcu] ++ map_item_tokens items (combine keys (map expr_tokens vals)) ++ [k_rcu]
  | FCall n args => n :: flat_map expr_tokens args
  | FUn op r => op_str op :: expr_tokens r
  | FBin op _ l r => expr_tokens l ++ [op_str op] ++ expr_tokens r
  | FIdx l i => expr_tokens l ++ [k_lbr] ++ expr_tokens i ++ [k_rbr]
  | FSlice l s e =>
      expr_tokens l ++ [k_lbr] ++ match s with Some x => expr_tokens x | None => [] end ++ [k_colon]
      ++ match e with Some x => expr_tokens x | None => [] end ++ [k_rbr]
  | FDot l k => expr_tokens l ++ [k_dot; k]
  | FAssert l t => expr_tokens l ++ [k_dot; k_lpa] ++ ty_tokens t ++ [k_rpa]
  | FGroup e => [k_lpa] ++ expr_tokens e ++ [k_rpa]
  end.

Definition range_tokens (r : frange) : list str :=
  match r with
  | RStep a b c =>
      match a with Some x => expr_tokens x | None => [] end ++ expr_tokens b
      ++ match c with Some x => expr_tokens x | None => [] end
  | RExpr e => expr_tokens e
  end.

Definition params_tokens (ps : list (str * fty)) : list str :=
  flat_map (fun p => decl_tokens (fst p) (snd p)) ps.

Fixpoint stmt_tokens (s : fstmt) : list str :=
  let body_tokens := fun (b : list fstmt) => flat_map stmt_tokens b in
  match s with
  | SEmpty c => comment_tokens c
  | STypedDecl n t c => decl_tokens n t ++ comment_tokens c
  | SInferredDecl n v c => [n; k_declare] ++ expr_tokens v ++ comment_tokens c
  | SAssign t v c => expr_tokens t ++ [k_assign] ++ expr_tokens v ++ comment_tokens c
  | SCall n args c => n :: flat_map expr_tokens args ++ comment_tokens c
  | SReturn v c => [k_return] ++ match v with Some e => expr_tokens e | None => [] end ++ comment_tokens c
  | SBreak c => [k_break] ++ comment_tokens c
  | SIf ifb elifs els cend =>
      match ifb with CBlock cond c body => [k_if] ++ expr_tokens cond ++ comment_tokens c ++ body_tokens body end
      ++ flat_map (fun cb => match cb with
                             | CBlock cond c body => [k_else; k_if] ++ expr_tokens cond ++ comment_tokens c ++ body_tokens body
                             end) elifs
      ++ match els with Some (c, body) => [k_else] ++ comment_tokens c ++ body_tokens body | None => [] end
      ++ [k_end] ++ comment_tokens cend
  | SWhile cond ch body ce =>
      [k_while] ++ expr_tokens cond ++ comment_tokens ch ++ body_tokens body ++ [k_end] ++ comment_tokens ce
  | SFor lv r ch body ce =>
      [k_for] ++ match lv with Some n => [n; k_declare] | None => [] end ++ [k_range] ++ range_tokens r
      ++ comment_tokens ch ++ body_tokens body ++ [k_end] ++ comment_tokens ce
  | SFunc n rt ps v ch body ce =>
      [k_func; n] ++ match rt with Some t => k_colon :: ty_tokens t | None => [] end ++ params_tokens ps
      ++ match v with Some p => decl_tokens (fst p) (snd p) ++ [k_dot3] | None => [] end
      ++ comment_tokens ch ++ body_tokens body ++ [k_end] ++ comment_tokens ce
  | SOn n ps ch body ce =>
      [k_on; n] ++ params_tokens ps ++ comment_tokens ch ++ body_tokens body ++ [k_end] ++ comment_tokens ce
  end.

(* tokens_of_ast *)
Definition tokens_of_ast (p : fprog) : list str := flat_map stmt_tokens p.

(* ---------- strip_ws: remove white space outside string literals and comments ---------- *)
Inductive smode := MCode | MStr | MStrEsc | MComment.

Definition is_ws (c : N) : bool := (c =? 32) || (c =? 10).

Fixpoint strip (m : smode) (s : str) : str :=
  match s with
  | [] => []
  | c :: r =>
      match m with
      | MCode =>
          if is_ws c then strip MCode r
          else if c =? 34 then c :: strip MStr r
          else if (c =? 47) && match r with d :: _ => d =? 47 | [] => false end then c :: strip MComment r
          else c :: strip MCode r
      | MStr => c :: strip (if c =? 92 then MStrEsc else if c =? 34 then MCode else MStr) r
      | MStrEsc => c :: strip MStr r
      | MComment => if c =? 10 then strip MCode r else c :: strip MComment r
      end
  end.
Definition strip_ws (s : str) : str := strip MCode s.

(* ---------- well-formedness of the tree + side tables (hypothesis of the theorems;
   evaluated by the harness on every exported tree) ---------- *)
Definition plain_char (c : N) : bool := negb (is_space c) && negb (c =? 34) && negb (c =? 47).
Definition plain (s : str) : bool := negb (is_empty s) && forallb plain_char s.

(* a double-quoted literal as the lexer's readString delimits it, without a raw newline *)
Fixpoint scan_str (esc : bool) (r : str) : bool :=
  match r with
  | [] => false
  | c :: r' =>
      if c =? 10 then false
      else if esc then scan_str false r'
      else if c =? 92 then scan_str true r'
      else if c =? 34 then is_empty r'
      else scan_str false r'
  end.
Definition quoted_ok (q : str) : bool := match q with c :: r => (c =? 34) && scan_str false r | [] => false end.

(* comment text: starts with "//", no newline, no white space at either end *)
Definition no_nl (s : str) : bool := forallb (fun c => negb (c =? 10)) s.
Definition comment_text_ok (c : str) : bool :=
  has_prefix k_slashes c && no_nl c && match rev c with x :: _ => negb (is_space x) | [] => false end.
Definition comment_ok (c : str) : bool := is_empty c || comment_text_ok (trim c).

(* a multi-line item other than an element/key: "\n" or "<comment text>\n" *)
Definition item_ws_ok (m : str) : bool :=
  item_is_nl m || (ends_with_nl m && comment_text_ok (removelast m)).

Fixpoint nodup_str (l : list str) : bool :=
  match l with [] => true | x :: t => negb (mem_str x t) && nodup_str t end.


Fixpoint wf_expr (e : fexpr) : bool :=
  match e with
  | FVar n => plain n
  | FNum _ t => plain t
  | FStr _ q => quoted_ok q
  | FBool _ => true
  | FAny e => wf_expr e
  | FArr items els =>
      forallb (fun m => item_is_el m || item_ws_ok m) items
      && Nat.eqb (List.length (filter item_is_el items)) (List.length els)
      && forallb wf_expr els
  | FMap items keys vals =>
      forallb (fun m => (item_is_key m && plain m) || item_ws_ok m) items
      && (if list_eq_dec str_eq_dec (filter item_is_key items) keys then true else false)
      && nodup_str keys
      && Nat.eqb (List.length keys) (List.length vals)
      && forallb wf_expr vals
  | FCall n args => plain n && forallb wf_expr args
  | FUn op r => negb (match op with OpSlash => true | _ => false end) && wf_expr r   (* "/" is not a unary operator *)
  | FBin _ _ l r => wf_expr l && wf_expr r
  | FIdx l i => wf_expr l && wf_expr i
  | FSlice l s e =>
      wf_expr l && match s with Some x => wf_expr x | None => true end
      && match e with Some x => wf_expr x | None => true end
  | FDot l k => wf_expr l && plain k
  | FAssert l _ => wf_expr l
  | FGroup e => wf_expr e
  end.

Definition wf_range (r : frange) : bool :=
  match r with
  | RStep a b c =>
      match a with Some x => wf_expr x | None => true end && wf_expr b
      && match c with Some x => wf_expr x | None => true end
  | RExpr e => wf_expr e
  end.

Definition wf_params (ps : list (str * fty)) : bool := forallb (fun p => plain (fst p)) ps.

Fixpoint wf_stmt (s : fstmt) : bool :=
  match s with
  | SEmpty c => comment_ok c
  | STypedDecl n _ c => plain n && comment_ok c
  | SInferredDecl n v c => plain n && wf_expr v && comment_ok c
  | SAssign t v c => wf_expr t && wf_expr v && comment_ok c
  | SCall n args c => plain n && forallb wf_expr args && comment_ok c
  | SReturn v c => match v with Some e => wf_expr e | None => true end && comment_ok c
  | SBreak c => comment_ok c
  | SIf ifb elifs els cend =>
      match ifb with CBlock cond c body => wf_expr cond && comment_ok c && forallb wf_stmt body end
      && forallb (fun cb => match cb with CBlock cond c body => wf_expr cond && comment_ok c && forallb wf_stmt body end) elifs
      && match els with Some (c, body) => comment_ok c && forallb wf_stmt body | None => true end
      && comment_ok cend
  | SWhile cond ch body ce => wf_expr cond && comment_ok ch && forallb wf_stmt body && comment_ok ce
  | SFor lv r ch body ce =>
      match lv with Some n => plain n | None => true end && wf_range r && comment_ok ch
      && forallb wf_stmt body && comment_ok ce
  | SFunc n _ ps v ch body ce =>
      plain n && wf_params ps && match v with Some p => plain (fst p) | None => true end
      && comment_ok ch && forallb wf_stmt body && comment_ok ce
  | SOn n ps ch body ce => plain n && wf_params ps && comment_ok ch && forallb wf_stmt body && comment_ok ce
  end.

Definition wf_prog (p : fprog) : bool := forallb wf_stmt p.

(* ---------- the shape predicate of C07, on text ---------- *)
(* A scanner over the code points: [col_spaces] counts the leading spaces of
   the current line while [at_bol]; [last_blank] says whether the last char of
   the line so far is white space; [blanks] counts the empty lines immediately
   before the current one. *)
Record shape_st := { at_bol : bool; col_spaces : nat; last_blank : bool; blanks : nat }.

Fixpoint shape_scan (st : shape_st) (s : str) : bool :=
  match s with
  | [] => true
  | c :: r =>
      if c =? 10 then
        if at_bol st then
          (* a line made of spaces only is trailing white space; an empty line after an empty line is forbidden *)
          Nat.eqb (col_spaces st) 0 && Nat.eqb (blanks st) 0
          && shape_scan {| at_bol := true; col_spaces := 0; last_blank := false; blanks := S (blanks st) |} r
        else
          negb (last_blank st)
          && shape_scan {| at_bol := true; col_spaces := 0; last_blank := false; blanks := 0 |} r
      else if at_bol st then
        if c =? 32 then shape_scan {| at_bol := true; col_spaces := S (col_spaces st); last_blank := true; blanks := blanks st |} r
        else negb (is_space c) && Nat.eqb (Nat.modulo (col_spaces st) 4) 0
             && shape_scan {| at_bol := false; col_spaces := 0; last_blank := false; blanks := 0 |} r
      else shape_scan {| at_bol := false; col_spaces := 0; last_blank := is_space c; blanks := 0 |} r
  end.

Definition shape_lines (s : str) : bool :=
  shape_scan {| at_bol := true; col_spaces := 0; last_blank := false; blanks := 0 |} s.

(* ends with exactly one newline *)
Definition ends_one_nl (s : str) : bool :=
  match rev s with
  | a :: b :: _ => (a =? 10) && negb (b =? 10)
  | [a] => a =? 10
  | [] => false
  end.

(* ---------- `evy fmt --check` (main.go: format(b, checkOnly)) ---------- *)
(* parse is a parameter: the formatter-side model of the check is
   "accept t iff parse t succeeds and t = Format (parse t)". *)
Definition fmt_check (parse : str -> option fprog) (fixed : fixes) (t : str) : bool :=
  match parse t with
  | Some p => if str_eq_dec t (format fixed p) then true else false
  | None => false
  end.

(* ---------- entry point ---------- *)
Definition enc_nats (l : list nat) : sx := Lst (map sx_nat l).

(* (prog ...)  |->  (ok "text" (tok...) wf shape one-nl "fixed text" (nlAfter idx...) (skeleton step)) *)
Definition enc_kind (k : skind) : sx :=
  Sym (s_ match k with KEmpty => "e" | KComment => "c" | KStmt => "s" | KFunc => "f" end).

Definition format_case (x : sx) : sx :=
  match x with
  | Lst [Sym tag; Str t] =>
      (* (shape "text"): the two text predicates of C07 alone, cross-checked by the harness against its own implementation *)
      if str_eqb tag (s_ "shape") then Lst [sx_bool (shape_lines t); sx_bool (ends_one_nl t)] else Sym (s_ "decode-error")
  | _ =>
  match dec_fprog x with
  | Some p =>
      let t := format current_fixes p in
      Lst [Sym (s_ "ok"); Str t; Lst (map Str (tokens_of_ast p)); sx_bool (wf_prog p);
           sx_bool (shape_lines t); sx_bool (ends_one_nl t); Str (format all_fixes p);
           enc_nats (nl_after (fix_nl current_fixes) (map stmt_kind p));
           Lst (map enc_kind (skel_step (fix_nl current_fixes) (map stmt_kind p)));
           Str (strip_ws t)]
  | None => Sym (s_ "decode-error")
  end
  end.
