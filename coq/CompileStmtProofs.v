(* CompileStmtProofs.v — compile_correct for straight-line programs:
   top-level declarations and assignments of global variables whose right-hand
   sides are in the expression fragment.  Running the VM model on the whole
   compiled program reaches the end of the code with an empty operand stack
   and every global slot holding the value a direct big-step semantics of the
   statements gives. *)
From Coq Require Import ZArith NArith List Bool Lia ZifyBool ZifyNat ZifyN Floats.
From EvyV Require Import Base Bytecode BytecodeProofs SymTab SymTabProofs Vm VmProofs Compile CompileSem CompileProofs CompileWfProofs.
Require Import EvyV.Gen.Opcodes.
Import ListNotations.
Open Scope N_scope.

(* ---------- the direct semantics of the statement fragment ---------- *)
Definition exec_stmt (env : genv) (s : stmt) : option genv :=
  match s with
  | SDecl n e => option_map (upd env n) (eval_expr env e)
  | SAssign (EVar n) e => option_map (upd env n) (eval_expr env e)
  | SEmpty => Some env
  | _ => None
  end.
Fixpoint exec_slist (env : genv) (p : slist) : option genv :=
  match p with
  | SNil => Some env
  | SCons s t => match exec_stmt env s with Some env1 => exec_slist env1 t | None => None end
  end.

Definition stmt_depth (s : stmt) : N :=
  match s with SDecl _ e | SAssign _ e => edepth e | _ => 0 end.
Fixpoint prog_depth (p : slist) : N :=
  match p with SNil => 0 | SCons s t => N.max (stmt_depth s) (prog_depth t) end.

(* ---------- list and symbol-table facts ---------- *)
Lemma nth_error_set_nth_same {A} n (x : A) : forall l, (n < List.length l)%nat -> nth_error (set_nth n x l) n = Some x.
Proof. induction n as [|n IH]; intros [|y t] H; simpl in *; try lia; [reflexivity|apply IH; lia]. Qed.

Lemma nth_error_set_nth_other {A} n m (x : A) : forall l, n <> m -> nth_error (set_nth n x l) m = nth_error l m.
Proof.
  revert m. induction n as [|n IH]; intros m [|y t] H; simpl; try reflexivity.
  - destruct m; [congruence|reflexivity].
  - destruct m; [reflexivity|]. simpl. apply IH. congruence.
Qed.

Lemma exec_setglobal p s arg next v rest :
  ostack s = v :: rest -> (N.to_nat arg < List.length (globals s))%nat ->
  exec p s SetGlobal arg next =
  Running {| ip := next; ostack := rest; locals := locals s; globals := set_nth (N.to_nat arg) v (globals s) |}.
Proof.
  intros HS HL. unfold exec. cbn [simple_effect]. change (N.to_nat 1) with 1%nat. rewrite HS. cbn [List.length Nat.ltb Nat.leb firstn skipn hd].
  unfold set_nth_opt. destruct (N.to_nat arg <? List.length (globals s))%nat eqn:E; [reflexivity|apply Nat.ltb_ge in E; lia].
Qed.

(* at top level Resolve is a lookup in the global table *)
Lemma top_resolve sym n : outers sym = [] -> st_resolve n sym = slookup n (store (cur sym)).
Proof. intro H. unfold st_resolve. rewrite H. simpl. destruct (slookup n (store (cur sym))); reflexivity. Qed.

Lemma resolve_define_other sym n m : outers sym = [] -> str_eqb n m = false ->
  st_resolve m (fst (st_define n sym)) = st_resolve m sym.
Proof.
  intros HO HN. rewrite !top_resolve; [|exact HO|destruct (define_frame n sym) as (F & _); congruence].
  unfold st_define. destruct (slookup n (store (cur sym))); cbn [fst cur store]; [reflexivity|].
  simpl. rewrite HN. reflexivity.
Qed.

Lemma top_distinct sym n1 n2 y1 y2 : outers sym = [] -> Inv sym ->
  st_resolve n1 sym = Some y1 -> st_resolve n2 sym = Some y2 -> sidx y1 = sidx y2 -> n1 = n2.
Proof.
  intros HO HI H1 H2 HE. rewrite top_resolve in H1, H2 by exact HO.
  unfold Inv in HI. rewrite HO in HI. simpl in HI. destruct HI as (_ & _ & C). eapply C; eauto.
Qed.

(* ---------- one statement ---------- *)
(* the conclusion we really want, as a relation between machine states *)
Definition reaches (p : program) (s s' : vmstate) : Prop := exists n, vm_steps n p s = Running s'.

Lemma reaches_trans p s1 s2 s3 : reaches p s1 s2 -> reaches p s2 s3 -> reaches p s1 s3.
Proof. intros (n & H1) (m & H2). exists (n + m)%nat. eapply vm_steps_trans; eauto. Qed.

Definition stmt_ok (s : stmt) : Prop :=
  forall env env1 st st',
    sfrag_stmt s = true -> compile_stmt true s st = COk st' -> top_ok st -> exec_stmt env s = Some env1 ->
    top_ok st' /\ index (cur (csym st)) <= index (cur (csym st')) /\
    exists seg newc,
      ccode st' = ccode st ++ seg /\ cconsts st' = cconsts st ++ newc /\
      forall p vs more pre post,
        pcode p = pre ++ seg ++ post ->
        pconsts p = map const_value (cconsts st') ++ more ->
        ip vs = N.of_nat (List.length pre) -> ostack vs = [] ->
        index (cur (csym st')) <= N.of_nat (List.length (globals vs)) ->
        globals_hold env (csym st) (globals vs) ->
        N.of_nat (List.length (locals vs)) + stmt_depth s <= StackSize ->
        exists s', reaches p vs s' /\ ip s' = ip vs + N.of_nat (List.length seg) /\ ostack s' = [] /\
                   locals s' = locals vs /\ List.length (globals s') = List.length (globals vs) /\
                   globals_hold env1 (csym st') (globals s').

(* the common part of `x := e` and `x = e`: the value is on the stack, y is the
   slot of n in the (possibly extended) table sym' *)
Lemma store_global env n v y sym sym' (g : list value) :
  outers sym' = [] -> Inv sym' ->
  st_resolve n sym' = Some y ->
  (forall m, str_eqb n m = false -> st_resolve m sym' = st_resolve m sym) ->
  (N.to_nat (sidx y) < List.length g)%nat ->
  globals_hold env sym g ->
  globals_hold (upd env n v) sym' (set_nth (N.to_nat (sidx y)) v g).
Proof.
  intros HO HI HR HOther HL HG m ym vm HRm HEm. unfold upd in HEm.
  destruct (str_eqb m n) eqn:E.
  - apply str_eqb_eq in E. subst m. rewrite HR in HRm. inversion HRm; subst ym. inversion HEm; subst vm.
    apply nth_error_set_nth_same. exact HL.
  - assert (E' : str_eqb n m = false).
    { destruct (str_eqb n m) eqn:E2; [apply str_eqb_eq in E2; subst; rewrite str_eqb_refl in E; discriminate|reflexivity]. }
    rewrite nth_error_set_nth_other.
    + apply (HG m ym vm); [rewrite <- (HOther m E'); exact HRm|exact HEm].
    + intro EQ. assert (sidx y = sidx ym) by lia.
      pose proof (top_distinct sym' n m y ym HO HI HR HRm H) as ->. rewrite str_eqb_refl in E. discriminate.
Qed.

Lemma emit_setglobal_run y st0 st' :
  emit_set_var true y st0 = COk st' -> sscp y = GlobalScope ->
  csym st' = csym st0 /\ cconsts st' = cconsts st0 /\
  exists hi lo, ccode st' = ccode st0 ++ [N_of_opc SetGlobal; hi; lo] /\ hi * 256 + lo = sidx y.
Proof.
  unfold emit_set_var. intros H HS. rewrite HS in H. apply emit_ok in H. destruct H as (ins & HM & ->).
  pose proof (make_some_range SetGlobal _ _ eq_refl HM) as HR.
  destruct (make_arg_bytes SetGlobal (Z.of_N (sidx y)) eq_refl HR) as (hi & lo & HM' & E).
  rewrite HM in HM'. inversion HM'; subst ins. cbn [csym cconsts ccode].
  split; [reflexivity|]. split; [reflexivity|]. exists hi, lo. split; [reflexivity|]. rewrite E. lia.
Qed.

(* expression, then SetGlobal *)
Lemma assign_runs e n env v st st0 st' y :
  efrag e = true -> compile_expr true e st = COk st0 -> eval_expr env e = Some v ->
  top_ok st ->
  emit_set_var true y (with_sym (csym st') st0) = COk st' ->   (* csym st' is the table in force after the statement *)
  outers (csym st') = [] -> Inv (csym st') -> st_resolve n (csym st') = Some y ->
  (forall m, str_eqb n m = false -> st_resolve m (csym st') = st_resolve m (csym st)) ->
  exists seg newc,
    ccode st' = ccode st ++ seg /\ cconsts st' = cconsts st ++ newc /\
    forall p s more pre post,
      pcode p = pre ++ seg ++ post ->
      pconsts p = map const_value (cconsts st') ++ more ->
      ip s = N.of_nat (List.length pre) -> ostack s = [] ->
      index (cur (csym st')) <= N.of_nat (List.length (globals s)) ->
      globals_hold env (csym st) (globals s) ->
      N.of_nat (List.length (locals s)) + edepth e <= StackSize ->
      exists s', reaches p s s' /\ ip s' = ip s + N.of_nat (List.length seg) /\ ostack s' = [] /\
                 locals s' = locals s /\ List.length (globals s') = List.length (globals s) /\
                 globals_hold (upd env n v) (csym st') (globals s').
Proof.
  intros HF HC HE HT HS HO' HI' HR HOther. pose proof HT as (HO & HI & _).
  assert (HSS : sym_static (csym st)) by (intros m ym Hm; apply (sym_top_globals _ HO HI m ym Hm)).
  destruct (compile_expr_correct e HF env st st0 v HC HE HSS) as (A & seg & newc & B & C & D).
  destruct (sym_top_globals _ HO' HI' n y HR) as [SG SI].
  destruct (emit_setglobal_run y _ _ HS SG) as (E1 & E2 & hi & lo & E3 & E4).
  cbn [with_sym csym cconsts ccode] in E1, E2, E3.
  exists (seg ++ [N_of_opc SetGlobal; hi; lo]), newc.
  split; [rewrite E3, B, app_assoc; reflexivity|]. split; [rewrite E2; exact C|].
  intros p s more pre post H1 H2 H3 H4 H5 H6 H7.
  destruct (D p s more pre ([N_of_opc SetGlobal; hi; lo] ++ post)) as (n1 & R1).
  { rewrite H1, <- !app_assoc. reflexivity. }
  { rewrite H2, E2. reflexivity. }
  { exact H3. }
  { exact H6. }
  { rewrite H4. simpl. lia. }
  set (s1 := {| ip := ip s + N.of_nat (List.length seg); ostack := v :: ostack s; locals := locals s; globals := globals s |}) in *.
  assert (HL : (N.to_nat (sidx y) < List.length (globals s))%nat) by lia.
  eexists. split; [|split; [|split; [|split; [|split]]]].
  - eapply reaches_trans; [exists n1; exact R1|]. exists 1%nat. cbn [vm_steps].
    rewrite (fetch_arg p s1 SetGlobal hi lo (pre ++ seg) post);
      [|rewrite H1, <- !app_assoc; reflexivity|unfold s1; simpl; rewrite H3, app_length; lia|reflexivity].
    rewrite (exec_setglobal p s1 _ _ v (ostack s)); [reflexivity|reflexivity|unfold s1; simpl; rewrite E4; exact HL].
  - unfold s1; simpl. rewrite app_length. simpl. lia.
  - simpl. exact H4.
  - reflexivity.
  - simpl. apply set_nth_length.
  - simpl. rewrite E4. unfold s1; simpl. eapply store_global; eauto.
Qed.

Lemma stmt_frag_ok s : stmt_ok s.
Proof.
  unfold stmt_ok. intros env env1 st st' HF HC HT HX. pose proof HT as (HO & HI & HN).
  destruct s; try discriminate HF.
  - (* SDecl *)
    simpl in HF, HC, HX. bind_inv HC.
    destruct (eval_expr env e) as [v|] eqn:HE; [|discriminate]. inversion HX; subst env1.
    destruct (efrag_sl e HF _ _ H) as (A & _).
    destruct (st_define n (csym st0)) as [sym' y] eqn:ED.
    assert (HD1 : fst (st_define n (csym st)) = sym') by (rewrite <- A, ED; reflexivity).
    assert (HD2 : snd (st_define n (csym st)) = y) by (rewrite <- A, ED; reflexivity).
    destruct (define_frame n (csym st)) as (F1 & F2 & F3). rewrite HD1 in F1, F2, F3.
    pose proof (inv_define n (csym st) HI) as HI'. rewrite HD1 in HI'.
    pose proof (define_then_resolve (csym st) n) as DR. rewrite HD1, HD2 in DR.
    assert (HO' : outers sym' = []) by congruence.
    assert (ES : csym st' = sym').
    { unfold emit_set_var in HC. destruct (sscp y); apply emit_ok in HC; destruct HC as (? & _ & ->); reflexivity. }
    assert (HS' : emit_set_var true y (with_sym (csym st') st0) = COk st') by (rewrite ES; exact HC).
    destruct (assign_runs e n env v st st0 st' y HF H HE HT HS') as (seg & newc & B & C & D);
      try (rewrite ES; assumption).
    { intros m Hm. rewrite ES, <- HD1. apply resolve_define_other; assumption. }
    split; [unfold top_ok; rewrite ES; split; [exact HO'|split; [exact HI'|congruence]]|]. split; [rewrite ES; exact F3|].
    exists seg, newc. split; [exact B|]. split; [exact C|]. exact D.
  - (* SAssign (EVar n) e *)
    destruct target; try discriminate HF. simpl in HF, HC, HX. bind_inv HC.
    destruct (eval_expr env e) as [v|] eqn:HE; [|discriminate]. inversion HX; subst env1.
    destruct (efrag_sl e HF _ _ H) as (A & _).
    destruct (st_resolve n (csym st0)) as [y|] eqn:ER; [|discriminate]. rewrite A in ER.
    assert (ES : csym st' = csym st).
    { unfold emit_set_var in HC. destruct (sscp y); apply emit_ok in HC; destruct HC as (? & _ & ->); exact A. }
    assert (HS' : emit_set_var true y (with_sym (csym st') st0) = COk st').
    { rewrite ES, <- A. destruct st0; exact HC. }
    destruct (assign_runs e n env v st st0 st' y HF H HE HT HS') as (seg & newc & B & C & D);
      try (rewrite ES; assumption).
    { intros m _. rewrite ES. reflexivity. }
    split; [unfold top_ok; rewrite ES; exact HT|]. split; [rewrite ES; lia|].
    exists seg, newc. split; [exact B|]. split; [exact C|]. exact D.
  - (* SEmpty *)
    simpl in HC, HX. inversion HC; subst st'. inversion HX; subst env1.
    split; [exact HT|]. split; [lia|]. exists [], []. split; [rewrite app_nil_r; reflexivity|].
    split; [rewrite app_nil_r; reflexivity|].
    intros p s more pre post H1 H2 H3 H4 H5 H6 H7. exists s. split; [exists 0%nat; reflexivity|].
    simpl. repeat split; auto. lia.
Qed.

(* ---------- whole programs ---------- *)
Lemma slist_frag_ok p : forall env env' st st',
  sfrag p = true -> compile_slist true p st = COk st' -> top_ok st -> exec_slist env p = Some env' ->
  top_ok st' /\ index (cur (csym st)) <= index (cur (csym st')) /\
  exists seg newc,
    ccode st' = ccode st ++ seg /\ cconsts st' = cconsts st ++ newc /\
    forall pr s more pre post,
      pcode pr = pre ++ seg ++ post ->
      pconsts pr = map const_value (cconsts st') ++ more ->
      ip s = N.of_nat (List.length pre) -> ostack s = [] ->
      index (cur (csym st')) <= N.of_nat (List.length (globals s)) ->
      globals_hold env (csym st) (globals s) ->
      N.of_nat (List.length (locals s)) + prog_depth p <= StackSize ->
      exists s', reaches pr s s' /\ ip s' = ip s + N.of_nat (List.length seg) /\ ostack s' = [] /\
                 locals s' = locals s /\ List.length (globals s') = List.length (globals s) /\
                 globals_hold env' (csym st') (globals s').
Proof.
  induction p as [|s t IH]; intros env env' st st' HF HC HT HX.
  - simpl in HC, HX. inversion HC; subst st'. inversion HX; subst env'.
    split; [exact HT|]. split; [lia|]. exists [], []. split; [rewrite app_nil_r; reflexivity|].
    split; [rewrite app_nil_r; reflexivity|].
    intros pr s more pre post H1 H2 H3 H4 H5 H6 H7. exists s. split; [exists 0%nat; reflexivity|].
    simpl. repeat split; auto. lia.
  - simpl in HF. apply andb_true_iff in HF. destruct HF as [HF1 HF2]. simpl in HC. bind_inv HC.
    simpl in HX. destruct (exec_stmt env s) as [env1|] eqn:HX1; [|discriminate].
    destruct (stmt_frag_ok s env env1 st st0 HF1 H HT HX1) as (T1 & M1 & seg1 & newc1 & B1 & C1 & D1).
    destruct (IH env1 env' st0 st' HF2 HC T1 HX) as (T2 & M2 & seg2 & newc2 & B2 & C2 & D2).
    split; [exact T2|]. split; [lia|]. exists (seg1 ++ seg2), (newc1 ++ newc2).
    split; [rewrite B2, B1, app_assoc; reflexivity|]. split; [rewrite C2, C1, app_assoc; reflexivity|].
    intros pr s0 more pre post H1 H2 H3 H4 H5 H6 H7. cbn [prog_depth] in H7.
    destruct (D1 pr s0 (map const_value newc2 ++ more) pre (seg2 ++ post)) as (s1 & R1 & I1 & O1 & L1 & G1 & GH1).
    { rewrite H1, <- !app_assoc. reflexivity. }
    { rewrite H2, C2, map_app, <- app_assoc. reflexivity. }
    { exact H3. } { exact H4. } { lia. } { exact H6. }
    { pose proof (N.le_max_l (stmt_depth s) (prog_depth t)). lia. }
    destruct (D2 pr s1 more (pre ++ seg1) post) as (s2 & R2 & I2 & O2 & L2 & G2 & GH2).
    { rewrite H1, <- !app_assoc. reflexivity. }
    { exact H2. }
    { rewrite I1, H3, app_length. lia. } { exact O1. } { rewrite G1. exact H5. } { exact GH1. }
    { rewrite L1. pose proof (N.le_max_r (stmt_depth s) (prog_depth t)). lia. }
    exists s2. split; [eapply reaches_trans; eauto|]. split; [rewrite I2, I1, app_length; lia|].
    split; [exact O2|]. split; [congruence|]. split; [congruence|exact GH2].
Qed.

(* compile_correct for straight-line programs, from NewCompiler and NewVM *)
Theorem compile_correct_straightline : forall (p : slist) (st : cstate) (env' : genv),
  sfrag p = true -> compile p = COk st -> exec_slist (fun _ => None) p = Some env' ->
  prog_depth p <= StackSize ->
  let prog := program_of (bytecode_of st) in
  exists s, reaches prog (vm_init prog) s /\
            vm_step prog s = Halted s /\ ostack s = [] /\
            forall n y v, st_resolve n (csym st) = Some y -> env' n = Some v ->
                          nth_error (globals s) (N.to_nat (sidx y)) = Some v.
Proof.
  intros p st env' HF HC HX HD prog. unfold compile, compile_program in HC.
  assert (HT : top_ok cinit) by (split; [reflexivity|split; [apply inv_new|reflexivity]]).
  destruct (slist_frag_ok p _ _ _ _ HF HC HT HX) as ((T1 & T2 & T3) & _ & seg & newc & B & C & D).
  simpl in B, C.
  destruct (D prog (vm_init prog) [] [] []) as (s & R & I & O & L & G & GH).
  - unfold prog, program_of, bytecode_of. cbn [pcode out_code]. rewrite B, app_nil_r. reflexivity.
  - unfold prog, program_of, bytecode_of. cbn [pconsts out_consts]. rewrite app_nil_r. reflexivity.
  - reflexivity.
  - reflexivity.
  - unfold prog, program_of, bytecode_of, vm_init, st_global_count. cbn [globals pgcount out_gcount]. rewrite repeat_length. lia.
  - intros n y v HR. discriminate.
  - unfold prog, program_of, bytecode_of, vm_init, st_local_count. cbn [locals plcount out_lcount]. rewrite T3. simpl. lia.
  - exists s. split; [exact R|]. split; [|split; [exact O|exact GH]].
    unfold vm_step. rewrite I. unfold prog, program_of, bytecode_of. cbn [pcode out_code vm_init ip]. rewrite B.
    simpl N.of_nat. rewrite N.add_0_l, Nat2N.id, skipn_all. reflexivity.
Qed.
