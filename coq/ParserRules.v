(* ParserRules.v — C05: an ACCEPTED program satisfies every structural static rule.

   rules_ok is an independent, declarative (structurally recursive, boolean) predicate on
   the accepted tree, written from the property text and docs/spec.md — it does not look
   at the parser's bookkeeping (the alwaysTerms flags stored in blocks are ignored).
   Theorem: for every token list, builtin table and typing oracle,
     parse B raw eof = Accept p  ->  rules_ok p = true.
   Proof: every error site of the model makes the final error list non-empty (errors are
   never removed), so on an accepted run no error branch was taken, and the success
   branches build only trees that satisfy the rules. *)
From Coq Require Import List NArith ZArith Bool Arith Lia String.
From EvyV Require Import Base Pratt Parser ParserProofs.
From EvyV.Gen Require Import Prec.
Import ListNotations.
Local Open Scope nat_scope.

(* ================================================================ *)
(** * The rules, on the tree                                         *)

(* where a statement stands: outside every function; inside a procedure (func without return
   type) or an event handler; inside a func with a return type *)
Inductive fkind := KTop | KProc | KFun.

(* a statement after which control never reaches the next statement of its block *)
Fixpoint stmt_term (s : stmt) : bool :=
  match s with
  | SReturn _ | SBreak => true
  | SIf brs (Some e) => block_term e && forallb (fun cb => block_term (snd cb)) brs
  | _ => false
  end
with block_term (b : block) : bool :=
  match b with Block l _ => existsb stmt_term l end.

(* every path through the statement ends in a return *)
Fixpoint stmt_returns (s : stmt) : bool :=
  match s with
  | SReturn _ => true
  | SIf brs (Some e) => block_returns e && forallb (fun cb => block_returns (snd cb)) brs
  | _ => false
  end
with block_returns (b : block) : bool :=
  match b with Block l _ => existsb stmt_returns l end.

(* (c) unreachable code: nothing but empty statements (blank lines, comments) after a terminating statement *)
Fixpoint no_dead (l : list stmt) : bool :=
  match l with
  | [] => true
  | s :: r => (if stmt_term s then forallb is_empty_stmt r else true) && no_dead r
  end.

Definition is_top (k : fkind) : bool := match k with KTop => true | _ => false end.

(* (a) break only inside a while / for body of the same function
   (b) a func with a return type returns on every path
   (c) no unreachable code
   (d) return only inside a function or handler; a func with a return type never has a bare
       return  (a value after return in a procedure / handler is a typing matter: the type
       checker accepts exactly values of type none, see tree_ok / the typing oracle)
   functions and handlers are declared at top level only *)
Fixpoint stmt_ok (k : fkind) (inl : bool) (s : stmt) : bool :=
  match s with
  | SBreak => inl
  | SReturn v => match k with
                 | KTop => false
                 | KProc => true
                 | KFun => match v with Some _ => true | None => false end
                 end
  | SIf brs els =>
      forallb (fun cb => block_ok k inl (snd cb)) brs &&
      match els with Some e => block_ok k inl e | None => true end
  | SWhile _ b => block_ok k true b
  | SFor _ _ b => block_ok k true b
  | SFunc _ ret _ b =>
      is_top k && block_ok (if ret then KFun else KProc) false b && (if ret then block_returns b else true)
  | SOn _ _ b => is_top k && block_ok KProc false b
  | _ => true
  end
with block_ok (k : fkind) (inl : bool) (b : block) : bool :=
  match b with Block l _ => forallb (stmt_ok k inl) l && no_dead l end.

(* a program: the top-level statement list *)
Definition structure_ok (p : list stmt) : bool :=
  forallb (stmt_ok KTop false) p && no_dead p.

(* ================================================================ *)
(** * Errors are never removed                                       *)

(* NE c c': if no error is recorded in c' then none was recorded in c *)
Definition NE (c c' : pstate) : Prop := errs c' = [] -> errs c = [].

Lemma errs_advance_wss c : errs (advance_wss c) = errs c.
Proof. reflexivity. Qed.
Lemma errs_advance_if_ws c : errs (advance_if_ws c) = errs c.
Proof. unfold advance_if_ws. destruct (is_ws (cur c)); reflexivity. Qed.
Lemma errs_advance c : errs (advance c) = errs c.
Proof.
  unfold advance. destruct (is_wss (advance_wss c)); [reflexivity|].
  destruct (is_ws (peek (advance_if_ws (advance_wss c)))); simpl; rewrite errs_advance_if_ws; reflexivity.
Qed.
Lemma errs_push_wss b c : errs (push_wss b c) = errs c.
Proof. reflexivity. Qed.
Lemma errs_pop_wss c : errs (pop_wss c) = errs c.
Proof. unfold pop_wss. destruct (_ && _); [rewrite errs_advance|]; reflexivity. Qed.
Lemma errs_mark_used n c : errs (mark_used n c) = errs c.
Proof. reflexivity. Qed.
Lemma errs_slice_close E c : errs (slice_close E c) = errs c.
Proof. unfold slice_close. destruct (e_fix_slice E); [reflexivity|apply errs_advance]. Qed.
Lemma errs_add_err_at e n c : errs (add_err_at e n c) = (e, n) :: errs c.
Proof. reflexivity. Qed.
Lemma errs_add_err e c : errs (add_err e c) = (e, here c) :: errs c.
Proof. reflexivity. Qed.
Lemma errs_unexpected_left c : errs (unexpected_left c) <> [].
Proof. unfold unexpected_left. destruct (_ && _); intro H; discriminate H. Qed.

#[local] Hint Rewrite errs_advance_wss errs_advance_if_ws errs_advance errs_push_wss errs_pop_wss errs_mark_used
  errs_slice_close errs_add_err_at errs_add_err : errs.

(* assertToken without a recorded error: the token was there *)
Lemma assert_token_ne t c ok c' : assert_token t c = (ok, c') -> errs c' = [] -> ok = true /\ c' = c.
Proof.
  unfold assert_token. destruct (toktype_beq (cur_t c) t); intro H; inversion H; subst; [auto|].
  intro Q. discriminate Q.
Qed.
Lemma snd_assert_token_ne t c : errs (snd (assert_token t c)) = [] -> snd (assert_token t c) = c.
Proof. unfold assert_token. destruct (toktype_beq (cur_t c) t); simpl; [reflexivity|discriminate]. Qed.

(* close a goal  errs c = []  from facts about later states, all expressed through rewriting *)
Ltac ne :=
  repeat match goal with
         | H : context[errs (if ?b then _ else _)] |- _ => destruct b
         | |- context[errs (if ?b then _ else _)] => destruct b
         end;
  repeat match goal with
         | H : errs _ = [] |- _ => progress (autorewrite with errs in H)
         | H : _ :: _ = [] |- _ => discriminate H
         | H : errs (unexpected_left _) = [] |- _ => exfalso; exact (errs_unexpected_left _ H)
         end;
  autorewrite with errs; try assumption; try discriminate; auto.

(* a leaf  Some (x, st) = Some (a, c')  of a function body *)
Ltac leaf H := solve [ unfold ret in H; injection H as ? ?; subst; intro; ne ].

Lemma multiline_ws_ne : forall fuel c c', parse_multiline_ws fuel c = Some c' -> NE c c'.
Proof.
  induction fuel as [|f IH]; intros c c' H; [discriminate|]. cbn [parse_multiline_ws] in H.
  destruct (cur_t c); try (inversion H; subst; intro Q; exact Q).
  - apply IH in H. intro Q. specialize (H Q). autorewrite with errs in H. apply snd_assert_token_ne in H as H2.
    rewrite H2 in H. exact H.
  - apply IH in H. intro Q. specialize (H Q). exact H.
  - apply IH in H. intro Q. specialize (H Q). exact H.
Qed.

Lemma parse_type_ne : forall fuel c a c', parse_type fuel c = Some (a, c') -> NE c c'.
Proof.
  induction fuel as [|f IH]; intros c a c' H; [discriminate|]. cbn [parse_type] in H. unfold ret in H.
  destruct (cur_t c); try leaf H.
  - destruct (cur_t (advance c)); try leaf H.
    destruct (parse_type f (advance (advance c))) as [[sub c2]|] eqn:P; [|discriminate H].
    injection H as ? ?; subst. apply IH in P. intro Q. specialize (P Q). ne.
  - destruct (cur_t (advance c)); try leaf H.
    destruct (parse_type f (advance (advance c))) as [[sub c2]|] eqn:P; [|discriminate H].
    injection H as ? ?; subst. apply IH in P. intro Q. specialize (P Q). ne.
Qed.

(* turn a recorded sub-call  P : f .. c = Some (x, c1)  into  NE c c1 ; extended as lemmas are proved *)
Ltac sub_ne P := first [ apply multiline_ws_ne in P | apply parse_type_ne in P ].

(* use every NE fact whose later state is known to be error free, then close *)
Ltac chain :=
  repeat match goal with
         | Hn : NE ?a ?b |- _ =>
             let T := fresh "T" in assert (T : errs b = []) by ne; specialize (Hn T); clear T
         | Hn : assert_token ?t ?x = (?ok, ?y) |- _ =>
             let T := fresh "T" in assert (T : errs y = []) by ne;
             destruct (assert_token_ne _ _ _ _ Hn T); subst; clear Hn T
         end;
  ne.

(* walk through the body of a function recorded in H : body = Some (a, c') *)
Local Set Warnings "-unused-intro-pattern".
Ltac chew H :=
  unfold ret in H;
  repeat (first
    [ discriminate H
    | match type of H with
      | Some (_, _) = Some (_, _) => fail 1
      | (match ?m with _ => _ end) = Some _ =>
          lazymatch m with
          | context[match _ with _ => _ end] => fail
          | _ => let P := fresh "P" in first [ destruct m as [[? ?]|] eqn:P | destruct m eqn:P ]; try sub_ne P
          end
      | (if ?b then _ else _) = Some _ => let P := fresh "B" in destruct b eqn:P
      | (let '(_, _) := ?m in _) = Some _ => let P := fresh "A" in destruct m eqn:P
      end ]).
Ltac fin_ne H := solve [ injection H as ? ?; subst; intro; chain ].

Section ExprNE.
Variable E : env.
Variable pe : nat -> pstate -> res (option tree).
Hypothesis HPE : forall p c a c', pe p c = Some (a, c') -> NE c c'.

Ltac sub_ne P ::= first [ apply multiline_ws_ne in P | apply parse_type_ne in P | apply HPE in P ].

Lemma expr_wss_ne c a c' : parse_expr_wss pe c = Some (a, c') -> NE c c'.
Proof. unfold parse_expr_wss. intro H. chew H. fin_ne H. Qed.

Ltac sub_ne P ::= first [ apply multiline_ws_ne in P | apply parse_type_ne in P | apply HPE in P | apply expr_wss_ne in P ].

Lemma expr_list_ne : forall fuel acc c a c', parse_expr_list pe fuel acc c = Some (a, c') -> NE c c'.
Proof.
  induction fuel as [|f IH]; intros acc c a c' H; [discriminate|]. cbn [parse_expr_list] in H.
  assert (D : (if is_at_eol c then ret (Some (rev acc)) c else
            (do (n, st1) <- parse_expr_wss pe c;
             match n with None => ret None st1 | Some t => parse_expr_list pe f (t :: acc) (advance_if_ws st1) end)) = Some (a, c') -> NE c c').
  { clear H. intro H. chew H; try fin_ne H. apply IH in H. intro Q. specialize (H Q). chain. }
  destruct (cur_t c); try exact (D H); fin_ne H.
Qed.
Ltac sub_ne P ::= first [ apply multiline_ws_ne in P | apply parse_type_ne in P | apply HPE in P | apply expr_wss_ne in P
                        | apply expr_list_ne in P ].

Lemma func_call_ne fuel top nil c a c' : parse_func_call E pe fuel top nil c = Some (a, c') -> NE c c'.
Proof. unfold parse_func_call, tyerr. intro H. chew H; fin_ne H. Qed.
Ltac sub_ne P ::= first [ apply multiline_ws_ne in P | apply parse_type_ne in P | apply HPE in P | apply expr_wss_ne in P
                        | apply expr_list_ne in P | apply func_call_ne in P ].

Lemma toplevel_ne fuel c a c' : parse_toplevel E pe fuel c = Some (a, c') -> NE c c'.
Proof.
  unfold parse_toplevel. intro H.
  destruct (cur_t c); try (apply HPE in H; exact H).
  destruct (func_of E (tlit (cur c))) as [[|]|]; try (apply HPE in H; exact H).
  apply func_call_ne in H. exact H.
Qed.

Lemma lookup_var_ne c a c' : lookup_var E c = Some (a, c') -> NE c c'.
Proof. unfold lookup_var. intro H. chew H; fin_ne H. Qed.

Lemma ident_expr_ne fuel c a c' : parse_ident_expr E pe fuel c = Some (a, c') -> NE c c'.
Proof.
  unfold parse_ident_expr. intro H.
  destruct (func_of E _) as [[|]|]; first [apply func_call_ne in H | apply lookup_var_ne in H]; exact H.
Qed.
Ltac sub_ne P ::= first [ apply multiline_ws_ne in P | apply parse_type_ne in P | apply HPE in P | apply expr_wss_ne in P
                        | apply expr_list_ne in P | apply func_call_ne in P | apply toplevel_ne in P ].

Lemma array_elems_ne : forall fuel acc c a c', parse_array_elems E pe fuel acc c = Some (a, c') -> NE c c'.
Proof.
  induction fuel as [|f IH]; intros acc c a c' H; [discriminate|]. cbn [parse_array_elems] in H. unfold tyerr in H.
  destruct (cur_t c); try fin_ne H;
    (chew H; try fin_ne H; apply IH in H; intro Q; specialize (H Q); chain).
Qed.

Lemma array_literal_ne fuel c a c' : parse_array_literal E pe fuel c = Some (a, c') -> NE c c'.
Proof.
  unfold parse_array_literal. intro H.
  destruct (parse_multiline_ws fuel (advance c)) as [c2|] eqn:W; [|discriminate H]. apply multiline_ws_ne in W.
  destruct (parse_array_elems E pe fuel [] c2) as [[els c3]|] eqn:P; [|discriminate H]. apply array_elems_ne in P.
  chew H; fin_ne H.
Qed.

Lemma map_pairs_ne : forall fuel acc c a c', parse_map_pairs E pe fuel acc c = Some (a, c') -> NE c c'.
Proof.
  induction fuel as [|f IH]; intros acc c a c' H; [discriminate|]. cbn [parse_map_pairs] in H. unfold tyerr in H.
  destruct (cur_t c); try fin_ne H;
    (set (st0 := match ttype (as_ident (cur c)) with T_IDENT => c | _ => add_err E_map_key c end) in H;
     assert (N0 : NE c st0) by (unfold st0; destruct (ttype (as_ident (cur c))); intro Q; ne);
     set (st3 := advance (snd (assert_token T_COLON (advance st0)))) in H;
     assert (N3 : NE st0 st3)
       by (unfold st3; intro Q; autorewrite with errs in Q; pose proof (snd_assert_token_ne _ _ Q) as HS; rewrite HS in Q; ne);
     assert (N1 : NE st0 (advance st0)) by (intro Q; ne);
     chew H; try fin_ne H;
     apply IH in H; intro Q; specialize (H Q); chain).
Qed.

Lemma map_literal_ne fuel c a c' : parse_map_literal E pe fuel c = Some (a, c') -> NE c c'.
Proof.
  unfold parse_map_literal. intro H.
  destruct (parse_multiline_ws fuel (advance (push_wss false c))) as [c2|] eqn:W; [|discriminate H]. apply multiline_ws_ne in W.
  destruct (parse_map_pairs E pe fuel [] c2) as [[ps c3]|] eqn:P; [|discriminate H]. apply map_pairs_ne in P.
  chew H; fin_ne H.
Qed.

Lemma literal_ne fuel c a c' : parse_literal E pe fuel c = Some (a, c') -> NE c c'.
Proof.
  unfold parse_literal. intro H.
  destruct (ttype (cur c)); try fin_ne H.
  - chew H; fin_ne H.
  - apply array_literal_ne in H. exact H.
  - apply map_literal_ne in H. exact H.
Qed.

Lemma unary_ne c a c' : parse_unary E pe c = Some (a, c') -> NE c c'.
Proof.
  unfold parse_unary, tyerr. intro H.
  set (st2 := if is_ws (prev (advance c)) then add_err_at E_ws_after_unary (here c) (advance c) else advance c) in H.
  assert (N2 : NE c st2) by (unfold st2; destruct (is_ws _); intro Q; ne).
  chew H; fin_ne H.
Qed.

Lemma binary_ne left c a c' : parse_binary E pe left c = Some (a, c') -> NE c c'.
Proof. unfold parse_binary, tyerr. intro H. chew H; fin_ne H. Qed.

Lemma grouped_ne fuel c a c' : parse_grouped E pe fuel c = Some (a, c') -> NE c c'.
Proof. unfold parse_grouped. intro H. chew H; fin_ne H. Qed.

Lemma slice_ne fuel tok left start c a c' : parse_slice E pe fuel tok left start c = Some (a, c') -> NE c c'.
Proof.
  unfold parse_slice, tyerr. intro H.
  destruct (e_tyerr E TS_not_sliceable left tok); [fin_ne H|].
  destruct (cur_t c); cbv zeta in H; chew H; fin_ne H.
Qed.
Ltac sub_ne P ::= first [ apply multiline_ws_ne in P | apply parse_type_ne in P | apply HPE in P | apply expr_wss_ne in P
                        | apply expr_list_ne in P | apply func_call_ne in P | apply toplevel_ne in P | apply slice_ne in P ].

Lemma index_or_slice_ne fuel allow left c a c' : parse_index_or_slice E pe fuel allow left c = Some (a, c') -> NE c c'.
Proof. unfold parse_index_or_slice, tyerr. intro H. chew H; fin_ne H. Qed.

Lemma dot_ne left c a c' : parse_dot E left c = Some (a, c') -> NE c c'.
Proof. unfold parse_dot, tyerr. intro H. chew H; fin_ne H. Qed.

Lemma type_assertion_ne fuel left c a c' : parse_type_assertion E fuel left c = Some (a, c') -> NE c c'.
Proof.
  unfold parse_type_assertion, tyerr. intro H.
  destruct (is_ws (prev c)); [fin_ne H|]. destruct (is_ws (look1 (rest c))); [fin_ne H|].
  destruct (parse_type fuel (advance (advance (push_wss false c)))) as [[t c2]|] eqn:P; [|discriminate H]. apply parse_type_ne in P.
  set (st3 := match t with None => add_err_at E_bad_type (here c) c2 | Some TyAny => add_err_at E_assert_any (here c) c2 | Some _ => c2 end) in H.
  assert (N3 : NE c2 st3) by (unfold st3; destruct t as [[]|]; intro Q; ne).
  destruct (assert_token T_RPAREN st3) as [ok c4] eqn:A.
  set (st5 := if ok then advance_wss c4 else c4) in H.
  assert (N5 : NE c4 st5) by (unfold st5; destruct ok; intro Q; ne).
  set (st6 := if e_tyerr E TS_assert_not_any left (here c) then add_err_at (E_type TS_assert_not_any) (here c) st5 else st5) in H.
  assert (N6 : NE st5 st6) by (unfold st6; destruct (e_tyerr E _ _ _); intro Q; ne).
  destruct t; unfold ret in H; injection H as ? ?; subst; intro Q; autorewrite with errs in Q;
    specialize (N6 Q); specialize (N5 N6); destruct (assert_token_ne _ _ _ _ A N5); subst; specialize (N3 N5); specialize (P N3); ne.
Qed.

Lemma prefix_ne fuel c a c' : parse_prefix E pe fuel c = Some (a, c') -> NE c c'.
Proof.
  unfold parse_prefix. intro H.
  destruct (cur_t c); try fin_ne H;
    first [ apply ident_expr_ne in H | apply literal_ne in H | apply unary_ne in H | apply grouped_ne in H ]; exact H.
Qed.

Lemma infix_ne fuel left c r a c' : parse_infix E pe fuel left c = Some r -> r = Some (a, c') -> NE c c'.
Proof.
  unfold parse_infix. intros H R.
  destruct (is_binary_op (cur_t c)).
  - injection H as <-. apply binary_ne in R. exact R.
  - destruct (cur_t c); try discriminate H.
    + injection H as <-. apply index_or_slice_ne in R. exact R.
    + destruct (ttype (peek c)); injection H as <-; first [apply type_assertion_ne in R | apply dot_ne in R]; exact R.
Qed.

End ExprNE.

Lemma expr_ne E : forall fuel,
  (forall p c a c', parse_expr E fuel p c = Some (a, c') -> NE c c') /\
  (forall p l c a c', expr_loop E fuel p l c = Some (a, c') -> NE c c').
Proof.
  induction fuel as [|f [IHe IHl]]; [split; intros; discriminate|].
  split.
  - intros p c a c' H. rewrite parse_expr_unfold in H.
    destruct (parse_prefix E (parse_expr E f) f c) as [[l c1]|] eqn:P; [|discriminate H].
    apply (prefix_ne E (parse_expr E f) IHe) in P.
    destruct l as [lf|].
    + apply IHl in H. intro Q. apply P. apply H. exact Q.
    + unfold ret in H. injection H as ? ?; subst. exact P.
  - intros p l c a c' H. rewrite expr_loop_unfold in H.
    destruct (is_at_expr_end c); [unfold ret in H; injection H as ? ?; subst; intro Q; exact Q|].
    destruct (loop_continues p (precedences (cur_t c))); [|unfold ret in H; injection H as ? ?; subst; intro Q; exact Q].
    destruct (parse_infix E (parse_expr E f) f l c) as [r|] eqn:PI; [|unfold ret in H; injection H as ? ?; subst; intro Q; exact Q].
    destruct r as [[l1 c1]|] eqn:R; [|discriminate H].
    pose proof (infix_ne E (parse_expr E f) IHe f l c _ l1 c1 PI eq_refl) as N1.
    destruct l1 as [lf|].
    + apply IHl in H. intro Q. apply N1. apply H. exact Q.
    + unfold ret in H. injection H as ? ?; subst. exact N1.
Qed.
