(* ParserRules.v — C05: an ACCEPTED program satisfies every structural static rule.

   rules_ok is an independent, declarative (structurally recursive, boolean) predicate on
   the accepted tree, written from the property text and docs/spec.md — it does not look
   at the parser's bookkeeping (the alwaysTerms flags stored in blocks are ignored).
   Theorem: for every token list, builtin table and typing oracle,
     parse B raw eof = Accept p  ->  rules_ok p = true.
   Proof: every error site of the model makes the final error list non-empty (errors are
   never removed), so on an accepted run no error branch was taken, and the success
   branches build only trees that satisfy the rules. *)
From Coq Require Import List NArith ZArith Bool Arith Lia String.
From EvyV Require Import Base Pratt Parser ParserProofs.
From EvyV.Gen Require Import Prec.
Import ListNotations.
Local Open Scope nat_scope.

(* ================================================================ *)
(** * The rules, on the tree                                         *)

(* where a statement stands: outside every function; inside a procedure (func without return
   type) or an event handler; inside a func with a return type *)
Inductive fkind := KTop | KProc | KFun.

(* a statement after which control never reaches the next statement of its block *)
Fixpoint stmt_term (s : stmt) : bool :=
  match s with
  | SReturn _ | SBreak => true
  | SIf brs (Some e) => block_term e && forallb (fun cb => block_term (snd cb)) brs
  | _ => false
  end
with block_term (b : block) : bool :=
  match b with Block l _ => existsb stmt_term l end.

(* every path through the statement ends in a return *)
Fixpoint stmt_returns (s : stmt) : bool :=
  match s with
  | SReturn _ => true
  | SIf brs (Some e) => block_returns e && forallb (fun cb => block_returns (snd cb)) brs
  | _ => false
  end
with block_returns (b : block) : bool :=
  match b with Block l _ => existsb stmt_returns l end.

(* (c) unreachable code: nothing but empty statements (blank lines, comments) after a terminating statement *)
Fixpoint no_dead (l : list stmt) : bool :=
  match l with
  | [] => true
  | s :: r => (if stmt_term s then forallb is_empty_stmt r else true) && no_dead r
  end.

Definition is_top (k : fkind) : bool := match k with KTop => true | _ => false end.

(* (a) break only inside a while / for body of the same function
   (b) a func with a return type returns on every path
   (c) no unreachable code
   (d) return only inside a function or handler; a func with a return type never has a bare
       return  (a value after return in a procedure / handler is a typing matter: the type
       checker accepts exactly values of type none, see tree_ok / the typing oracle)
   functions and handlers are declared at top level only *)
Fixpoint stmt_ok (k : fkind) (inl : bool) (s : stmt) : bool :=
  match s with
  | SBreak => inl
  | SReturn v => match k with
                 | KTop => false
                 | KProc => true
                 | KFun => match v with Some _ => true | None => false end
                 end
  | SIf brs els =>
      forallb (fun cb => block_ok k inl (snd cb)) brs &&
      match els with Some e => block_ok k inl e | None => true end
  | SWhile _ b => block_ok k true b
  | SFor _ _ b => block_ok k true b
  | SFunc _ ret _ b =>
      is_top k && block_ok (if ret then KFun else KProc) false b && (if ret then block_returns b else true)
  | SOn _ _ b => is_top k && block_ok KProc false b
  | _ => true
  end
with block_ok (k : fkind) (inl : bool) (b : block) : bool :=
  match b with Block l _ => forallb (stmt_ok k inl) l && no_dead l end.

(* a program: the top-level statement list *)
Definition structure_ok (p : list stmt) : bool :=
  forallb (stmt_ok KTop false) p && no_dead p.

(* ================================================================ *)
(** * Errors are never removed                                       *)

(* NE c c': if no error is recorded in c' then none was recorded in c *)
Definition NE (c c' : pstate) : Prop := errs c' = [] -> errs c = [].

Lemma errs_advance_wss c : errs (advance_wss c) = errs c.
Proof. reflexivity. Qed.
Lemma errs_advance_if_ws c : errs (advance_if_ws c) = errs c.
Proof. unfold advance_if_ws. destruct (is_ws (cur c)); reflexivity. Qed.
Lemma errs_advance c : errs (advance c) = errs c.
Proof.
  unfold advance. destruct (is_wss (advance_wss c)); [reflexivity|].
  destruct (is_ws (peek (advance_if_ws (advance_wss c)))); simpl; rewrite errs_advance_if_ws; reflexivity.
Qed.
Lemma errs_push_wss b c : errs (push_wss b c) = errs c.
Proof. reflexivity. Qed.
Lemma errs_pop_wss c : errs (pop_wss c) = errs c.
Proof. unfold pop_wss. destruct (_ && _); [rewrite errs_advance|]; reflexivity. Qed.
Lemma errs_mark_used n c : errs (mark_used n c) = errs c.
Proof. reflexivity. Qed.
Lemma errs_slice_close E c : errs (slice_close E c) = errs c.
Proof. unfold slice_close. destruct (e_fix_slice E); [reflexivity|apply errs_advance]. Qed.
Lemma errs_add_err_at e n c : errs (add_err_at e n c) = (e, n) :: errs c.
Proof. reflexivity. Qed.
Lemma errs_add_err e c : errs (add_err e c) = (e, here c) :: errs c.
Proof. reflexivity. Qed.
Lemma errs_unexpected_left c : errs (unexpected_left c) <> [].
Proof. unfold unexpected_left. destruct (_ && _); intro H; discriminate H. Qed.

#[local] Hint Rewrite errs_advance_wss errs_advance_if_ws errs_advance errs_push_wss errs_pop_wss errs_mark_used
  errs_slice_close errs_add_err_at errs_add_err : errs.

(* assertToken without a recorded error: the token was there *)
Lemma assert_token_ne t c ok c' : assert_token t c = (ok, c') -> errs c' = [] -> ok = true /\ c' = c.
Proof.
  unfold assert_token. destruct (toktype_beq (cur_t c) t); intro H; inversion H; subst; [auto|].
  intro Q. discriminate Q.
Qed.
Lemma snd_assert_token_ne t c : errs (snd (assert_token t c)) = [] -> snd (assert_token t c) = c.
Proof. unfold assert_token. destruct (toktype_beq (cur_t c) t); simpl; [reflexivity|discriminate]. Qed.

(* close a goal  errs c = []  from facts about later states, all expressed through rewriting *)
Ltac ne :=
  repeat match goal with
         | H : context[errs (if ?b then _ else _)] |- _ => destruct b
         | |- context[errs (if ?b then _ else _)] => destruct b
         end;
  repeat match goal with
         | H : errs _ = [] |- _ => progress (autorewrite with errs in H)
         | H : _ :: _ = [] |- _ => discriminate H
         | H : errs (unexpected_left _) = [] |- _ => exfalso; exact (errs_unexpected_left _ H)
         end;
  autorewrite with errs; try assumption; try discriminate; auto.

(* a leaf  Some (x, st) = Some (a, c')  of a function body *)
Ltac leaf H := solve [ unfold ret in H; injection H as ? ?; subst; intro; ne ].

Lemma multiline_ws_ne : forall fuel c c', parse_multiline_ws fuel c = Some c' -> NE c c'.
Proof.
  induction fuel as [|f IH]; intros c c' H; [discriminate|]. cbn [parse_multiline_ws] in H.
  destruct (cur_t c); try (inversion H; subst; intro Q; exact Q).
  - apply IH in H. intro Q. specialize (H Q). autorewrite with errs in H. apply snd_assert_token_ne in H as H2.
    rewrite H2 in H. exact H.
  - apply IH in H. intro Q. specialize (H Q). exact H.
  - apply IH in H. intro Q. specialize (H Q). exact H.
Qed.

Lemma parse_type_ne : forall fuel c a c', parse_type fuel c = Some (a, c') -> NE c c'.
Proof.
  induction fuel as [|f IH]; intros c a c' H; [discriminate|]. cbn [parse_type] in H. unfold ret in H.
  destruct (cur_t c); try leaf H.
  - destruct (cur_t (advance c)); try leaf H.
    destruct (parse_type f (advance (advance c))) as [[sub c2]|] eqn:P; [|discriminate H].
    injection H as ? ?; subst. apply IH in P. intro Q. specialize (P Q). ne.
  - destruct (cur_t (advance c)); try leaf H.
    destruct (parse_type f (advance (advance c))) as [[sub c2]|] eqn:P; [|discriminate H].
    injection H as ? ?; subst. apply IH in P. intro Q. specialize (P Q). ne.
Qed.

(* turn a recorded sub-call  P : f .. c = Some (x, c1)  into  NE c c1 ; extended as lemmas are proved *)
Ltac sub_ne P := first [ apply multiline_ws_ne in P | apply parse_type_ne in P ].

(* use every NE fact whose later state is known to be error free, then close *)
Ltac chain :=
  repeat match goal with
         | Hn : NE ?a ?b |- _ =>
             let T := fresh "T" in assert (T : errs b = []) by ne; specialize (Hn T); clear T
         | Hn : assert_token ?t ?x = (?ok, ?y) |- _ =>
             let T := fresh "T" in assert (T : errs y = []) by ne;
             destruct (assert_token_ne _ _ _ _ Hn T); subst; clear Hn T
         end;
  ne.

(* walk through the body of a function recorded in H : body = Some (a, c') *)
Local Set Warnings "-unused-intro-pattern".
Ltac chew H :=
  unfold ret in H;
  repeat (first
    [ discriminate H
    | match type of H with
      | Some (_, _) = Some (_, _) => fail 1
      | (match ?m with _ => _ end) = Some _ =>
          lazymatch m with
          | context[match _ with _ => _ end] => fail
          | _ => let P := fresh "P" in first [ destruct m as [[? ?]|] eqn:P | destruct m eqn:P ]; try sub_ne P
          end
      | (if ?b then _ else _) = Some _ => let P := fresh "B" in destruct b eqn:P
      | (let '(_, _) := ?m in _) = Some _ => let P := fresh "A" in destruct m eqn:P
      end ]).
Ltac fin_ne H := solve [ injection H as ? ?; subst; intro; chain ].

Section ExprNE.
Variable E : env.
Variable pe : nat -> pstate -> res (option tree).
Hypothesis HPE : forall p c a c', pe p c = Some (a, c') -> NE c c'.

Ltac sub_ne P ::= first [ apply multiline_ws_ne in P | apply parse_type_ne in P | apply HPE in P ].

Lemma expr_wss_ne c a c' : parse_expr_wss pe c = Some (a, c') -> NE c c'.
Proof. unfold parse_expr_wss. intro H. chew H. fin_ne H. Qed.

Ltac sub_ne P ::= first [ apply multiline_ws_ne in P | apply parse_type_ne in P | apply HPE in P | apply expr_wss_ne in P ].

Lemma expr_list_ne : forall fuel acc c a c', parse_expr_list pe fuel acc c = Some (a, c') -> NE c c'.
Proof.
  induction fuel as [|f IH]; intros acc c a c' H; [discriminate|]. cbn [parse_expr_list] in H.
  assert (D : (if is_at_eol c then ret (Some (rev acc)) c else
            (do (n, st1) <- parse_expr_wss pe c;
             match n with None => ret None st1 | Some t => parse_expr_list pe f (t :: acc) (advance_if_ws st1) end)) = Some (a, c') -> NE c c').
  { clear H. intro H. chew H; try fin_ne H. apply IH in H. intro Q. specialize (H Q). chain. }
  destruct (cur_t c); try exact (D H); fin_ne H.
Qed.
Ltac sub_ne P ::= first [ apply multiline_ws_ne in P | apply parse_type_ne in P | apply HPE in P | apply expr_wss_ne in P
                        | apply expr_list_ne in P ].

Lemma func_call_ne fuel top nil c a c' : parse_func_call E pe fuel top nil c = Some (a, c') -> NE c c'.
Proof. unfold parse_func_call, tyerr. intro H. chew H; fin_ne H. Qed.
Ltac sub_ne P ::= first [ apply multiline_ws_ne in P | apply parse_type_ne in P | apply HPE in P | apply expr_wss_ne in P
                        | apply expr_list_ne in P | apply func_call_ne in P ].

Lemma toplevel_ne fuel c a c' : parse_toplevel E pe fuel c = Some (a, c') -> NE c c'.
Proof.
  unfold parse_toplevel. intro H.
  destruct (cur_t c); try (apply HPE in H; exact H).
  destruct (func_of E (tlit (cur c))) as [[|]|]; try (apply HPE in H; exact H).
  apply func_call_ne in H. exact H.
Qed.

Lemma lookup_var_ne c a c' : lookup_var E c = Some (a, c') -> NE c c'.
Proof. unfold lookup_var. intro H. chew H; fin_ne H. Qed.

Lemma ident_expr_ne fuel c a c' : parse_ident_expr E pe fuel c = Some (a, c') -> NE c c'.
Proof.
  unfold parse_ident_expr. intro H.
  destruct (func_of E _) as [[|]|]; first [apply func_call_ne in H | apply lookup_var_ne in H]; exact H.
Qed.
Ltac sub_ne P ::= first [ apply multiline_ws_ne in P | apply parse_type_ne in P | apply HPE in P | apply expr_wss_ne in P
                        | apply expr_list_ne in P | apply func_call_ne in P | apply toplevel_ne in P ].

Lemma array_elems_ne : forall fuel acc c a c', parse_array_elems E pe fuel acc c = Some (a, c') -> NE c c'.
Proof.
  induction fuel as [|f IH]; intros acc c a c' H; [discriminate|]. cbn [parse_array_elems] in H. unfold tyerr in H.
  destruct (cur_t c); try fin_ne H;
    (chew H; try fin_ne H; apply IH in H; intro Q; specialize (H Q); chain).
Qed.

Lemma array_literal_ne fuel c a c' : parse_array_literal E pe fuel c = Some (a, c') -> NE c c'.
Proof.
  unfold parse_array_literal. intro H.
  destruct (parse_multiline_ws fuel (advance c)) as [c2|] eqn:W; [|discriminate H]. apply multiline_ws_ne in W.
  destruct (parse_array_elems E pe fuel [] c2) as [[els c3]|] eqn:P; [|discriminate H]. apply array_elems_ne in P.
  chew H; fin_ne H.
Qed.

Lemma map_pairs_ne : forall fuel acc c a c', parse_map_pairs E pe fuel acc c = Some (a, c') -> NE c c'.
Proof.
  induction fuel as [|f IH]; intros acc c a c' H; [discriminate|]. cbn [parse_map_pairs] in H. unfold tyerr in H.
  destruct (cur_t c); try fin_ne H;
    (set (st0 := match ttype (as_ident (cur c)) with T_IDENT => c | _ => add_err E_map_key c end) in H;
     assert (N0 : NE c st0) by (unfold st0; destruct (ttype (as_ident (cur c))); intro Q; ne);
     set (st3 := advance (snd (assert_token T_COLON (advance st0)))) in H;
     assert (N3 : NE st0 st3)
       by (unfold st3; intro Q; autorewrite with errs in Q; pose proof (snd_assert_token_ne _ _ Q) as HS; rewrite HS in Q; ne);
     assert (N1 : NE st0 (advance st0)) by (intro Q; ne);
     chew H; try fin_ne H;
     apply IH in H; intro Q; specialize (H Q); chain).
Qed.

Lemma map_literal_ne fuel c a c' : parse_map_literal E pe fuel c = Some (a, c') -> NE c c'.
Proof.
  unfold parse_map_literal. intro H.
  destruct (parse_multiline_ws fuel (advance (push_wss false c))) as [c2|] eqn:W; [|discriminate H]. apply multiline_ws_ne in W.
  destruct (parse_map_pairs E pe fuel [] c2) as [[ps c3]|] eqn:P; [|discriminate H]. apply map_pairs_ne in P.
  chew H; fin_ne H.
Qed.

Lemma literal_ne fuel c a c' : parse_literal E pe fuel c = Some (a, c') -> NE c c'.
Proof.
  unfold parse_literal. intro H.
  destruct (ttype (cur c)); try fin_ne H.
  - chew H; fin_ne H.
  - apply array_literal_ne in H. exact H.
  - apply map_literal_ne in H. exact H.
Qed.

Lemma unary_ne c a c' : parse_unary E pe c = Some (a, c') -> NE c c'.
Proof.
  unfold parse_unary, tyerr. intro H.
  set (st2 := if is_ws (prev (advance c)) then add_err_at E_ws_after_unary (here c) (advance c) else advance c) in H.
  assert (N2 : NE c st2) by (unfold st2; destruct (is_ws _); intro Q; ne).
  chew H; fin_ne H.
Qed.

Lemma binary_ne left c a c' : parse_binary E pe left c = Some (a, c') -> NE c c'.
Proof. unfold parse_binary, tyerr. intro H. chew H; fin_ne H. Qed.

Lemma grouped_ne fuel c a c' : parse_grouped E pe fuel c = Some (a, c') -> NE c c'.
Proof. unfold parse_grouped. intro H. chew H; fin_ne H. Qed.

Lemma slice_ne fuel tok left start c a c' : parse_slice E pe fuel tok left start c = Some (a, c') -> NE c c'.
Proof.
  unfold parse_slice, tyerr. intro H.
  destruct (e_tyerr E TS_not_sliceable left tok); [fin_ne H|].
  destruct (cur_t c); cbv zeta in H; chew H; fin_ne H.
Qed.
Ltac sub_ne P ::= first [ apply multiline_ws_ne in P | apply parse_type_ne in P | apply HPE in P | apply expr_wss_ne in P
                        | apply expr_list_ne in P | apply func_call_ne in P | apply toplevel_ne in P | apply slice_ne in P ].

Lemma index_or_slice_ne fuel allow left c a c' : parse_index_or_slice E pe fuel allow left c = Some (a, c') -> NE c c'.
Proof. unfold parse_index_or_slice, tyerr. intro H. chew H; fin_ne H. Qed.

Lemma dot_ne left c a c' : parse_dot E left c = Some (a, c') -> NE c c'.
Proof. unfold parse_dot, tyerr. intro H. chew H; fin_ne H. Qed.

Lemma type_assertion_ne fuel left c a c' : parse_type_assertion E fuel left c = Some (a, c') -> NE c c'.
Proof.
  unfold parse_type_assertion, tyerr. intro H.
  destruct (is_ws (prev c)); [fin_ne H|]. destruct (is_ws (look1 (rest c))); [fin_ne H|].
  destruct (parse_type fuel (advance (advance (push_wss false c)))) as [[t c2]|] eqn:P; [|discriminate H]. apply parse_type_ne in P.
  set (st3 := match t with None => add_err_at E_bad_type (here c) c2 | Some TyAny => add_err_at E_assert_any (here c) c2 | Some _ => c2 end) in H.
  assert (N3 : NE c2 st3) by (unfold st3; destruct t as [[]|]; intro Q; ne).
  destruct (assert_token T_RPAREN st3) as [ok c4] eqn:A.
  set (st5 := if ok then advance_wss c4 else c4) in H.
  assert (N5 : NE c4 st5) by (unfold st5; destruct ok; intro Q; ne).
  set (st6 := if e_tyerr E TS_assert_not_any left (here c) then add_err_at (E_type TS_assert_not_any) (here c) st5 else st5) in H.
  assert (N6 : NE st5 st6) by (unfold st6; destruct (e_tyerr E _ _ _); intro Q; ne).
  destruct t; unfold ret in H; injection H as ? ?; subst; intro Q; autorewrite with errs in Q;
    specialize (N6 Q); specialize (N5 N6); destruct (assert_token_ne _ _ _ _ A N5); subst; specialize (N3 N5); specialize (P N3); ne.
Qed.

Lemma prefix_ne fuel c a c' : parse_prefix E pe fuel c = Some (a, c') -> NE c c'.
Proof.
  unfold parse_prefix. intro H.
  destruct (cur_t c); try fin_ne H;
    first [ apply ident_expr_ne in H | apply literal_ne in H | apply unary_ne in H | apply grouped_ne in H ]; exact H.
Qed.

Lemma infix_ne fuel left c r a c' : parse_infix E pe fuel left c = Some r -> r = Some (a, c') -> NE c c'.
Proof.
  unfold parse_infix. intros H R.
  destruct (is_binary_op (cur_t c)).
  - injection H as <-. apply binary_ne in R. exact R.
  - destruct (cur_t c); try discriminate H.
    + injection H as <-. apply index_or_slice_ne in R. exact R.
    + destruct (ttype (peek c)); injection H as <-; first [apply type_assertion_ne in R | apply dot_ne in R]; exact R.
Qed.

End ExprNE.

Lemma expr_ne E : forall fuel,
  (forall p c a c', parse_expr E fuel p c = Some (a, c') -> NE c c') /\
  (forall p l c a c', expr_loop E fuel p l c = Some (a, c') -> NE c c').
Proof.
  induction fuel as [|f [IHe IHl]]; [split; intros; discriminate|].
  split.
  - intros p c a c' H. rewrite parse_expr_unfold in H.
    destruct (parse_prefix E (parse_expr E f) f c) as [[l c1]|] eqn:P; [|discriminate H].
    apply (prefix_ne E (parse_expr E f) IHe) in P.
    destruct l as [lf|].
    + apply IHl in H. intro Q. apply P. apply H. exact Q.
    + unfold ret in H. injection H as ? ?; subst. exact P.
  - intros p l c a c' H. rewrite expr_loop_unfold in H.
    destruct (is_at_expr_end c); [unfold ret in H; injection H as ? ?; subst; intro Q; exact Q|].
    destruct (loop_continues p (precedences (cur_t c))); [|unfold ret in H; injection H as ? ?; subst; intro Q; exact Q].
    destruct (parse_infix E (parse_expr E f) f l c) as [r|] eqn:PI; [|unfold ret in H; injection H as ? ?; subst; intro Q; exact Q].
    destruct r as [[l1 c1]|] eqn:R; [|discriminate H].
    pose proof (infix_ne E (parse_expr E f) IHe f l c _ l1 c1 PI eq_refl) as N1.
    destruct l1 as [lf|].
    + apply IHl in H. intro Q. apply N1. apply H. exact Q.
    + unfold ret in H. injection H as ? ?; subst. exact N1.
Qed.

(* ================================================================ *)
(** * The invariant carried through the statement parser             *)

(* the alwaysTerms flags the parser stores are the declarative notion *)
Fixpoint flags_ok_s (s : stmt) : bool :=
  match s with
  | SIf brs els => forallb (fun cb => flags_ok_b (snd cb)) brs && match els with Some e => flags_ok_b e | None => true end
  | SWhile _ b | SFor _ _ b | SFunc _ _ _ b | SOn _ _ b => flags_ok_b b
  | _ => true
  end
with flags_ok_b (b : block) : bool :=
  match b with Block l t => forallb flags_ok_s l && Bool.eqb t (existsb stmt_term l) end.

Definition good (k : fkind) (l : bool) (st : stmt) : Prop :=
  stmt_ok k l st = true /\ flags_ok_s st = true /\ (l = false -> stmt_term st = stmt_returns st) /\
  (k = KTop -> stmt_returns st = false).
Definition goodb (k : fkind) (l : bool) (b : block) : Prop :=
  block_ok k l b = true /\ flags_ok_b b = true /\ (l = false -> block_term b = block_returns b) /\
  (k = KTop -> block_returns b = false).

Lemma flags_block b : flags_ok_b b = true -> block_terms b = block_term b.
Proof. destruct b as [l t]. simpl. intro H. apply andb_true_iff in H as [_ H]. apply Bool.eqb_prop in H. exact H. Qed.

Lemma flags_always_terms st : flags_ok_s st = true -> always_terms st = stmt_term st.
Proof.
  destruct st; simpl; try reflexivity. destruct els as [e|]; [|reflexivity].
  intro H. apply andb_true_iff in H as [Hb He]. rewrite (flags_block e He). f_equal.
  induction branches as [|[c b] brs IH]; [reflexivity|]. simpl in *.
  apply andb_true_iff in Hb as [H1 H2]. rewrite (flags_block b H1), (IH H2). reflexivity.
Qed.

Lemma no_dead_app l st : no_dead (l ++ [st]) = no_dead l && (if existsb stmt_term l then is_empty_stmt st else true).
Proof.
  induction l as [|x l IH]; simpl; [destruct (stmt_term st); reflexivity|].
  rewrite IH. rewrite forallb_app. simpl.
  destruct (stmt_term x), (forallb is_empty_stmt l), (no_dead l), (existsb stmt_term l), (is_empty_stmt st); reflexivity.
Qed.

(* ---- what the invariant looks at in the parser state: the frames of the scope chain ---- *)
Definition frame_of (sc : scope) : bool * bool * bool := (sc_ret sc, sc_retval sc, sc_loop sc).
Definition frames (s : pst) : list (bool * bool * bool) := map frame_of (scs s).
Definition fr_loop (fs : list (bool * bool * bool)) : bool := existsb (fun f => snd f) fs.
Definition fr_kind (fs : list (bool * bool * bool)) : fkind :=
  match fs with
  | (true, true, _) :: _ => KFun
  | (true, false, _) :: _ => KProc
  | _ => KTop
  end.
Definition serrs (s : pst) : list (perr * nat) := errs (cs s).

Lemma in_loop_frames s : in_loop s = fr_loop (frames s).
Proof. unfold in_loop, fr_loop, frames. induction (scs s) as [|sc l IH]; simpl; [reflexivity|]. rewrite IH. reflexivity. Qed.
Lemma has_ret_frames s : has_ret s = match fr_kind (frames s) with KTop => false | _ => true end.
Proof. unfold has_ret, fr_kind, frames. destruct (scs s) as [|sc l]; simpl; [reflexivity|]. unfold frame_of. destruct (sc_ret sc), (sc_retval sc); reflexivity. Qed.
Lemma ret_value_frames s : has_ret s = true -> ret_value s = match fr_kind (frames s) with KFun => true | _ => false end.
Proof. unfold has_ret, ret_value, fr_kind, frames. destruct (scs s) as [|sc l]; simpl; [discriminate|]. unfold frame_of. intros ->. destruct (sc_retval sc); reflexivity. Qed.

(* ---- state helpers: errors only grow, frames change only by push / pop ---- *)
Lemma serrs_upd f s : serrs (upd f s) = errs (f (cs s)).
Proof. reflexivity. Qed.
Lemma serrs_adv s : serrs (adv s) = serrs s.
Proof. unfold adv. rewrite serrs_upd. apply errs_advance. Qed.
Lemma errs_apnl_loop : forall f c, errs (apnl_loop f c) = errs c.
Proof. induction f as [|f IH]; intro c; simpl; [reflexivity|]. destruct (cur_t c); rewrite ?IH, ?errs_advance; reflexivity. Qed.
Lemma serrs_apnl s : serrs (apnl s) = serrs s.
Proof. unfold apnl. rewrite serrs_upd. apply errs_apnl_loop. Qed.
Lemma serrs_serr_at k n s : serrs (serr_at k n s) = (E_stmt k, n) :: serrs s.
Proof. reflexivity. Qed.
Lemma serrs_serr k s : serrs (serr k s) = (E_stmt k, pos s) :: serrs s.
Proof. reflexivity. Qed.
Lemma serrs_with_scs s l : serrs (with_scs s l) = serrs s.
Proof. reflexivity. Qed.
Lemma serrs_scope_set n p s : serrs (scope_set n p s) = serrs s.
Proof. unfold scope_set. destruct (str_eqb _ _); [reflexivity|]. destruct (scs s); reflexivity. Qed.
Lemma serrs_mark n s : serrs (mark n s) = serrs s.
Proof. reflexivity. Qed.
Lemma serrs_push_scope a b c s : serrs (push_scope a b c s) = serrs s.
Proof. reflexivity. Qed.
Lemma serrs_push_inherit b s : serrs (push_inherit b s) = serrs s.
Proof. reflexivity. Qed.
Lemma serrs_pop_scope s : serrs (pop_scope s) = serrs s.
Proof. reflexivity. Qed.
Lemma serrs_ty_err_here site s : serrs (ty_err_here site s) = (E_type site, pos s) :: serrs s.
Proof. reflexivity. Qed.
Lemma cs_fold_mark l : forall s0, cs (fold_right mark s0 l) = cs s0.
Proof. induction l; intro; simpl; auto. Qed.
Lemma serrs_collect s c : serrs (collect s c) = errs c.
Proof. unfold collect. rewrite serrs_upd. simpl. rewrite cs_fold_mark. reflexivity. Qed.

Lemma frames_with_cs s c : frames (with_cs s c) = frames s.
Proof. reflexivity. Qed.
Lemma frames_upd f s : frames (upd f s) = frames s.
Proof. reflexivity. Qed.
Lemma frames_adv s : frames (adv s) = frames s.
Proof. reflexivity. Qed.
Lemma frames_apnl s : frames (apnl s) = frames s.
Proof. reflexivity. Qed.
Lemma frames_serr_at k n s : frames (serr_at k n s) = frames s.
Proof. reflexivity. Qed.
Lemma frames_serr k s : frames (serr k s) = frames s.
Proof. reflexivity. Qed.
Lemma frames_assert_eol s : frames (assert_eol s) = frames s.
Proof. unfold assert_eol. destruct (is_at_eol _); reflexivity. Qed.
Lemma frames_passert t s : frames (snd (passert t s)) = frames s.
Proof. unfold passert. destruct (assert_token t (cs s)); reflexivity. Qed.
Lemma frames_scope_set n p s : frames (scope_set n p s) = frames s.
Proof. unfold scope_set. destruct (str_eqb _ _); [reflexivity|]. unfold frames. destruct (scs s) eqn:Q; simpl; rewrite ?Q; reflexivity. Qed.
Lemma frames_mark_scopes n : forall l, map frame_of (mark_scopes n l) = map frame_of l.
Proof. induction l as [|sc l IH]; simpl; [reflexivity|]. destruct (has_var n (sc_vars sc)); simpl; [reflexivity|]. rewrite IH. reflexivity. Qed.
Lemma frames_mark n s : frames (mark n s) = frames s.
Proof. unfold mark, frames. simpl. apply frames_mark_scopes. Qed.
Lemma frames_fold_mark l : forall s0, frames (fold_right mark s0 l) = frames s0.
Proof. induction l as [|x l IH]; intro s0; simpl; [reflexivity|]. rewrite frames_mark. apply IH. Qed.
Lemma frames_collect s c : frames (collect s c) = frames s.
Proof. unfold collect. rewrite frames_upd, frames_fold_mark. reflexivity. Qed.
Lemma frames_push_scope a b c s : frames (push_scope a b c s) = (a, b, c) :: frames s.
Proof. reflexivity. Qed.
Lemma frames_pop_scope s : frames (pop_scope s) = tl (frames s).
Proof. unfold pop_scope, frames. simpl. destruct (scs s) eqn:Q; reflexivity. Qed.
Lemma frames_ty_err_here site s : frames (ty_err_here site s) = frames s.
Proof. reflexivity. Qed.
Lemma frames_fold_serr {X} (f : X -> nat) k (l : list X) : forall s,
  frames (fold_left (fun s v => serr_at k (f v) s) l s) = frames s.
Proof. induction l as [|x l IH]; intro s; simpl; [reflexivity|]. rewrite IH. reflexivity. Qed.
Lemma frames_validate_scope s : frames (validate_scope s) = frames s.
Proof. unfold validate_scope. destruct (scs s) eqn:Q; [reflexivity|]. apply frames_fold_serr. Qed.
Lemma serrs_fold_serr {X} (f : X -> nat) k (l : list X) : forall s,
  serrs (fold_left (fun s v => serr_at k (f v) s) l s) = [] -> serrs s = [].
Proof. induction l as [|x l IH]; intro s; simpl; [auto|]. intro H. apply IH in H. discriminate H. Qed.
Lemma serrs_validate_scope s : serrs (validate_scope s) = [] -> serrs s = [].
Proof. unfold validate_scope. destruct (scs s); [auto|]. apply serrs_fold_serr. Qed.
Lemma frames_validate_var_decl B n p a s : frames (snd (validate_var_decl B n p a s)) = frames s.
Proof. unfold validate_var_decl. repeat (destruct (_ : bool); try reflexivity). Qed.
Lemma serrs_validate_var_decl B n p a s ok s' :
  validate_var_decl B n p a s = (ok, s') -> serrs s' = [] -> ok = true /\ s' = s.
Proof.
  unfold validate_var_decl.
  repeat (match goal with |- context[if ?b then _ else _] => destruct b end;
          try (intro H; injection H as ? ?; subst; intro Q; discriminate Q)).
  intro H; injection H as ? ?; subst. auto.
Qed.
Lemma passert_ne t s ok s' : passert t s = (ok, s') -> serrs s' = [] -> ok = true /\ s' = s.
Proof.
  unfold passert. destruct (assert_token t (cs s)) as [o c] eqn:A. intro H; injection H as ? ?; subst.
  unfold serrs; simpl. intro Q. destruct (assert_token_ne _ _ _ _ A Q); subst. split; [reflexivity|]. destruct s; reflexivity.
Qed.
Lemma assert_eol_ne s : serrs (assert_eol s) = [] -> assert_eol s = s /\ is_at_eol (cs s) = true.
Proof. unfold assert_eol. destruct (is_at_eol (cs s)); [auto|]. intro Q. discriminate Q. Qed.

#[local] Hint Rewrite serrs_adv serrs_apnl serrs_serr_at serrs_serr serrs_with_scs serrs_scope_set serrs_mark
  serrs_push_scope serrs_push_inherit serrs_pop_scope serrs_ty_err_here serrs_collect : serrs.
#[local] Hint Rewrite frames_with_cs frames_upd frames_adv frames_apnl frames_serr_at frames_serr frames_assert_eol
  frames_passert frames_scope_set frames_mark frames_collect frames_push_scope frames_pop_scope frames_ty_err_here
  frames_validate_scope frames_validate_var_decl : frames.

(* ================================================================ *)
(** * Soundness of the statement parser w.r.t. the rules             *)

(* SN s s': if s' is error free so was s, and the scope frames are unchanged *)
Definition SN (s s' : pst) : Prop := serrs s' = [] -> serrs s = [] /\ frames s' = frames s.

Lemma SN_refl s : SN s s.
Proof. intro; auto. Qed.
Lemma SN_trans a b c : SN a b -> SN b c -> SN a c.
Proof. intros H1 H2 Q. destruct (H2 Q) as [Q2 F2]. destruct (H1 Q2) as [Q1 F1]. split; [exact Q1|congruence]. Qed.

Section StmtSound.
Variable B : benv.

Lemma expr_call_sn {A} (f : env -> nat -> pstate -> res A) s a s' :
  (forall E fuel c x c', f E fuel c = Some (x, c') -> NE c c') ->
  expr_call B f s = Ok a s' -> SN s s'.
Proof.
  intros Hf H. unfold expr_call in H.
  destruct (f (env_of B s) (efuel (cs s)) (cs s)) as [[x c]|] eqn:P; [|discriminate H].
  injection H as ? ?; subst. apply Hf in P. intro Q. rewrite serrs_collect in Q. split; [apply P; exact Q|apply frames_collect].
Qed.

Lemma p_toplevel_sn s a s' : p_toplevel B s = Ok a s' -> SN s s'.
Proof. apply expr_call_sn. intros E fuel c x c' H. eapply toplevel_ne; [|exact H]. apply (expr_ne E fuel). Qed.
Lemma p_expr_list_sn s a s' : p_expr_list B s = Ok a s' -> SN s s'.
Proof. apply expr_call_sn. intros E fuel c x c' H. eapply expr_list_ne; [|exact H]. apply (expr_ne E fuel). Qed.
Lemma p_func_call_sn nil s a s' : p_func_call B nil s = Ok a s' -> SN s s'.
Proof. apply expr_call_sn. intros E fuel c x c' H. eapply func_call_ne; [|exact H]. apply (expr_ne E fuel). Qed.
Lemma p_index_sn left s a s' : p_index B left s = Ok a s' -> SN s s'.
Proof. apply expr_call_sn. intros E fuel c x c' H. eapply index_or_slice_ne; [|exact H]. apply (expr_ne E fuel). Qed.
Lemma p_dot_sn left s a s' : p_dot B left s = Ok a s' -> SN s s'.
Proof. apply expr_call_sn. intros E fuel c x c' H. eapply dot_ne; exact H. Qed.
Lemma p_type_sn s a s' : p_type B s = Ok a s' -> SN s s'.
Proof. apply expr_call_sn. intros E fuel c x c' H. eapply parse_type_ne; exact H. Qed.

(* simple state transformers as SN facts *)
Lemma SN_adv s : SN s (adv s).
Proof. intro Q. autorewrite with serrs frames in *. auto. Qed.
Lemma SN_apnl s : SN s (apnl s).
Proof. intro Q. autorewrite with serrs frames in *. auto. Qed.
Lemma SN_assert_eol s : SN s (assert_eol s).
Proof. intro Q. destruct (assert_eol_ne s Q) as [E _]. rewrite E in *. auto. Qed.
Lemma SN_passert t s : SN s (snd (passert t s)).
Proof. intro Q. destruct (passert t s) as [ok s'] eqn:A. simpl in *. destruct (passert_ne _ _ _ _ A Q); subst. auto. Qed.
Lemma SN_scope_set n p s : SN s (scope_set n p s).
Proof. intro Q. autorewrite with serrs frames in *. auto. Qed.
Lemma SN_mark n s : SN s (mark n s).
Proof. intro Q. autorewrite with serrs frames in *. auto. Qed.
Lemma SN_validate_scope s : SN s (validate_scope s).
Proof. intro Q. split; [apply serrs_validate_scope; exact Q|apply frames_validate_scope]. Qed.
Lemma SN_vvd n p a s : SN s (snd (validate_var_decl B n p a s)).
Proof. intro Q. destruct (validate_var_decl B n p a s) as [ok s'] eqn:V. simpl in *. destruct (serrs_validate_var_decl _ _ _ _ _ _ _ V Q); subst. auto. Qed.
Lemma SN_finish_end s : SN s (finish_end s).
Proof.
  unfold finish_end. eapply SN_trans; [|apply SN_apnl]. eapply SN_trans; [|apply SN_assert_eol].
  eapply SN_trans; [|apply SN_adv]. apply SN_passert.
Qed.
Lemma SN_err k n s x : SN x (serr_at k n s).
Proof. intro Q. discriminate Q. Qed.
Lemma SN_err' k s x : SN x (serr k s).
Proof. intro Q. discriminate Q. Qed.

(* statements without sub-structure satisfy the invariant trivially *)
Lemma good_plain k l st :
  match st with SEmpty | STypedDecl _ _ | SInferredDecl _ _ | SAssign _ _ | SCallStmt _ => True | _ => False end -> good k l st.
Proof. destruct st; intro H; try contradiction; repeat split; reflexivity. Qed.

Definition snd_s (s : pst) (r : option stmt) (s' : pst) : Prop :=
  serrs s' = [] -> serrs s = [] /\ frames s' = frames s /\
  (forall st, r = Some st -> good (fr_kind (frames s)) (fr_loop (frames s)) st).

Lemma snd_s_of_SN s s' r :
  SN s s' -> (forall st, r = Some st -> forall k l, good k l st) -> snd_s s r s'.
Proof. intros H G Q. destruct (H Q) as [Q1 F1]. split; [exact Q1|]. split; [exact F1|]. intros st E. apply G. exact E. Qed.

Lemma typed_decl_sn s d s' : parse_typed_decl B s = Ok d s' -> SN s s'.
Proof.
  unfold parse_typed_decl. intro H.
  destruct (p_type B (adv (snd (passert T_COLON (adv (snd (passert T_IDENT s))))))) as [t s2| |] eqn:P; try discriminate H.
  apply p_type_sn in P.
  assert (N : SN s (adv (snd (passert T_COLON (adv (snd (passert T_IDENT s))))))).
  { eapply SN_trans; [|apply SN_adv]. eapply SN_trans; [|apply SN_passert]. eapply SN_trans; [|apply SN_adv]. apply SN_passert. }
  destruct t; injection H as ? ?; subst; [eapply SN_trans; eassumption|apply SN_err].
Qed.

Lemma typed_decl_stmt_sound s r s' : parse_typed_decl_stmt B s = Ok r s' -> snd_s s r s'.
Proof.
  unfold parse_typed_decl_stmt. intro H.
  destruct (parse_typed_decl B s) as [[[name dpos] t] s1| |] eqn:P; try discriminate H. apply typed_decl_sn in P.
  injection H as ? ?; subst. apply snd_s_of_SN; [|intros st E k l; injection E as <-; apply good_plain; exact I].
  eapply SN_trans; [exact P|]. eapply SN_trans; [|apply SN_apnl].
  destruct t; [|apply SN_refl].
  destruct (validate_var_decl B name dpos false s1) as [ok s2] eqn:V.
  assert (N2 : SN s1 s2) by (pose proof (SN_vvd name dpos false s1) as X; rewrite V in X; exact X).
  destruct ok; [|exact N2]. eapply SN_trans; [exact N2|]. eapply SN_trans; [apply SN_scope_set|apply SN_assert_eol].
Qed.

Lemma inferred_decl_stmt_sound s r s' : parse_inferred_decl_stmt B s = Ok r s' -> snd_s s r s'.
Proof.
  unfold parse_inferred_decl_stmt. intro H.
  set (s1 := adv (adv (snd (passert T_IDENT s)))) in H.
  assert (N1 : SN s s1).
  { unfold s1. eapply SN_trans; [|apply SN_adv]. eapply SN_trans; [|apply SN_adv]. apply SN_passert. }
  destruct (p_toplevel B s1) as [v s2| |] eqn:P; try discriminate H. apply p_toplevel_sn in P.
  destruct v as [t|].
  - destruct (tyerr_s B TS_decl_none t (pos s2)).
    + injection H as ? ?; subst. intro Q. autorewrite with serrs in Q. discriminate Q.
    + destruct (validate_var_decl B _ _ false s2) as [ok s3] eqn:V.
      assert (N3 : SN s2 s3) by (pose proof (SN_vvd (tlit (cur (cs (snd (passert T_IDENT s))))) (pos (snd (passert T_IDENT s))) false s2) as X; rewrite V in X; exact X).
      destruct ok; injection H as ? ?; subst;
        (apply snd_s_of_SN; [|intros st E k l; try discriminate E; injection E as <-; apply good_plain; exact I]).
      * eapply SN_trans; [exact N1|]. eapply SN_trans; [exact P|]. eapply SN_trans; [exact N3|].
        eapply SN_trans; [|apply SN_apnl]. eapply SN_trans; [apply SN_scope_set|apply SN_assert_eol].
      * eapply SN_trans; [exact N1|]. eapply SN_trans; [exact P|]. eapply SN_trans; [exact N3|]. apply SN_apnl.
  - injection H as ? ?; subst. intro Q. autorewrite with serrs in Q. discriminate Q.
Qed.

Lemma assign_target_loop_sn : forall fuel tok n s r s', assign_target_loop B fuel tok n s = Ok r s' -> SN s s'.
Proof.
  induction fuel as [|f IH]; intros tok n s r s' H; [discriminate|]. cbn [assign_target_loop] in H.
  destruct (ct s); try (injection H as ? ?; subst; apply SN_refl).
  - destruct (tyerr_s B _ _ _); [injection H as ? ?; subst; intro Q; discriminate Q|].
    destruct (p_index B n s) as [x s1| |] eqn:P; try discriminate H. apply p_index_sn in P.
    destruct x; [apply IH in H; eapply SN_trans; eassumption|injection H as ? ?; subst; exact P].
  - destruct (p_dot B n s) as [x s1| |] eqn:P; try discriminate H. apply p_dot_sn in P.
    destruct x; [apply IH in H; eapply SN_trans; eassumption|injection H as ? ?; subst; exact P].
Qed.

Lemma assign_target_sn s r s' : parse_assign_target B s = Ok r s' -> SN s s'.
Proof.
  unfold parse_assign_target. intro H.
  destruct (str_eqb _ _); [injection H as ? ?; subst; apply SN_err|].
  destruct (negb _); [injection H as ? ?; subst; apply SN_err|].
  apply assign_target_loop_sn in H. eapply SN_trans; [apply SN_adv|]. eapply SN_trans; [apply SN_mark|exact H].
Qed.

Lemma assign_stmt_sound s r s' : parse_assign_stmt B s = Ok r s' -> snd_s s r s'.
Proof.
  unfold parse_assign_stmt. intro H.
  destruct (is_func _ s); [injection H as ? ?; subst; intro Q; autorewrite with serrs in Q; discriminate Q|].
  destruct (parse_assign_target B s) as [tg s1| |] eqn:P; try discriminate H. apply assign_target_sn in P.
  destruct tg as [target|].
  - destruct (p_toplevel B (adv (snd (passert T_ASSIGN s1)))) as [v s3| |] eqn:P2; try discriminate H. apply p_toplevel_sn in P2.
    assert (N : SN s s3).
    { eapply SN_trans; [exact P|]. eapply SN_trans; [apply SN_passert|]. eapply SN_trans; [apply SN_adv|exact P2]. }
    destruct v as [value|]; injection H as ? ?; subst;
      (apply snd_s_of_SN; [|intros st E k l; try discriminate E; injection E as <-; apply good_plain; exact I]).
    + eapply SN_trans; [exact N|]. eapply SN_trans; [|apply SN_apnl]. eapply SN_trans; [|apply SN_assert_eol].
      destruct (tyerr_s B _ _ _); [intro Q; discriminate Q|apply SN_refl].
    + eapply SN_trans; [exact N|apply SN_apnl].
  - injection H as ? ?; subst. apply snd_s_of_SN; [|intros st E; discriminate E]. eapply SN_trans; [exact P|apply SN_apnl].
Qed.

Lemma call_stmt_sound s r s' : parse_call_stmt B s = Ok r s' -> snd_s s r s'.
Proof.
  unfold parse_call_stmt. intro H.
  destruct (lookup_fn _ _) as [fi|]; [|discriminate H].
  destruct (p_func_call B (fi_nil fi) s) as [x s1| |] eqn:P; try discriminate H. apply p_func_call_sn in P.
  destruct x; [|discriminate H]. injection H as ? ?; subst.
  apply snd_s_of_SN; [|intros st E k l; injection E as <-; apply good_plain; exact I].
  eapply SN_trans; [exact P|]. eapply SN_trans; [apply SN_assert_eol|apply SN_apnl].
Qed.

Lemma break_stmt_sound s r s' : parse_break_stmt s = Ok r s' -> snd_s s r s'.
Proof.
  unfold parse_break_stmt. intro H. injection H as ? ?; subst. intro Q.
  destruct (in_loop s) eqn:L.
  - autorewrite with serrs in Q. destruct (assert_eol_ne _ Q) as [E _]. rewrite E in *. autorewrite with serrs frames in *.
    split; [exact Q|]. split; [reflexivity|].
    intros st Est. injection Est as <-. rewrite <- in_loop_frames, L. split; [reflexivity|]. split; [reflexivity|]. split; [intro X; discriminate X|reflexivity].
  - autorewrite with serrs in Q. destruct (assert_eol_ne _ Q) as [E _]. rewrite E in *. autorewrite with serrs in Q. discriminate Q.
Qed.

Lemma return_tail s s2 (v : option tree) (bare : bool) rv :
  SN s s2 ->
  snd_s s (Some (SReturn v))
    (apnl (if negb (has_ret s2) then serr_at K_return_not_allowed rv s2
           else match v with
                | Some t => if tyerr_s B TS_return_type t rv then upd (add_err_at (E_type TS_return_type) rv) s2 else s2
                | None => if bare then (if ret_value s2 then serr_at K_bare_return rv s2 else s2)
                          else serr_at K_return_value_failed rv s2
                end)).
Proof.
  intros N2 Q. autorewrite with serrs in Q.
  destruct (has_ret s2) eqn:HR; cbn [negb] in Q; [|discriminate Q].
  assert (Q2 : serrs s2 = []).
  { destruct v; [destruct (tyerr_s B _ _ _); [discriminate Q|exact Q]|].
    destruct bare; [destruct (ret_value s2); [discriminate Q|exact Q]|discriminate Q]. }
  destruct (N2 Q2) as [Q0 F2]. split; [exact Q0|]. split.
  { cbn [negb]. autorewrite with frames.
    destruct v; [destruct (tyerr_s B _ _ _)|destruct bare; [destruct (ret_value s2)|]]; autorewrite with frames; exact F2. }
  intros st Est. injection Est as <-.
  rewrite <- F2. rewrite has_ret_frames in HR.
  assert (RV := ret_value_frames s2). rewrite has_ret_frames in RV.
  unfold good. simpl.
  destruct (fr_kind (frames s2)) eqn:K; try discriminate HR; repeat split; try reflexivity; try (intro X; discriminate X).
  destruct v; [reflexivity|]. specialize (RV eq_refl).
  destruct bare; [rewrite RV in Q; discriminate Q|discriminate Q].
Qed.

Lemma return_stmt_sound s r s' : parse_return_stmt B s = Ok r s' -> snd_s s r s'.
Proof.
  unfold parse_return_stmt. intro H. cbv zeta in H.
  destruct (is_at_eol (cs (adv s))) eqn:EOL.
  - injection H as ? ?; subst. apply (return_tail s (adv s) None true). apply SN_adv.
  - destruct (p_toplevel B (adv s)) as [x s2| |] eqn:P; try discriminate H. apply p_toplevel_sn in P.
    destruct x; injection H as ? ?; subst.
    + apply (return_tail s (assert_eol s2) (Some t) false).
      eapply SN_trans; [apply SN_adv|]. eapply SN_trans; [exact P|apply SN_assert_eol].
    + apply (return_tail s s2 None false). eapply SN_trans; [apply SN_adv|exact P].
Qed.

Lemma condition_sn s r s' : parse_condition B s = Ok r s' -> SN s s'.
Proof.
  unfold parse_condition. intro H.
  destruct (p_toplevel B s) as [c s1| |] eqn:P; try discriminate H. apply p_toplevel_sn in P.
  destruct c; injection H as ? ?; subst; [|exact P].
  eapply SN_trans; [exact P|]. destruct (tyerr_s B _ _ _); [intro Q; discriminate Q|apply SN_assert_eol].
Qed.

Lemma empty_stmt_sound s r s' : parse_empty_stmt s = Ok r s' -> snd_s s r s'.
Proof.
  unfold parse_empty_stmt. intro H.
  destruct (ct s); try discriminate H; injection H as ? ?; subst;
    (apply snd_s_of_SN; [|intros st E k l; injection E as <-; apply good_plain; exact I]).
  - eapply SN_trans; apply SN_adv.
  - apply SN_adv.
Qed.

Lemma snd_s_SN s r s' : snd_s s r s' -> SN s s'.
Proof. intros H Q. destruct (H Q) as (A & F & _). auto. Qed.

Lemma existsb_rev {A} (f : A -> bool) l : existsb f (rev l) = existsb f l.
Proof.
  induction l as [|x l IH]; [reflexivity|]. simpl. rewrite existsb_app, IH. simpl. rewrite orb_false_r. apply orb_comm.
Qed.
Lemma forallb_rev {A} (f : A -> bool) l : forallb f (rev l) = forallb f l.
Proof.
  induction l as [|x l IH]; [reflexivity|]. simpl. rewrite forallb_app, IH. simpl. rewrite andb_true_r. apply andb_comm.
Qed.

(* ---- the part that is open in parseStatement ---- *)
Variable ps : pst -> PR (option stmt).
Hypothesis HPS : forall s r s', ps s = Ok r s' -> snd_s s r s'.

Lemma block_loop_sn : forall fuel els acc terms s b s', block_loop ps fuel els acc terms s = Ok b s' -> SN s s'.
Proof.
  induction fuel as [|f IH]; intros els acc terms s b s' H; [discriminate|]. cbn [block_loop] in H.
  destruct (match ct s with T_END | T_EOF => true | T_ELSE => els | _ => false end);
    [injection H as ? ?; subst; apply SN_refl|].
  destruct (ps s) as [r s1| |] eqn:P; try discriminate H. apply HPS in P. apply snd_s_SN in P.
  destruct r as [st|]; [destruct (terms && negb (is_empty_stmt st))|]; apply IH in H.
  - eapply SN_trans; [exact P|]. intro Q. destruct (H Q) as [Q1 _]. discriminate Q1.
  - eapply SN_trans; eassumption.
  - eapply SN_trans; eassumption.
Qed.

Lemma block_loop_good : forall fuel els acc terms s b s', block_loop ps fuel els acc terms s = Ok b s' ->
  serrs s' = [] ->
  Forall (good (fr_kind (frames s)) (fr_loop (frames s))) acc ->
  terms = existsb stmt_term acc -> no_dead (rev acc) = true ->
  goodb (fr_kind (frames s)) (fr_loop (frames s)) b.
Proof.
  induction fuel as [|f IH]; intros els acc terms s b s' H Q Hacc Ht Hnd; [discriminate|]. cbn [block_loop] in H.
  destruct (match ct s with T_END | T_EOF => true | T_ELSE => els | _ => false end).
  - injection H as ? ?; subst. unfold goodb. simpl.
    assert (F1 : forallb (stmt_ok (fr_kind (frames s')) (fr_loop (frames s'))) acc = true)
      by (apply forallb_forall; intros x Hx; rewrite Forall_forall in Hacc; apply (Hacc x Hx)).
    assert (F2 : forallb flags_ok_s acc = true)
      by (apply forallb_forall; intros x Hx; rewrite Forall_forall in Hacc; apply (Hacc x Hx)).
    rewrite !forallb_rev, !existsb_rev, F1, F2, Hnd. split; [reflexivity|]. split; [simpl; apply Bool.eqb_reflx|]. split.
    + intro L. clear - Hacc L. induction acc as [|x acc IH]; [reflexivity|]. simpl.
      pose proof (Forall_inv Hacc) as Hx. pose proof (Forall_inv_tail Hacc) as Hr. destruct Hx as (_ & _ & Hx & _). rewrite (Hx L), (IH Hr). reflexivity.
    + intro K. clear - Hacc K. induction acc as [|x acc IH]; [reflexivity|]. simpl.
      pose proof (Forall_inv Hacc) as Hx. pose proof (Forall_inv_tail Hacc) as Hr. destruct Hx as (_ & _ & _ & Hx). rewrite (Hx K), (IH Hr). reflexivity.
  - destruct (ps s) as [r s1| |] eqn:P; try discriminate H. apply HPS in P.
    destruct r as [st|].
    + destruct (terms && negb (is_empty_stmt st)) eqn:TE.
      * pose proof (block_loop_sn _ _ _ _ _ _ _ H Q) as [Q1 _]. discriminate Q1.
      * pose proof (block_loop_sn _ _ _ _ _ _ _ H Q) as [Q1 _].
        destruct (P Q1) as (Q0 & F1 & G). specialize (G st eq_refl).
        rewrite <- F1. apply (IH els (st :: acc) (terms || always_terms st) s1 b s' H Q).
        -- rewrite F1. constructor; assumption.
        -- simpl. destruct G as (_ & G2 & _). rewrite (flags_always_terms st G2), Ht. apply orb_comm.
        -- simpl. rewrite no_dead_app, Hnd, existsb_rev, <- Ht. simpl.
           destruct terms; [|reflexivity]. simpl in TE. destruct (is_empty_stmt st); [reflexivity|discriminate TE].
    + pose proof (block_loop_sn _ _ _ _ _ _ _ H Q) as [Q1 _].
      destruct (P Q1) as (Q0 & F1 & _). rewrite <- F1. apply (IH els acc terms s1 b s' H Q); rewrite ?F1; assumption.
Qed.

Lemma block_with_sound fuel els s b s' : parse_block_with ps fuel els s = Ok b s' ->
  serrs s' = [] -> serrs s = [] /\ frames s' = frames s /\ goodb (fr_kind (frames s)) (fr_loop (frames s)) b.
Proof.
  unfold parse_block_with. intros H Q.
  destruct (block_loop ps fuel els [] false s) as [b1 s1| |] eqn:P; try discriminate H.
  injection H as ? ?; subst.
  assert (Q1 : serrs s1 = []).
  { apply serrs_validate_scope in Q. destruct b as [[|x l] t]; [discriminate Q|exact Q]. }
  destruct (block_loop_sn _ _ _ _ _ _ _ P Q1) as [Q0 F1]. split; [exact Q0|]. split.
  { rewrite frames_validate_scope. destruct b as [[|x l] t]; autorewrite with frames; exact F1. }
  apply (block_loop_good _ _ _ _ _ _ _ P Q1); [constructor|reflexivity|reflexivity].
Qed.

Lemma frames_push_inherit l s :
  frames (push_inherit l s) =
  (match scs s with sc :: _ => sc_ret sc | [] => false end, match scs s with sc :: _ => sc_retval sc | [] => false end, l) :: frames s.
Proof. reflexivity. Qed.
Lemma kind_push_inherit l s : fr_kind (frames (push_inherit l s)) = fr_kind (frames s).
Proof. rewrite frames_push_inherit. unfold frames, fr_kind. destruct (scs s) as [|sc r]; simpl; [reflexivity|]. unfold frame_of. destruct (sc_ret sc), (sc_retval sc); reflexivity. Qed.
Lemma loop_push_inherit l s : fr_loop (frames (push_inherit l s)) = l || fr_loop (frames s).
Proof. rewrite frames_push_inherit. reflexivity. Qed.
Lemma tl_frames_push_inherit l s : tl (frames (push_inherit l s)) = frames s.
Proof. reflexivity. Qed.

Lemma for_stmt_sound fuel s r s' : parse_for_stmt B ps fuel s = Ok r s' -> snd_s s r s'.
Proof.
  unfold parse_for_stmt. intro H. cbv zeta in H.
  set (s1 := adv (push_inherit true s)) in H.
  assert (N1 : serrs s1 = [] -> serrs s = []) by (unfold s1; intro Q; autorewrite with serrs in Q; exact Q).
  assert (F1 : frames s1 = frames (push_inherit true s)) by reflexivity.
  match type of H with (match ?lv with _ => _ end) = _ => set (LV := lv) in H end.
  assert (NL : serrs (snd LV) = [] -> serrs s1 = [] /\ frames (snd LV) = frames s1).
  { unfold LV. destruct (ct s1); simpl; try (intro Q; solve [auto]).
    destruct (validate_var_decl B _ _ false s1) as [ok s2] eqn:V.
    destruct ok; simpl; intro Q.
    - autorewrite with serrs in Q.
      destruct (SN_passert T_DECLARE (adv (scope_set (tlit (cur (cs s1))) (pos s1) s2)) Q) as [Q3 _]. clear Q. rename Q3 into Q. autorewrite with serrs in Q.
      destruct (serrs_validate_var_decl _ _ _ _ _ _ _ V Q) as [_ E2]. subst s2. split; [exact Q|].
      autorewrite with frames. reflexivity.
    - destruct (serrs_validate_var_decl _ _ _ _ _ _ _ V Q) as [E _]. discriminate E. }
  destruct LV as [[v|] s4]; simpl in NL.
  2:{ injection H as ? ?; subst. intro Q. autorewrite with serrs in Q. destruct (NL Q) as [Q1 F4]. split; [auto|]. split.
      - autorewrite with frames. rewrite F4, F1. apply tl_frames_push_inherit.
      - intros st E. discriminate E. }
  destruct (passert T_RANGE s4) as [ok s5] eqn:A.
  destruct ok; cbn [negb] in H.
  2:{ injection H as ? ?; subst. intro Q. autorewrite with serrs in Q. destruct (passert_ne _ _ _ _ A Q) as [E _]. discriminate E. }
  destruct (p_expr_list B (adv s5)) as [ns s7| |] eqn:P; try discriminate H. apply p_expr_list_sn in P.
  destruct (match ns with Some l => l | None => [] end) as [|n more].
  { injection H as ? ?; subst. intro Q. autorewrite with serrs in Q. discriminate Q. }
  destruct (_ && _).
  { injection H as ? ?; subst. intro Q. autorewrite with serrs in Q. discriminate Q. }
  match type of H with context[parse_block_with ps fuel false ?x] => set (sb := x) in H end.
  destruct (parse_block_with ps fuel false sb) as [b s10| |] eqn:PB; try discriminate H.
  injection H as ? ?; subst. intro Q. autorewrite with serrs in Q.
  destruct (SN_finish_end s10 Q) as [Q10 F10].
  destruct (block_with_sound _ _ _ _ _ PB Q10) as (Qb & Fb & Gb).
  assert (Qs8 : serrs (assert_eol s7) = [] /\ frames sb = frames s7).
  { unfold sb in Qb |- *. autorewrite with serrs in Qb. destruct (tyerr_s B _ _ _); [discriminate Qb|]. split; [exact Qb|].
    autorewrite with frames. reflexivity. }
  destruct Qs8 as [Q8 Fsb]. destruct (SN_assert_eol s7 Q8) as [Q7 _].
  destruct (P Q7) as [Q6 F7]. autorewrite with serrs in Q6.
  destruct (passert_ne _ _ _ _ A Q6) as [_ E5]. subst s5. destruct (NL Q6) as [Q1 F4].
  split; [auto|]. split.
  - autorewrite with frames. rewrite F10, Fb, Fsb, F7. autorewrite with frames. rewrite F4, F1. apply tl_frames_push_inherit.
  - intros st E. injection E as <-.
    assert (Fsb' : frames sb = frames (push_inherit true s)).
    { rewrite Fsb, F7. autorewrite with frames. rewrite F4, F1. reflexivity. }
    rewrite Fsb', kind_push_inherit, loop_push_inherit in Gb. simpl in Gb.
    destruct Gb as (G1 & G2 & _). unfold good. simpl. repeat split; auto.
Qed.

Lemma while_stmt_sound fuel s r s' : parse_while_stmt B ps fuel s = Ok r s' -> snd_s s r s'.
Proof.
  unfold parse_while_stmt. intro H. cbv zeta in H.
  destruct (parse_condition B (push_inherit true (adv s))) as [c s2| |] eqn:P; try discriminate H. apply condition_sn in P.
  destruct (parse_block_with ps fuel false (apnl s2)) as [b s3| |] eqn:PB; try discriminate H.
  injection H as ? ?; subst. intro Q. autorewrite with serrs in Q.
  destruct (SN_finish_end s3 Q) as [Q3 F3].
  destruct (block_with_sound _ _ _ _ _ PB Q3) as (Qb & Fb & Gb). autorewrite with serrs frames in Qb, Fb, Gb.
  destruct (P Qb) as [Q1 F2]. autorewrite with serrs in Q1.
  split; [exact Q1|]. split.
  - autorewrite with frames. rewrite F3, Fb, F2. apply (tl_frames_push_inherit true (adv s)).
  - intros st E. injection E as <-.
    rewrite F2, kind_push_inherit, loop_push_inherit in Gb. autorewrite with frames in Gb. simpl in Gb.
    destruct Gb as (G1 & G2 & _). unfold good. simpl. repeat split; auto.
Qed.

Lemma if_cond_block_sound fuel s cb s' : parse_if_cond_block B ps fuel s = Ok cb s' ->
  serrs s' = [] -> serrs s = [] /\ frames s' = frames s /\ goodb (fr_kind (frames s)) (fr_loop (frames s)) (snd cb).
Proof.
  unfold parse_if_cond_block. intros H Q. cbv zeta in H.
  destruct (parse_condition B (adv (push_inherit false s))) as [c s2| |] eqn:P; try discriminate H. apply condition_sn in P.
  destruct (parse_block_with ps fuel true (apnl s2)) as [b s3| |] eqn:PB; try discriminate H.
  injection H as ? ?; subst. autorewrite with serrs in Q.
  destruct (block_with_sound _ _ _ _ _ PB Q) as (Qb & Fb & Gb). autorewrite with serrs frames in Qb, Fb, Gb.
  destruct (P Qb) as [Q1 F2]. autorewrite with serrs in Q1.
  split; [exact Q1|]. split.
  - autorewrite with frames. rewrite Fb, F2. autorewrite with frames. apply (tl_frames_push_inherit false s).
  - simpl. rewrite F2 in Gb. autorewrite with frames in Gb. rewrite kind_push_inherit, loop_push_inherit in Gb. exact Gb.
Qed.

Lemma else_if_loop_sn : forall fuel bfuel acc s r s', else_if_loop B ps fuel bfuel acc s = Ok r s' -> SN s s'.
Proof.
  induction fuel as [|f IH]; intros bfuel acc s r s' H; [discriminate|]. cbn [else_if_loop] in H.
  destruct (ct s); try (injection H as ? ?; subst; apply SN_refl).
  destruct (ttype (peek (cs s))); try (injection H as ? ?; subst; apply SN_refl).
  destruct (parse_if_cond_block B ps bfuel (adv s)) as [cb s1| |] eqn:P; try discriminate H.
  apply IH in H. intro Q. destruct (H Q) as [Q1 F1].
  destruct (if_cond_block_sound _ _ _ _ P Q1) as (Q0 & F0 & _). autorewrite with serrs frames in Q0, F0.
  split; [exact Q0|congruence].
Qed.

Lemma else_if_loop_good : forall fuel bfuel acc s r s', else_if_loop B ps fuel bfuel acc s = Ok r s' ->
  serrs s' = [] ->
  Forall (fun cb => goodb (fr_kind (frames s)) (fr_loop (frames s)) (snd cb)) acc ->
  Forall (fun cb => goodb (fr_kind (frames s)) (fr_loop (frames s)) (snd cb)) r.
Proof.
  induction fuel as [|f IH]; intros bfuel acc s r s' H Q Hacc; [discriminate|]. cbn [else_if_loop] in H.
  assert (D : Ok (rev acc) s = Ok r s' -> Forall (fun cb => goodb (fr_kind (frames s)) (fr_loop (frames s)) (snd cb)) r).
  { intro E. injection E as ? ?; subst. apply Forall_rev. exact Hacc. }
  destruct (ct s); try exact (D H).
  destruct (ttype (peek (cs s))); try exact (D H).
  destruct (parse_if_cond_block B ps bfuel (adv s)) as [cb s1| |] eqn:P; try discriminate H.
  destruct (else_if_loop_sn _ _ _ _ _ _ H Q) as [Q1 _].
  destruct (if_cond_block_sound _ _ _ _ P Q1) as (Q0 & F0 & G). autorewrite with frames in F0, G.
  rewrite <- F0. apply (IH bfuel (cb :: acc) s1 r s' H Q). rewrite F0. constructor; assumption.
Qed.

Lemma good_if k l brs els :
  Forall (fun cb : option tree * block => goodb k l (snd cb)) brs ->
  match els with Some e => goodb k l e | None => True end ->
  good k l (SIf brs els).
Proof.
  intros Hb He. unfold good. simpl.
  assert (F1 : forallb (fun cb : option tree * block => block_ok k l (snd cb)) brs = true)
    by (apply forallb_forall; intros x Hx; rewrite Forall_forall in Hb; apply (Hb x Hx)).
  assert (F2 : forallb (fun cb : option tree * block => flags_ok_b (snd cb)) brs = true)
    by (apply forallb_forall; intros x Hx; rewrite Forall_forall in Hb; apply (Hb x Hx)).
  rewrite F1, F2. destruct els as [e|].
  - destruct He as (E1 & E2 & E3 & E4). rewrite E1, E2. split; [reflexivity|]. split; [reflexivity|]. split.
    + intro L. rewrite (E3 L). f_equal.
      clear - Hb L. induction brs as [|x brs IH]; [reflexivity|]. simpl.
      pose proof (Forall_inv Hb) as Hx. pose proof (Forall_inv_tail Hb) as Hr. destruct Hx as (_ & _ & Hx & _). rewrite (Hx L), (IH Hr). reflexivity.
    + intro K. rewrite (E4 K). reflexivity.
  - repeat split; reflexivity.
Qed.

Lemma if_stmt_sound fuel s r s' : parse_if_stmt B ps fuel s = Ok r s' -> snd_s s r s'.
Proof.
  unfold parse_if_stmt. intro H.
  destruct (parse_if_cond_block B ps fuel s) as [cb s1| |] eqn:P1; try discriminate H.
  destruct (else_if_loop B ps (S (pos s1)) fuel [cb] s1) as [brs s2| |] eqn:P2; try discriminate H.
  assert (D : forall els s3, Ok (Some (SIf brs els)) (finish_end s3) = Ok r s' ->
              SN s2 s3 -> (serrs s3 = [] -> match els with Some e => goodb (fr_kind (frames s2)) (fr_loop (frames s2)) e | None => True end) ->
              snd_s s r s').
  { intros els s3 E N3 G3. injection E as ? ?; subst. intro Q.
    destruct (SN_finish_end s3 Q) as [Q3 F3]. destruct (N3 Q3) as [Q2 F32].
    destruct (else_if_loop_sn _ _ _ _ _ _ P2 Q2) as [Q1 F21].
    destruct (if_cond_block_sound _ _ _ _ P1 Q1) as (Q0 & F10 & G1).
    split; [exact Q0|]. split; [congruence|].
    intros st Est. injection Est as <-. apply good_if.
    - rewrite <- F10. apply (else_if_loop_good _ _ _ _ _ _ P2 Q2). constructor; [|constructor]. rewrite F10. exact G1.
    - specialize (G3 Q3). rewrite F21, F10 in G3. exact G3. }
  destruct (ct s2) eqn:T; try (apply (D None s2 H); [apply SN_refl|auto]).
  cbv zeta in H.
  destruct (parse_block_with ps fuel false (push_inherit false (apnl (assert_eol (adv s2))))) as [b s4| |] eqn:PB; try discriminate H.
  apply (D (Some b) (pop_scope s4) H).
  - intro Q. autorewrite with serrs in Q. destruct (block_with_sound _ _ _ _ _ PB Q) as (Qb & Fb & _).
    autorewrite with serrs in Qb. destruct (SN_assert_eol _ Qb) as [Qa _]. autorewrite with serrs in Qa.
    split; [exact Qa|]. autorewrite with frames. rewrite Fb. rewrite frames_push_inherit. simpl. autorewrite with frames. reflexivity.
  - intro Q. autorewrite with serrs in Q. destruct (block_with_sound _ _ _ _ _ PB Q) as (Qb & Fb & Gb).
    rewrite kind_push_inherit, loop_push_inherit in Gb. autorewrite with frames in Gb. exact Gb.
Qed.

Lemma statement_body_sound fuel s r s' : parse_statement_body B ps fuel s = Ok r s' -> snd_s s r s'.
Proof.
  unfold parse_statement_body. intro H.
  destruct (ct s);
    try (injection H as ? ?; subst; intro Q; autorewrite with serrs in Q; discriminate Q).
  - apply empty_stmt_sound in H. exact H.
  - destruct (ttype (peek (cs s)));
      try (apply assign_stmt_sound in H; exact H); try (apply typed_decl_stmt_sound in H; exact H);
      try (apply inferred_decl_stmt_sound in H; exact H);
      (destruct (is_func (tlit (cur (cs s))) s); [apply call_stmt_sound in H; exact H|]);
      try (apply assign_stmt_sound in H; exact H);
      (injection H as ? ?; subst; intro Q; autorewrite with serrs in Q; discriminate Q).
  - injection H as ? ?; subst. apply snd_s_of_SN; [apply SN_adv|intros st E; discriminate E].
  - apply empty_stmt_sound in H. exact H.
  - apply if_stmt_sound in H. exact H.
  - apply return_stmt_sound in H. exact H.
  - apply for_stmt_sound in H. exact H.
  - apply while_stmt_sound in H. exact H.
  - apply break_stmt_sound in H. exact H.
Qed.

End StmtSound.

Lemma Ok_inj {A} (a a' : A) (s s' : pst) : Ok a s = Ok a' s' -> a' = a /\ s' = s.
Proof. intro H. injection H as ? ?; subst; auto. Qed.

Section ProgramSound.
Variable B : benv.

Theorem stmt_sound : forall fuel s r s', parse_statement B fuel s = Ok r s' -> snd_s s r s'.
Proof.
  induction fuel as [|f IH]; intros s r s' H; [discriminate|]. cbn [parse_statement] in H.
  apply (statement_body_sound B (parse_statement B f) IH) in H. exact H.
Qed.

Lemma parse_block_sound fuel s b s' : parse_block B fuel s = Ok b s' ->
  serrs s' = [] -> serrs s = [] /\ frames s' = frames s /\ goodb (fr_kind (frames s)) (fr_loop (frames s)) b.
Proof. unfold parse_block. apply block_with_sound. apply stmt_sound. Qed.

Lemma add_params_sn l : forall s, SN s (add_params B l s).
Proof.
  unfold add_params. induction l as [|x l IH]; intro s; simpl; [apply SN_refl|].
  eapply SN_trans; [|apply IH]. eapply SN_trans; [apply (SN_vvd B (fst x) (snd x) true s)|apply SN_scope_set].
Qed.

Lemma on_params_loop_sn : forall fuel acc s r s', on_params_loop B fuel acc s = Ok r s' -> SN s s'.
Proof.
  induction fuel as [|f IH]; intros acc s r s' H; [discriminate|]. cbn [on_params_loop] in H.
  destruct (is_at_eol (cs s)); [injection H as ? ?; subst; apply SN_refl|].
  destruct (parse_typed_decl B (snd (passert T_IDENT s))) as [d s1| |] eqn:P; try discriminate H.
  apply typed_decl_sn in P. apply IH in H. eapply SN_trans; [apply SN_passert|]. eapply SN_trans; eassumption.
Qed.

Lemma add_event_params_sn ps : forall ex s, SN s (add_event_params B ps ex s).
Proof.
  induction ps as [|[[n p] t] ps IH]; intros ex s; simpl; [apply SN_refl|].
  destruct ex as [|e ex]; [apply SN_refl|].
  eapply SN_trans; [|apply IH]. eapply SN_trans; [|apply SN_scope_set].
  eapply SN_trans; [apply (SN_vvd B n p true s)|].
  destruct t as [t'|]; [destruct (ty_eqb t' e); [apply SN_refl|apply SN_err']|apply SN_refl].
Qed.

Definition top_frames : list (bool * bool * bool) := [(false, false, false)].

Lemma func_sound fuel s r s' : parse_func B fuel s = Ok r s' ->
  serrs s' = [] -> serrs s = [] /\ frames s' = frames s /\ (frames s = top_frames -> forall st, r = Some st -> good KTop false st /\ stmt_term st = false).
Proof.
  unfold parse_func. intros H Q. cbv zeta in H.
  match type of H with context[add_params B (fi_params ?f)] => set (fi := f) in H end.
  match type of H with context[parse_block B fuel ?x] => set (s3 := x) in H end.
  destruct (parse_block B fuel s3) as [b s4| |] eqn:PB; try discriminate H.
  assert (N3 : serrs s3 = [] -> serrs s = [] /\ True).
  { unfold s3. intro Q'. destruct (add_params_sn (fi_params fi) _ Q') as [Q'' _]. autorewrite with serrs in Q''. auto. }
  assert (F3 : serrs s3 = [] -> frames s3 = (true, fi_ret fi, false) :: frames s).
  { intro Q3. unfold s3. destruct (add_params_sn (fi_params fi) (push_scope true (fi_ret fi) false (apnl (adv s))) Q3) as [_ F].
    rewrite F. autorewrite with frames. reflexivity. }
  destruct (negb _).
  { injection H as ? ?; subst. autorewrite with serrs in Q.
    destruct (parse_block_sound _ _ _ _ PB Q) as (Q3 & F4 & _). destruct (N3 Q3) as [Q0 _].
    split; [exact Q0|]. split; [autorewrite with frames; rewrite F4, (F3 Q3); reflexivity|intros _ st E; discriminate E]. }
  destruct (mem_str _ _).
  { injection H as ? ?; subst. autorewrite with serrs in Q. discriminate Q. }
  apply Ok_inj in H as [-> ->].
  change (serrs (finish_end (if fi_ret fi && negb (block_terms b) then serr K_missing_return s4 else s4)) = []) in Q.
  destruct (SN_finish_end _ Q) as [Q5 F5].
  destruct (fi_ret fi && negb (block_terms b)) eqn:MR; [discriminate Q5|].
  destruct (parse_block_sound _ _ _ _ PB Q5) as (Q3 & F4 & Gb). destruct (N3 Q3) as [Q0 _].
  split; [exact Q0|]. split.
  { rewrite frames_pop_scope.
    change (tl (frames (finish_end s4)) = frames s). rewrite F5, F4, (F3 Q3). reflexivity. }
  intros FT st E. injection E as <-. split; [|reflexivity].
  rewrite (F3 Q3), FT in Gb. unfold good. simpl.
  destruct Gb as (G1 & G2 & G3 & _).
  assert (K : fr_kind ((true, fi_ret fi, false) :: top_frames) = (if fi_ret fi then KFun else KProc)) by (destruct (fi_ret fi); reflexivity).
  rewrite K in G1. change (fr_loop ((true, fi_ret fi, false) :: top_frames)) with false in *.
  rewrite G1, G2. repeat split; try reflexivity.
  destruct (fi_ret fi); [|reflexivity]. simpl in MR.
  rewrite <- (G3 eq_refl), <- (flags_block b G2). destruct (block_terms b); [reflexivity|discriminate MR].
Qed.

Lemma event_handler_sound fuel s r s' : parse_event_handler B fuel s = Ok r s' ->
  serrs s' = [] -> serrs s = [] /\ frames s' = frames s /\ (frames s = top_frames -> forall st, r = Some st -> good KTop false st /\ stmt_term st = false).
Proof.
  unfold parse_event_handler. intros H Q. cbv zeta in H.
  destruct (passert T_IDENT (adv s)) as [ok s2] eqn:A.
  destruct ok; cbn [negb] in H.
  2:{ injection H as ? ?; subst. autorewrite with serrs in Q. destruct (passert_ne _ _ _ _ A Q) as [E _]. discriminate E. }
  match type of H with context[on_params_loop B _ [] (adv ?x)] => set (s3 := x) in H end.
  destruct (on_params_loop B (S (pos s3)) [] (adv s3)) as [params s4| |] eqn:PL; try discriminate H.
  apply on_params_loop_sn in PL.
  match type of H with context[parse_block B fuel ?x] => set (s6 := x) in H end.
  destruct (parse_block B fuel s6) as [b s7| |] eqn:PB; try discriminate H.
  injection H as ? ?; subst. autorewrite with serrs in Q.
  destruct (SN_finish_end s7 Q) as [Q7 F7].
  destruct (parse_block_sound _ _ _ _ PB Q7) as (Q6 & F6 & Gb).
  assert (N6 : (serrs s6 = [] -> serrs (apnl s4) = [] /\ True) /\ (serrs s6 = [] -> frames s6 = (true, false, false) :: frames (apnl s4))).
  { unfold s6. destruct params as [|d ds]; [split; [intro Q'; autorewrite with serrs frames in *; auto|intros _; reflexivity]|].
    destruct (lookup_ev _ _) as [ex|]; [|split; [intro Q'; autorewrite with serrs frames in *; auto|intros _; reflexivity]].
    split.
    - intro Q'. destruct (add_event_params_sn (d :: ds) ex _ Q') as [Q'' _].
      destruct (Nat.eqb _ _); autorewrite with serrs in Q''; try discriminate Q''; (split; [rewrite serrs_apnl; exact Q''|exact I]).
    - intro Q'. destruct (add_event_params_sn (d :: ds) ex _ Q') as [Q'' F]. rewrite F. destruct (Nat.eqb _ _); reflexivity. }
  destruct N6 as [N6 F6'].
  destruct (N6 Q6) as [Q4' F64]. autorewrite with serrs in Q4'. destruct (PL Q4') as [Q3' F43]. autorewrite with serrs in Q3'.
  assert (Q2 : serrs s2 = [] /\ frames s3 = frames s2).
  { unfold s3 in Q3' |- *. destruct (mem_str _ _); [discriminate Q3'|]. destruct (lookup_ev _ _); [split; [exact Q3'|reflexivity]|discriminate Q3']. }
  destruct Q2 as [Q2 F32]. destruct (passert_ne _ _ _ _ A Q2) as [_ E2]. subst s2. autorewrite with serrs in Q2.
  split; [exact Q2|]. split.
  { autorewrite with frames. rewrite F7, F6, (F6' Q6). simpl. autorewrite with frames. rewrite F43. autorewrite with frames. rewrite F32. reflexivity. }
  intros FT st E. injection E as <-. split; [|reflexivity].
  rewrite (F6' Q6) in Gb. autorewrite with frames in Gb. rewrite F43 in Gb. autorewrite with frames in Gb. rewrite F32 in Gb. autorewrite with frames in Gb. rewrite FT in Gb.
  destruct Gb as (G1 & G2 & _). unfold good. simpl. simpl in G1. rewrite G1, G2. repeat split; reflexivity.
Qed.

Lemma program_loop_sn : forall fuel acc terms s p s', program_loop B fuel acc terms s = Ok p s' -> SN s s'.
Proof.
  induction fuel as [|f IH]; intros acc terms s p s' H; [discriminate|]. cbn [program_loop] in H.
  assert (DS : (pdo (r, s1) <- parse_statement B f s;
        match r with
        | None => program_loop B f acc terms s1
        | Some st => if terms then program_loop B f acc terms (serr_at K_unreachable (pos s) s1)
                     else program_loop B f (st :: acc) (always_terms st) s1
        end) = Ok p s' -> SN s s').
  { intro H1. destruct (parse_statement B f s) as [r s1| |] eqn:P; try discriminate H1.
    apply stmt_sound in P. apply snd_s_SN in P.
    destruct r as [st|]; [destruct terms|]; apply IH in H1.
    - eapply SN_trans; [exact P|]. intro Q. destruct (H1 Q) as [Q1 _]. discriminate Q1.
    - eapply SN_trans; eassumption.
    - eapply SN_trans; eassumption. }
  destruct (ct s); try exact (DS H).
  - injection H as ? ?; subst. apply SN_refl.
  - destruct (parse_func B f s) as [r s1| |] eqn:P; try discriminate H. apply IH in H.
    intro Q. destruct (H Q) as [Q1 F1]. destruct (func_sound _ _ _ _ P Q1) as (Q0 & F0 & _). split; [exact Q0|congruence].
  - destruct (parse_event_handler B f s) as [r s1| |] eqn:P; try discriminate H. apply IH in H.
    intro Q. destruct (H Q) as [Q1 F1]. destruct (event_handler_sound _ _ _ _ P Q1) as (Q0 & F0 & _). split; [exact Q0|congruence].
Qed.

Lemma program_loop_good : forall fuel acc terms s p s', program_loop B fuel acc terms s = Ok p s' ->
  serrs s' = [] -> frames s = top_frames ->
  Forall (good KTop false) acc -> terms = existsb stmt_term acc -> no_dead (rev acc) = true ->
  structure_ok p = true.
Proof.
  induction fuel as [|f IH]; intros acc terms s p s' H Q FT Hacc Ht Hnd; [discriminate|]. cbn [program_loop] in H.
  assert (DS : (pdo (r, s1) <- parse_statement B f s;
        match r with
        | None => program_loop B f acc terms s1
        | Some st => if terms then program_loop B f acc terms (serr_at K_unreachable (pos s) s1)
                     else program_loop B f (st :: acc) (always_terms st) s1
        end) = Ok p s' -> structure_ok p = true).
  { intro H1. destruct (parse_statement B f s) as [r s1| |] eqn:P; try discriminate H1. apply stmt_sound in P.
    destruct r as [st|]; [destruct terms eqn:TT|].
    - destruct (program_loop_sn _ _ _ _ _ _ H1 Q) as [Q1 _]. discriminate Q1.
    - destruct (program_loop_sn _ _ _ _ _ _ H1 Q) as [Q1 _]. destruct (P Q1) as (Q0 & F1 & G). specialize (G st eq_refl).
      rewrite FT in G. change (fr_kind top_frames) with KTop in G. change (fr_loop top_frames) with false in G.
      apply (IH _ _ _ _ _ H1 Q); [congruence|constructor; assumption| |].
      + simpl. destruct G as (_ & G2 & _). rewrite (flags_always_terms st G2), <- Ht. rewrite orb_false_r. reflexivity.
      + simpl. rewrite no_dead_app, Hnd, existsb_rev, <- Ht. reflexivity.
    - destruct (program_loop_sn _ _ _ _ _ _ H1 Q) as [Q1 _]. destruct (P Q1) as (Q0 & F1 & _).
      apply (IH _ _ _ _ _ H1 Q); [congruence|assumption|assumption|assumption]. }
  assert (DF : forall r s1, (serrs s1 = [] -> serrs s = [] /\ frames s1 = frames s /\ (frames s = top_frames -> forall st, r = Some st -> good KTop false st /\ stmt_term st = false)) ->
               program_loop B f (match r with Some st => st :: acc | None => acc end) terms s1 = Ok p s' -> structure_ok p = true).
  { intros r s1 S1 H1. destruct (program_loop_sn _ _ _ _ _ _ H1 Q) as [Q1 _]. destruct (S1 Q1) as (Q0 & F1 & G).
    apply (IH _ _ _ _ _ H1 Q); [congruence| | |].
    - destruct r as [st|]; [constructor; [apply (G FT st eq_refl)|assumption]|assumption].
    - destruct r as [st|]; [|assumption]. simpl. destruct (G FT st eq_refl) as (_ & G1). rewrite G1. exact Ht.
    - destruct r as [st|]; [|assumption]. simpl. rewrite no_dead_app, Hnd, existsb_rev, <- Ht.
      destruct terms; [|reflexivity]. simpl.
      (* a function or handler after a terminating top-level statement: there is no terminating statement at top level *)
      exfalso. clear - Hacc Ht. symmetry in Ht. apply existsb_exists in Ht as (x & Hin & Hx). rewrite Forall_forall in Hacc.
      destruct (Hacc x Hin) as (_ & _ & G3 & G4). rewrite (G3 eq_refl), (G4 eq_refl) in Hx. discriminate Hx. }
  destruct (ct s); try exact (DS H).
  - injection H as ? ?; subst. unfold structure_ok.
    assert (F1 : forallb (stmt_ok KTop false) acc = true)
      by (apply forallb_forall; intros x Hx; rewrite Forall_forall in Hacc; apply (Hacc x Hx)).
    rewrite forallb_rev, F1, Hnd. reflexivity.
  - destruct (parse_func B f s) as [r s1| |] eqn:P; try discriminate H. apply (DF r s1); [apply (func_sound _ _ _ _ P)|exact H].
  - destruct (parse_event_handler B f s) as [r s1| |] eqn:P; try discriminate H. apply (DF r s1); [apply (event_handler_sound _ _ _ _ P)|exact H].
Qed.

End ProgramSound.

(* ================================================================ *)
(** * Accept implies the structural rules                            *)

Lemma map_rev_nil {A C} (f : A -> C) l : map f (rev l) = [] -> l = [].
Proof. destruct l as [|x l]; [reflexivity|]. simpl. rewrite map_app. simpl. intro H. destruct (map f (rev l)); discriminate H. Qed.

Theorem accept_structure B raw eof p : parse B raw eof = Accept p -> structure_ok p = true.
Proof.
  unfold parse.
  destruct (signatures B tEOF _ _) as [u s1| |]; try discriminate.
  destruct (_ ++ _) as [|e0 es0]; [|discriminate].
  match goal with |- context[program_loop B ?fu [] false ?s2] => destruct (program_loop B fu [] false s2) as [prog s3| |] eqn:PL end; try discriminate.
  destruct (map _ (rev (errs (cs (validate_scope s3))))) as [|e1 es1] eqn:EM; [|discriminate].
  intro H. injection H as <-.
  apply map_rev_nil in EM.
  apply (program_loop_good B _ _ _ _ _ _ PL); [apply serrs_validate_scope; exact EM|reflexivity|constructor|reflexivity|reflexivity].
Qed.

(* the statement loop ends at the end of the input only: an accepted program has consumed every token *)
Lemma program_loop_ends B : forall fuel acc terms s p s', program_loop B fuel acc terms s = Ok p s' -> ct s' = T_EOF.
Proof.
  induction fuel as [|f IH]; intros acc terms s p s' H; [discriminate|]. cbn [program_loop] in H.
  destruct (ct s) eqn:T;
    try (destruct (parse_statement B f s) as [r s1| |]; try discriminate H;
         destruct r as [st|]; [destruct terms|]; apply IH in H; exact H).
  - injection H as ? ?; subst. exact T.
  - destruct (parse_func B f s) as [r s1| |]; try discriminate H. apply IH in H. exact H.
  - destruct (parse_event_handler B f s) as [r s1| |]; try discriminate H. apply IH in H. exact H.
Qed.

(* ================================================================ *)
(** * The function table is fixed once the signatures have been read *)

Lemma fns_upd f s : fns (upd f s) = fns s. Proof. reflexivity. Qed.
Lemma fns_with_scs s l : fns (with_scs s l) = fns s. Proof. reflexivity. Qed.
Lemma fns_with_cs s c : fns (with_cs s c) = fns s. Proof. reflexivity. Qed.
Lemma fns_adv s : fns (adv s) = fns s. Proof. reflexivity. Qed.
Lemma fns_apnl s : fns (apnl s) = fns s. Proof. reflexivity. Qed.
Lemma fns_serr_at k n s : fns (serr_at k n s) = fns s. Proof. reflexivity. Qed.
Lemma fns_serr k s : fns (serr k s) = fns s. Proof. reflexivity. Qed.
Lemma fns_assert_eol s : fns (assert_eol s) = fns s. Proof. unfold assert_eol. destruct (is_at_eol _); reflexivity. Qed.
Lemma fns_passert t s : fns (snd (passert t s)) = fns s. Proof. unfold passert. destruct (assert_token t (cs s)); reflexivity. Qed.
Lemma fns_scope_set n p s : fns (scope_set n p s) = fns s.
Proof. unfold scope_set. destruct (str_eqb _ _); [reflexivity|]. destruct (scs s); reflexivity. Qed.
Lemma fns_mark n s : fns (mark n s) = fns s. Proof. reflexivity. Qed.
Lemma fns_push_scope a b c s : fns (push_scope a b c s) = fns s. Proof. reflexivity. Qed.
Lemma fns_push_inherit b s : fns (push_inherit b s) = fns s. Proof. reflexivity. Qed.
Lemma fns_pop_scope s : fns (pop_scope s) = fns s. Proof. reflexivity. Qed.
Lemma fns_ty_err_here site s : fns (ty_err_here site s) = fns s. Proof. reflexivity. Qed.
Lemma fns_fold_mark l : forall s0, fns (fold_right mark s0 l) = fns s0.
Proof. induction l; intro; simpl; auto. Qed.
Lemma fns_collect s c : fns (collect s c) = fns s.
Proof. unfold collect. rewrite fns_upd, fns_fold_mark. reflexivity. Qed.
Lemma fns_fold_serr {X} (f : X -> nat) k (l : list X) : forall s, fns (fold_left (fun s v => serr_at k (f v) s) l s) = fns s.
Proof. induction l as [|x l IH]; intro s; simpl; [reflexivity|]. rewrite IH. reflexivity. Qed.
Lemma fns_validate_scope s : fns (validate_scope s) = fns s.
Proof. unfold validate_scope. destruct (scs s); [reflexivity|]. apply fns_fold_serr. Qed.
Lemma fns_validate_var_decl B n p a s : fns (snd (validate_var_decl B n p a s)) = fns s.
Proof. unfold validate_var_decl. repeat (destruct (_ : bool); try reflexivity). Qed.
Lemma fns_finish_end s : fns (finish_end s) = fns s.
Proof. unfold finish_end. rewrite fns_apnl, fns_assert_eol, fns_adv, fns_passert. reflexivity. Qed.

#[local] Hint Rewrite fns_upd fns_with_scs fns_with_cs fns_adv fns_apnl fns_serr_at fns_serr fns_assert_eol fns_passert
  fns_scope_set fns_mark fns_push_scope fns_push_inherit fns_pop_scope fns_ty_err_here fns_collect fns_validate_scope
  fns_validate_var_decl fns_finish_end : fns.

Lemma passert_fns t s ok s' : passert t s = (ok, s') -> fns s' = fns s.
Proof. intro H. pose proof (fns_passert t s) as X. rewrite H in X. exact X. Qed.
Lemma vvd_fns B n p a s ok s' : validate_var_decl B n p a s = (ok, s') -> fns s' = fns s.
Proof. intro H. pose proof (fns_validate_var_decl B n p a s) as X. rewrite H in X. exact X. Qed.

(* FN r: the result keeps the function table of s *)
Definition FN {A} (s : pst) (r : PR A) : Prop := forall a s', r = Ok a s' -> fns s' = fns s.

Lemma expr_call_fn B {A} (f : env -> nat -> pstate -> res A) s : FN s (expr_call B f s).
Proof.
  intros a s' H. unfold expr_call in H. destruct (f _ _ _) as [[x c]|]; [|discriminate H].
  apply Ok_inj in H as [-> ->]. apply fns_collect.
Qed.

(* walk through a body recorded in H : body = Ok a s', keeping the table equalities of sub-calls *)
Ltac fn_sub P := first
  [ apply expr_call_fn in P | apply passert_fns in P | apply vvd_fns in P ].
Ltac fn_chew H :=
  repeat (first
    [ discriminate H
    | match type of H with
      | Ok _ _ = Ok _ _ => fail 1
      | (match ?m with _ => _ end) = Ok _ _ =>
          lazymatch m with
          | context[match _ with _ => _ end] => fail
          | _ => let P := fresh "P" in first [ destruct m as [? ?| |] eqn:P | destruct m as [? ?] eqn:P | destruct m eqn:P ]; try fn_sub P
          end
      | (if ?b then _ else _) = Ok _ _ => let P := fresh "B" in destruct b eqn:P
      | (let '(_, _) := ?m in _) = Ok _ _ => let P := fresh "A" in destruct m eqn:P; try fn_sub P
      end ]).
Ltac fn_fin H :=
  apply Ok_inj in H; destruct H; subst; autorewrite with fns;
  repeat match goal with Hf : fns ?x = fns _ |- _ => rewrite Hf; clear Hf; autorewrite with fns end;
  try reflexivity; try congruence.

(* ================================================================ *)
(** * Expressions of an error-free parse satisfy the expression rules *)

(* (e) every call names a function of the table, with the right number of arguments unless
       the function is variadic (a niladic function read as a value takes none);
   (f, as far as one expression goes) every variable read is visible in the environment;
   typing: at every node the type checker is consulted for, the oracle did not object
   (for some blamed token: the tree does not record token positions). *)
Fixpoint tree_ok (E : env) (t : tree) : Prop :=
  match t with
  | TVar n => mem_str n (e_vars E) = true
  | TNum _ | TStr _ | TBool _ => True
  | TArr l => (fix all (l : list tree) : Prop := match l with [] => True | x :: r => tree_ok E x /\ all r end) l
  | TMap l => (fix all (l : list (str * tree)) : Prop := match l with [] => True | x :: r => tree_ok E (snd x) /\ all r end) l
  | TUn _ r => tree_ok E r /\ exists n, e_tyerr E TS_unary t n = false
  | TBin _ l r => tree_ok E l /\ tree_ok E r /\ exists n, e_tyerr E TS_binary t n = false
  | TGroup e => tree_ok E e
  | TIndex l i => tree_ok E l /\ tree_ok E i /\ (exists n, e_tyerr E TS_not_indexable l n = false) /\
                  exists n, e_tyerr E TS_index_type t n = false
  | TSlice l s e => tree_ok E l /\ match s with Some x => tree_ok E x | None => True end /\
                    match e with Some x => tree_ok E x | None => True end /\
                    (exists n, e_tyerr E TS_not_indexable l n = false) /\ (exists n, e_tyerr E TS_not_sliceable l n = false) /\
                    exists n, e_tyerr E TS_slice_bounds t n = false
  | TDot l _ => tree_ok E l /\ exists n, e_tyerr E TS_dot_not_map l n = false
  | TAssert l ty => tree_ok E l /\ ty <> None /\ ty <> Some TyAny /\ exists n, e_tyerr E TS_assert_not_any l n = false
  | TCall name args =>
      func_of E name <> None /\
      (fix all (l : list tree) : Prop := match l with [] => True | x :: r => tree_ok E x /\ all r end) args /\
      ((arity_wrong E name (List.length args) = false /\ exists n, e_tyerr E TS_call_args t n = false) \/
       (args = [] /\ func_of E name = Some true))
  end.

Definition all_ok (E : env) (l : list tree) : Prop := Forall (tree_ok E) l.
Lemma all_ok_fix E l :
  (fix all (l : list tree) : Prop := match l with [] => True | x :: r => tree_ok E x /\ all r end) l <-> all_ok E l.
Proof.
  induction l as [|x l IH]; simpl; [split; [constructor|auto]|].
  split; [intros [H1 H2]; constructor; [exact H1|apply IH; exact H2]|].
  intro H. split; [exact (Forall_inv H)|apply IH; exact (Forall_inv_tail H)].
Qed.

(* like chew, but keeps the equation of every sub-call next to its NE fact *)
Ltac chew2 H :=
  unfold ret in H;
  repeat (first
    [ discriminate H
    | match type of H with
      | Some (_, _) = Some (_, _) => fail 1
      | (match ?m with _ => _ end) = Some _ =>
          lazymatch m with
          | context[match _ with _ => _ end] => fail
          | _ => let P := fresh "P" in let PE := fresh "PE" in
                 first [ destruct m as [[? ?]|] eqn:P | destruct m eqn:P ]; try (pose proof P as PE; sub_ne P)
          end
      | (if ?b then _ else _) = Some _ => let P := fresh "B" in destruct b eqn:P
      | (let '(_, _) := ?m in _) = Some _ => let P := fresh "A" in destruct m eqn:P
      end ]).

(* derive that every recorded intermediate state is error free, from the error-free end state *)
Ltac back :=
  repeat match goal with
         | Hn : NE ?a ?b |- _ =>
             let T := fresh "T" in assert (T : errs b = []) by ne; specialize (Hn T); clear T
         | Hn : assert_token ?t ?x = (?ok, ?y) |- _ =>
             let T := fresh "T" in assert (T : errs y = []) by ne;
             destruct (assert_token_ne _ _ _ _ Hn T); subst; clear Hn T
         end.

Section ExprOK.
Variable E : env.
Variable pe : nat -> pstate -> res (option tree).
Hypothesis HNE : forall p c a c', pe p c = Some (a, c') -> NE c c'.
Hypothesis HOK : forall p c t c', pe p c = Some (Some t, c') -> errs c' = [] -> tree_ok E t.

Ltac sub_ne P ::= first [ apply multiline_ws_ne in P | apply parse_type_ne in P | apply HNE in P
                        | apply (expr_wss_ne pe HNE) in P | apply (expr_list_ne pe HNE) in P
                        | apply (func_call_ne E pe HNE) in P | apply (toplevel_ne E pe HNE) in P
                        | apply (slice_ne E pe HNE) in P ].

Lemma expr_wss_ok c t c' : parse_expr_wss pe c = Some (Some t, c') -> errs c' = [] -> tree_ok E t.
Proof.
  unfold parse_expr_wss. intros H Q. chew2 H. injection H as ? ?; subst. autorewrite with errs in Q.
  eapply HOK; eassumption.
Qed.

Lemma expr_list_ok : forall fuel acc c l c', parse_expr_list pe fuel acc c = Some (Some l, c') ->
  errs c' = [] -> all_ok E acc -> all_ok E l.
Proof.
  induction fuel as [|f IH]; intros acc c l c' H Q Hacc; [discriminate|]. cbn [parse_expr_list] in H.
  assert (D1 : ret (Some (rev acc)) c = Some (Some l, c') -> all_ok E l).
  { unfold ret. intro H1. injection H1 as ? ?; subst. apply Forall_rev. exact Hacc. }
  assert (D : (if is_at_eol c then ret (Some (rev acc)) c else
            (do (n, st1) <- parse_expr_wss pe c;
             match n with None => ret None st1 | Some t => parse_expr_list pe f (t :: acc) (advance_if_ws st1) end)) = Some (Some l, c') -> all_ok E l).
  { intro H1. destruct (is_at_eol c); [exact (D1 H1)|].
    destruct (parse_expr_wss pe c) as [[n st1]|] eqn:P; [|discriminate H1].
    destruct n as [t|]; [|discriminate H1].
    pose proof (expr_list_ne pe HNE _ _ _ _ _ H1 Q) as Q1. autorewrite with errs in Q1.
    apply (IH _ _ _ _ H1 Q). constructor; [|exact Hacc]. eapply expr_wss_ok; eassumption. }
  destruct (cur_t c); try exact (D H); exact (D1 H).
Qed.

Lemma func_call_ok fuel top nil c t c' :
  parse_func_call E pe fuel top nil c = Some (Some t, c') -> errs c' = [] ->
  func_of E (tlit (cur c)) = Some nil -> tree_ok E t.
Proof.
  unfold parse_func_call, tyerr. intros H Q Hf.
  destruct (top || negb nil) eqn:TN.
  - destruct (parse_expr_list pe fuel [] (advance c)) as [[args st2]|] eqn:P; [|discriminate H].
    unfold ret in H. injection H as ? ?; subst.
    destruct (arity_wrong E _ _) eqn:AW; [autorewrite with errs in Q; discriminate Q|].
    destruct (e_tyerr E TS_call_args _ _) eqn:TE; [autorewrite with errs in Q; discriminate Q|].
    simpl. split; [rewrite Hf; discriminate|]. split.
    + apply all_ok_fix. destruct args as [l|]; [|constructor]. eapply expr_list_ok; [exact P|exact Q|constructor].
    + left. split; [exact AW|eexists; exact TE].
  - unfold ret in H. injection H as ? ?; subst. simpl.
    destruct top; [discriminate TN|]. destruct nil; [|discriminate TN].
    split; [rewrite Hf; discriminate|]. split; [exact I|]. right. auto.
Qed.

Lemma toplevel_ok fuel c t c' : parse_toplevel E pe fuel c = Some (Some t, c') -> errs c' = [] -> tree_ok E t.
Proof.
  unfold parse_toplevel. intros H Q.
  destruct (cur_t c); try (eapply HOK; eassumption).
  destruct (func_of E (tlit (cur c))) as [[|]|] eqn:F; try (eapply HOK; eassumption).
  eapply func_call_ok; eassumption.
Qed.

Lemma lookup_var_ok c t c' : lookup_var E c = Some (Some t, c') -> errs c' = [] -> tree_ok E t.
Proof.
  unfold lookup_var. intros H Q. chew2 H; injection H as ? ?; subst; try discriminate. simpl. assumption.
Qed.

Lemma ident_expr_ok fuel c t c' : parse_ident_expr E pe fuel c = Some (Some t, c') -> errs c' = [] -> tree_ok E t.
Proof.
  unfold parse_ident_expr. intros H Q.
  destruct (func_of E _) as [[|]|] eqn:F; try (eapply lookup_var_ok; eassumption).
  eapply func_call_ok; eassumption.
Qed.

Lemma array_elems_ok : forall fuel acc c l c', parse_array_elems E pe fuel acc c = Some (Some l, c') ->
  errs c' = [] -> all_ok E acc -> all_ok E l.
Proof.
  induction fuel as [|f IH]; intros acc c l c' H Q Hacc; [discriminate|]. cbn [parse_array_elems] in H. unfold tyerr in H.
  assert (D1 : ret (Some (rev acc)) c = Some (Some l, c') -> all_ok E l).
  { unfold ret. intro H1. injection H1 as ? ?; subst. apply Forall_rev. exact Hacc. }
  destruct (cur_t c); try exact (D1 H);
    (destruct (parse_expr_wss pe c) as [[n st1]|] eqn:P; [|discriminate H];
     destruct n as [t|]; [|discriminate H];
     destruct (e_tyerr E _ _ _); [discriminate H|];
     destruct (parse_multiline_ws (S f) st1) as [st2|] eqn:W; [|discriminate H];
     pose proof (array_elems_ne E pe HNE _ _ _ _ _ H Q) as Q2;
     pose proof (multiline_ws_ne _ _ _ W Q2) as Q1;
     apply (IH _ _ _ _ H Q); constructor; [|exact Hacc]; eapply expr_wss_ok; eassumption).
Qed.

Lemma array_literal_ok fuel c t c' : parse_array_literal E pe fuel c = Some (Some t, c') -> errs c' = [] -> tree_ok E t.
Proof.
  unfold parse_array_literal. intros H Q.
  destruct (parse_multiline_ws fuel (advance c)) as [c2|] eqn:W; [|discriminate H].
  destruct (parse_array_elems E pe fuel [] c2) as [[els c3]|] eqn:P; [|discriminate H].
  destruct els as [l|]; [|discriminate H].
  destruct (assert_token T_RBRACKET c3) as [ok c4] eqn:A. destruct ok; [|discriminate H].
  unfold ret in H. injection H as ? ?; subst. autorewrite with errs in Q.
  destruct (assert_token_ne _ _ _ _ A Q) as [_ ->].
  simpl. apply all_ok_fix. eapply array_elems_ok; [exact P|exact Q|constructor].
Qed.

Definition pairs_ok (l : list (str * tree)) : Prop := Forall (fun kv => tree_ok E (snd kv)) l.
Lemma pairs_ok_fix l :
  (fix all (l : list (str * tree)) : Prop := match l with [] => True | x :: r => tree_ok E (snd x) /\ all r end) l <-> pairs_ok l.
Proof.
  induction l as [|x l IH]; simpl; [split; [constructor|auto]|].
  split; [intros [H1 H2]; constructor; [exact H1|apply IH; exact H2]|].
  intro H. split; [exact (Forall_inv H)|apply IH; exact (Forall_inv_tail H)].
Qed.

Lemma map_pairs_ok : forall fuel acc c l c', parse_map_pairs E pe fuel acc c = Some (Some l, c') ->
  errs c' = [] -> pairs_ok acc -> pairs_ok l.
Proof.
  induction fuel as [|f IH]; intros acc c l c' H Q Hacc; [discriminate|]. cbn [parse_map_pairs] in H. unfold tyerr in H.
  assert (D1 : ret (Some (rev acc)) c = Some (Some l, c') -> pairs_ok l).
  { unfold ret. intro H1. injection H1 as ? ?; subst. apply Forall_rev. exact Hacc. }
  destruct (cur_t c); try exact (D1 H);
    (set (st0 := match ttype (as_ident (cur c)) with T_IDENT => c | _ => add_err E_map_key c end) in H;
     destruct (has_key _ _); [discriminate H|];
     set (st3 := advance (snd (assert_token T_COLON (advance st0)))) in H;
     destruct (parse_expr_wss pe st3) as [[n st4]|] eqn:P; [|discriminate H];
     destruct n as [t|]; [|discriminate H];
     destruct (e_tyerr E _ _ _); [discriminate H|];
     destruct (parse_multiline_ws (S f) st4) as [st5|] eqn:W; [|discriminate H];
     pose proof (map_pairs_ne E pe HNE _ _ _ _ _ H Q) as Q5;
     pose proof (multiline_ws_ne _ _ _ W Q5) as Q4;
     apply (IH _ _ _ _ H Q); constructor; [|exact Hacc]; simpl; eapply expr_wss_ok; eassumption).
Qed.

Lemma map_literal_ok fuel c t c' : parse_map_literal E pe fuel c = Some (Some t, c') -> errs c' = [] -> tree_ok E t.
Proof.
  unfold parse_map_literal. intros H Q.
  destruct (parse_multiline_ws fuel (advance (push_wss false c))) as [c2|] eqn:W; [|discriminate H].
  destruct (parse_map_pairs E pe fuel [] c2) as [[ps c3]|] eqn:P; [|discriminate H].
  destruct ps as [l|]; [|discriminate H].
  destruct (assert_token T_RCURLY c3) as [ok c4] eqn:A. destruct ok; [|discriminate H].
  unfold ret in H. injection H as ? ?; subst. autorewrite with errs in Q.
  destruct (assert_token_ne _ _ _ _ A Q) as [_ ->].
  simpl. apply pairs_ok_fix. eapply map_pairs_ok; [exact P|exact Q|constructor].
Qed.

Lemma literal_ok fuel c t c' : parse_literal E pe fuel c = Some (Some t, c') -> errs c' = [] -> tree_ok E t.
Proof.
  unfold parse_literal. intros H Q.
  destruct (ttype (cur c)); unfold ret in H; try discriminate H;
    try (injection H as ? ?; subst; exact I).
  - destruct (num_lit_ok _); [injection H as ? ?; subst; exact I|discriminate H].
  - eapply array_literal_ok; eassumption.
  - eapply map_literal_ok; eassumption.
Qed.

Lemma unary_ok c t c' : parse_unary E pe c = Some (Some t, c') -> errs c' = [] -> tree_ok E t.
Proof.
  unfold parse_unary, tyerr. intros H Q.
  set (st2 := if is_ws (prev (advance c)) then add_err_at E_ws_after_unary (here c) (advance c) else advance c) in H.
  destruct (pe unary_operand_prec st2) as [[r st3]|] eqn:P; [|discriminate H].
  destruct r as [x|]; [|discriminate H].
  destruct (e_tyerr E TS_unary _ _) eqn:TE; [discriminate H|].
  unfold ret in H. injection H as ? ?; subst. simpl. split; [eapply HOK; eassumption|eexists; exact TE].
Qed.

Lemma binary_ok left c t c' : parse_binary E pe left c = Some (Some t, c') -> errs c' = [] -> tree_ok E left -> tree_ok E t.
Proof.
  unfold parse_binary, tyerr. intros H Q Hl.
  destruct (pe _ (advance c)) as [[r st2]|] eqn:P; [|discriminate H].
  destruct r as [x|]; [|discriminate H].
  destruct (e_tyerr E TS_binary _ _) eqn:TE; [discriminate H|].
  unfold ret in H. injection H as ? ?; subst. simpl. split; [exact Hl|]. split; [eapply HOK; eassumption|eexists; exact TE].
Qed.

Lemma grouped_ok fuel c t c' : parse_grouped E pe fuel c = Some (Some t, c') -> errs c' = [] -> tree_ok E t.
Proof.
  unfold parse_grouped. intros H Q.
  destruct (parse_toplevel E pe fuel (advance (push_wss false c))) as [[e st2]|] eqn:P; [|discriminate H].
  destruct (assert_token T_RPAREN st2) as [ok st3] eqn:A.
  destruct ok, e as [x|]; unfold ret in H; try discriminate H.
  injection H as ? ?; subst. autorewrite with errs in Q. destruct (assert_token_ne _ _ _ _ A Q) as [_ ->].
  simpl. eapply toplevel_ok; eassumption.
Qed.

Lemma slice_ok fuel tok left start c t c' :
  parse_slice E pe fuel tok left start c = Some (Some t, c') -> errs c' = [] ->
  tree_ok E left -> match start with Some x => tree_ok E x | None => True end ->
  (exists n, e_tyerr E TS_not_indexable left n = false) -> tree_ok E t.
Proof.
  unfold parse_slice, tyerr. intros H Q Hl Hs Hni.
  destruct (e_tyerr E TS_not_sliceable left tok) eqn:NS; [discriminate H|].
  assert (D : (do (e, st1) <- parse_toplevel E pe fuel c;
     match e with
     | None => ret None st1
     | Some x =>
       let '(ok, st2) := assert_token T_RBRACKET st1 in
       if ok then
         let st3 := slice_close E st2 in
         let t := TSlice left start (Some x) in
         if e_tyerr E TS_slice_bounds t tok then ret None (add_err_at (E_type TS_slice_bounds) tok st3) else ret (Some t) st3
       else ret None st2
     end) = Some (Some t, c') -> tree_ok E t).
  { intro H1. destruct (parse_toplevel E pe fuel c) as [[e st1]|] eqn:P; [|discriminate H1].
    destruct e as [x|]; [|discriminate H1].
    destruct (assert_token T_RBRACKET st1) as [ok st2] eqn:A. destruct ok; [|discriminate H1].
    cbv zeta in H1. destruct (e_tyerr E TS_slice_bounds _ _) eqn:SB; [discriminate H1|].
    unfold ret in H1. injection H1 as ? ?; subst. autorewrite with errs in Q. destruct (assert_token_ne _ _ _ _ A Q) as [_ ->].
    simpl. repeat split; auto; try (eexists; eassumption). eapply toplevel_ok; eassumption. }
  destruct (cur_t c); try exact (D H).
  cbv zeta in H. destruct (e_tyerr E TS_slice_bounds _ _) eqn:SB; [discriminate H|].
  unfold ret in H. injection H as ? ?; subst. simpl. repeat split; auto; eexists; eassumption.
Qed.

Lemma index_or_slice_ok fuel allow left c t c' :
  parse_index_or_slice E pe fuel allow left c = Some (Some t, c') -> errs c' = [] -> tree_ok E left -> tree_ok E t.
Proof.
  unfold parse_index_or_slice, tyerr. intros H Q Hl.
  destruct (is_ws (prev (push_wss false c))); [discriminate H|].
  destruct (e_tyerr E TS_not_indexable left (here c)) eqn:NI; [discriminate H|].
  destruct (allow && _).
  - destruct (parse_slice E pe fuel (here c) left None (advance (advance (push_wss false c)))) as [[x s]|] eqn:P; [|discriminate H].
    unfold ret in H. injection H as ? ?; subst. autorewrite with errs in Q.
    eapply slice_ok; [exact P|exact Q|exact Hl|exact I|eexists; exact NI].
  - destruct (parse_toplevel E pe fuel (advance (push_wss false c))) as [[ix st2]|] eqn:P; [|discriminate H].
    destruct ix as [i|]; [|discriminate H].
    destruct (allow && _).
    + destruct (parse_slice E pe fuel (here c) left (Some i) (advance st2)) as [[x s]|] eqn:P2; [|discriminate H].
      unfold ret in H. injection H as ? ?; subst. autorewrite with errs in Q.
      pose proof (slice_ne E pe HNE _ _ _ _ _ _ _ P2 Q) as Q2. autorewrite with errs in Q2.
      eapply slice_ok; [exact P2|exact Q| exact Hl| simpl; eapply toplevel_ok; eassumption | eexists; exact NI].
    + destruct (assert_token T_RBRACKET st2) as [ok st3] eqn:A. destruct ok; [|discriminate H].
      destruct (e_tyerr E TS_index_type _ _) eqn:IT; [discriminate H|].
      unfold ret in H. injection H as ? ?; subst. autorewrite with errs in Q. destruct (assert_token_ne _ _ _ _ A Q) as [_ ->].
      simpl. repeat split; auto; try (eexists; eassumption). eapply toplevel_ok; eassumption.
Qed.

Lemma dot_ok left c t c' : parse_dot E left c = Some (Some t, c') -> errs c' = [] -> tree_ok E left -> tree_ok E t.
Proof.
  unfold parse_dot, tyerr. intros H Q Hl.
  destruct (is_ws (prev c)); [discriminate H|]. destruct (is_ws (look1 (rest c))); [discriminate H|].
  destruct (e_tyerr E TS_dot_not_map left (here c)) eqn:DM; [discriminate H|].
  destruct (ttype (as_ident (cur (advance c)))); unfold ret in H; try discriminate H.
  injection H as ? ?; subst. simpl. split; [exact Hl|eexists; exact DM].
Qed.

Lemma type_assertion_ok fuel left c t c' :
  parse_type_assertion E fuel left c = Some (Some t, c') -> errs c' = [] -> tree_ok E left -> tree_ok E t.
Proof.
  unfold parse_type_assertion, tyerr. intros H Q Hl.
  destruct (is_ws (prev c)); [discriminate H|]. destruct (is_ws (look1 (rest c))); [discriminate H|].
  destruct (parse_type fuel (advance (advance (push_wss false c)))) as [[ty c2]|] eqn:P; [|discriminate H].
  destruct ty as [ty|]; [|destruct (assert_token T_RPAREN _); discriminate H].
  set (st3 := match Some ty with None => add_err_at E_bad_type (here c) c2 | Some TyAny => add_err_at E_assert_any (here c) c2 | Some _ => c2 end) in H.
  destruct (assert_token T_RPAREN st3) as [ok c4] eqn:A.
  unfold ret in H. injection H as ? ?; subst. autorewrite with errs in Q.
  destruct (e_tyerr E TS_assert_not_any left (here c)) eqn:AN; [autorewrite with errs in Q; discriminate Q|].
  assert (Q4 : errs c4 = []) by (destruct ok; autorewrite with errs in Q; exact Q).
  destruct (assert_token_ne _ _ _ _ A Q4) as [_ E4]. subst c4.
  simpl. split; [exact Hl|]. split; [discriminate|]. split; [|eexists; exact AN].
  intro X. injection X as ->. unfold st3 in Q4. autorewrite with errs in Q4. discriminate Q4.
Qed.

Lemma prefix_ok fuel c t c' : parse_prefix E pe fuel c = Some (Some t, c') -> errs c' = [] -> tree_ok E t.
Proof.
  unfold parse_prefix. intros H Q.
  destruct (cur_t c); unfold ret in H; try discriminate H;
    first [ eapply ident_expr_ok; eassumption | eapply literal_ok; eassumption | eapply unary_ok; eassumption | eapply grouped_ok; eassumption ].
Qed.

Lemma infix_ok fuel left c r t c' :
  parse_infix E pe fuel left c = Some r -> r = Some (Some t, c') -> errs c' = [] -> tree_ok E left -> tree_ok E t.
Proof.
  unfold parse_infix. intros H R Q Hl.
  destruct (is_binary_op (cur_t c)).
  - injection H as <-. eapply binary_ok; eassumption.
  - destruct (cur_t c); try discriminate H.
    + injection H as <-. eapply index_or_slice_ok; eassumption.
    + destruct (ttype (peek c)); injection H as <-; first [eapply type_assertion_ok; eassumption | eapply dot_ok; eassumption].
Qed.

End ExprOK.

Theorem expr_rules E : forall fuel,
  (forall p c t c', parse_expr E fuel p c = Some (Some t, c') -> errs c' = [] -> tree_ok E t) /\
  (forall p l c t c', expr_loop E fuel p l c = Some (Some t, c') -> errs c' = [] -> tree_ok E l -> tree_ok E t).
Proof.
  induction fuel as [|f [IHe IHl]]; [split; intros; discriminate|].
  pose proof (proj1 (expr_ne E f)) as NEe. pose proof (proj2 (expr_ne E f)) as NEl.
  split.
  - intros p c t c' H Q. rewrite parse_expr_unfold in H.
    destruct (parse_prefix E (parse_expr E f) f c) as [[l c1]|] eqn:P; [|discriminate H].
    destruct l as [lf|]; [|discriminate H].
    pose proof (NEl _ _ _ _ _ H Q) as Q1.
    eapply IHl; [exact H|exact Q|]. eapply (prefix_ok E (parse_expr E f) NEe IHe); eassumption.
  - intros p l c t c' H Q Hl. rewrite expr_loop_unfold in H. unfold ret in H.
    destruct (is_at_expr_end c); [injection H as ? ?; subst; exact Hl|].
    destruct (loop_continues p (precedences (cur_t c))); [|injection H as ? ?; subst; exact Hl].
    destruct (parse_infix E (parse_expr E f) f l c) as [r|] eqn:PI; [|injection H as ? ?; subst; exact Hl].
    destruct r as [[l1 c1]|] eqn:R; [|discriminate H].
    destruct l1 as [lf|]; [|discriminate H].
    pose proof (NEl _ _ _ _ _ H Q) as Q1.
    eapply IHl; [exact H|exact Q|].
    eapply (infix_ok E (parse_expr E f) NEe IHe); [exact PI|reflexivity|exact Q1|exact Hl].
Qed.
