(* Compile.v — model of pkg/bytecode/compiler.go: Compile and the compile*
   methods, emit/emitPos/addConstant/addInstruction, enterScope/leaveScope,
   emitSetVar, Bytecode().  It produces the exact byte list and constant list
   of the Go compiler (checked byte for byte by the C16 harness) — including
   its defects: nodes without a case in Compile's switch emit NOTHING and
   return no error, and operands are truncated to 16 bits by Make.
   [strict = true] is the corrected compiler (an error for every node
   without a translation).  No proofs here (CompileProofs.v). *)
From Coq Require Import ZArith NArith List Bool String Floats.
From EvyV Require Import Base Bytecode SymTab Vm.
Require Import EvyV.Gen.Opcodes.
Import ListNotations.
Open Scope string_scope.
Open Scope Z_scope.

(* ---------- the AST as far as compiler.go looks at it ---------- *)
(* what the compiler inspects of a node's Type(): NUM_TYPE / STRING_TYPE
   (pointer equality) and Type().Name == ARRAY / MAP *)
Inductive ety := TNum | TStr | TArr | TMap | TOther.
Inductive binop := BPlus | BMinus | BStar | BSlash | BPercent | BLt | BLe | BGt | BGe | BEq | BNe
                 | BAnd | BOr | BOtherOp.
Inductive unop := UMinus | UBang | UOtherOp.

Inductive expr :=
| ENum (f : float) | EBool (b : bool) | EStr (s : str) | EVar (n : str)
| EArr (l : elist)
| EMap (kvs : eplist) (npairs : Z)          (* Order with the values; len(Pairs) *)
| EUn (op : unop) (e : expr)
| EBin (op : binop) (lt rt : ety) (l r : expr)
| EIndex (l i : expr)
| ESlice (l : expr) (a b : oexpr)
| EGroup (e : expr)
| EUnsupported (what : str)                 (* FuncCall, DotExpression, TypeAssertion, Any, … *)
with elist := ENil | ECons (e : expr) (t : elist)
with eplist := PNil | PCons (k : str) (e : expr) (t : eplist)
with oexpr := ONoneE | OSome (e : expr).

Inductive stmt :=
| SDecl (n : str) (e : expr)                (* InferredDeclStmt *)
| SAssign (target : expr) (e : expr)
| SIf (c : expr) (b : slist) (elifs : clist) (els : oslist)
| SWhile (c : expr) (b : slist)
| SForStep (lv : option str) (start : oexpr) (stop : expr) (step : oexpr) (b : slist)
| SForIter (lv : option str) (t : ety) (e : expr) (b : slist)
| SBreak
| SEmpty                                    (* EmptyStmt: nothing to translate *)
| SBlock (b : slist)
| SUnsupported (what : str)                 (* FuncCallStmt, TypedDeclStmt, FuncDefStmt, ReturnStmt, … *)
with slist := SNil | SCons (s : stmt) (t : slist)
with clist := CNil | CCons (c : expr) (b : slist) (t : clist)
with oslist := NoElse | Else (b : slist).

(* ---------- compiler state ---------- *)
Inductive cconst := KNum (f : float) | KStr (s : str).

Record cstate := {
  ccode : list N;          (* c.instructions *)
  cconsts : list cconst;   (* c.constants *)
  csym : symtab;           (* c.symbolTable *)
  cbreaks : list Z         (* c.breaks *)
}.

Inductive cerr := ErrUndefinedVar | ErrUnknownOperator | ErrUnsupportedExpression | ErrRangeType
                | ErrOperandRange | ErrUnsupportedNode.
Inductive cres := COk (st : cstate) | CErr (e : cerr).

Definition bind (r : cres) (f : cstate -> cres) : cres :=
  match r with COk st => f st | CErr e => CErr e end.
Notation "r >>= f" := (bind r f) (at level 50, left associativity).

(* NewCompiler *)
Definition cinit : cstate := {| ccode := []; cconsts := []; csym := new_symtab; cbreaks := [] |}.

Definition pos_of (st : cstate) : Z := Z.of_nat (List.length (ccode st)).

(* emit / emitPos / addInstruction.  [strict = true] is the tree at HEAD
   (Make fails with ErrOperandRange on an operand beyond 16 bits; lookups of
   the compiler's own opcodes never fail), [strict = false] the tree before
   the fixes e02ff38/e351c68 (silent truncation). *)
Definition emit (strict : bool) (o : opc) (operands : list Z) (st : cstate) : cres :=
  match (if strict then make else make_before_fix) (N_of_opc o) operands with
  | Some ins => COk {| ccode := ccode st ++ ins; cconsts := cconsts st; csym := csym st; cbreaks := cbreaks st |}
  | None => CErr ErrOperandRange
  end.

(* addConstant followed by emit(OpConstant, index) *)
Definition emit_const (strict : bool) (k : cconst) (st : cstate) : cres :=
  let idx := Z.of_nat (List.length (cconsts st)) in
  emit strict Constant [idx] {| ccode := ccode st; cconsts := cconsts st ++ [k]; csym := csym st; cbreaks := cbreaks st |}.

Definition with_sym (s : symtab) (st : cstate) : cstate :=
  {| ccode := ccode st; cconsts := cconsts st; csym := s; cbreaks := cbreaks st |}.
Definition with_breaks (b : list Z) (st : cstate) : cstate :=
  {| ccode := ccode st; cconsts := cconsts st; csym := csym st; cbreaks := b |}.
(* Instructions.changeOperand (an error at HEAD when the target does not fit) *)
Definition patch (strict : bool) (pos target : Z) (st : cstate) : cres :=
  match (if strict then change_operand (Z.to_N pos) target (ccode st)
         else Some (change_operand_before_fix (Z.to_N pos) target (ccode st))) with
  | Some code => COk {| ccode := code; cconsts := cconsts st; csym := csym st; cbreaks := cbreaks st |}
  | None => CErr ErrOperandRange
  end.

(* emitSetVar *)
Definition emit_set_var (strict : bool) (y : symbol) (st : cstate) : cres :=
  match sscp y with
  | GlobalScope => emit strict SetGlobal [Z.of_N (sidx y)] st
  | LocalScope => emit strict SetLocal [Z.of_N (sidx y)] st
  end.

(* compileVar *)
Definition compile_var (strict : bool) (n : str) (st : cstate) : cres :=
  match st_resolve n (csym st) with
  | None => CErr ErrUndefinedVar
  | Some y => match sscp y with
              | GlobalScope => emit strict GetGlobal [Z.of_N (sidx y)] st
              | LocalScope => emit strict GetLocal [Z.of_N (sidx y)] st
              end
  end.

(* compileNumBinaryExpression / compileStringBinaryExpression *)
Definition num_binop (op : binop) : option opc :=
  match op with
  | BPlus => Some Add | BMinus => Some Subtract | BStar => Some Multiply | BSlash => Some Divide
  | BPercent => Some Modulo | BLt => Some NumLT | BLe => Some NumLE | BGt => Some NumGT | BGe => Some NumGE
  | _ => None
  end.
Definition str_binop (op : binop) : option opc :=
  match op with
  | BPlus => Some StrConcat | BLt => Some StrLT | BLe => Some StrLE | BGt => Some StrGT | BGe => Some StrGE
  | _ => None
  end.

(* the tail of compileBinaryExpression, after both operands are compiled *)
Definition compile_binop (strict : bool) (op : binop) (lt rt : ety) (st : cstate) : cres :=
  match op with
  | BEq => emit strict Equal [] st
  | BNe => emit strict NotEqual [] st
  | _ =>
      match lt, rt with
      | TNum, TNum => match num_binop op with Some o => emit strict o [] st | None => CErr ErrUnknownOperator end
      | TStr, TStr => match str_binop op with Some o => emit strict o [] st | None => CErr ErrUnknownOperator end
      | TArr, TArr => match op with BPlus => emit strict ArrConcat [] st | _ => CErr ErrUnsupportedExpression end
      | TArr, TNum => match op with BStar => emit strict ArrRepeat [] st | _ => CErr ErrUnsupportedExpression end
      | _, _ => CErr ErrUnsupportedExpression
      end
  end.

Fixpoint elist_len (l : elist) : Z := match l with ENil => 0 | ECons _ t => 1 + elist_len t end.

(* Compile, expression nodes.  [strict]: error instead of the silent default. *)
Fixpoint compile_expr (strict : bool) (e : expr) (st : cstate) {struct e} : cres :=
  match e with
  | ENum f => emit_const strict (KNum f) st
  | EBool b => emit strict (if b then OTrue else OFalse) [] st
  | EStr s => emit_const strict (KStr s) st
  | EVar n => compile_var strict n st
  | EArr l => compile_elist strict l st >>= emit strict Array [elist_len l]
  | EMap kvs np => compile_pairs strict kvs st >>= emit strict Map [np]
  | EUn op e1 =>
      compile_expr strict e1 st >>= fun st1 =>
      match op with
      | UMinus => emit strict Minus [] st1
      | UBang => emit strict Not [] st1
      | UOtherOp => if strict then CErr ErrUnknownOperator else COk st1
      end
  | EBin op lt rt l r =>
      compile_expr strict l st >>= compile_expr strict r >>= compile_binop strict op lt rt
  | EIndex l i => compile_expr strict l st >>= compile_expr strict i >>= emit strict Index []
  | ESlice l a b =>
      compile_expr strict l st >>= compile_oexpr strict a >>= compile_oexpr strict b >>= emit strict Slice []
  | EGroup e1 => compile_expr strict e1 st
  | EUnsupported _ => if strict then CErr ErrUnsupportedNode else COk st
  end
with compile_elist (strict : bool) (l : elist) (st : cstate) {struct l} : cres :=
  match l with
  | ENil => COk st
  | ECons e t => compile_expr strict e st >>= compile_elist strict t
  end
with compile_pairs (strict : bool) (l : eplist) (st : cstate) {struct l} : cres :=
  match l with
  | PNil => COk st
  | PCons k e t => emit_const strict (KStr k) st >>= compile_expr strict e >>= compile_pairs strict t
  end
with compile_oexpr (strict : bool) (o : oexpr) (st : cstate) {struct o} : cres :=   (* compileOrEmitNone *)
  match o with
  | ONoneE => emit strict ONone [] st
  | OSome e => compile_expr strict e st
  end.

Definition JumpPlaceholderZ : Z := Z.of_N JumpPlaceholder.

Definition patch_all (strict : bool) (l : list Z) (target : Z) (st : cstate) : cres :=
  fold_left (fun r p => r >>= patch strict p target) l (COk st).

(* the loop-variable prologue of compileForStatement *)
Definition for_declare (strict : bool) (lv : option str) (st : cstate) : cres :=
  match lv with
  | None => COk st
  | Some n =>
      let (s', y) := st_define n (csym st) in
      emit strict ONone [] (with_sym s' st) >>= emit_set_var strict y
  end.
Definition for_assign (strict : bool) (lv : option str) (st : cstate) : cres :=
  match lv with
  | None => COk st
  | Some n => match st_resolve n (csym st) with
              | None => CErr ErrUndefinedVar
              | Some y => emit_set_var strict y st
              end
  end.

(* Compile, statement nodes *)
Fixpoint compile_stmt (strict : bool) (s : stmt) (st : cstate) {struct s} : cres :=
  match s with
  | SDecl n e =>                                            (* compileDecl *)
      compile_expr strict e st >>= fun st1 =>
      let (s', y) := st_define n (csym st1) in emit_set_var strict y (with_sym s' st1)
  | SAssign target e =>                                     (* compileAssignment *)
      compile_expr strict e st >>= fun st1 =>
      match target with
      | EVar n => match st_resolve n (csym st1) with
                  | None => CErr ErrUndefinedVar
                  | Some y => emit_set_var strict y st1
                  end
      | EIndex l i => compile_expr strict l st1 >>= compile_expr strict i >>= emit strict SetIndex []
      | _ => if strict then CErr ErrUnsupportedNode else compile_expr strict target st1
      end
  | SIf c b elifs els =>                                    (* compileIfStatement *)
      compile_cond strict c b st >>= fun st1 =>
      (* position of the OpJump compileConditionalBlock just emitted *)
      let (r, jumps) := compile_elifs strict elifs [pos_of st1 - 3] st1 in
      r >>= fun st2 =>
      (match els with NoElse => COk st2 | Else eb => compile_block strict eb st2 end) >>= fun st3 =>
      patch_all strict jumps (pos_of st3) st3
  | SWhile c b =>                                           (* compileWhileStatement *)
      let start := pos_of st in
      compile_expr strict c st >>= fun st1 =>
      let jof := pos_of st1 in
      emit strict JumpOnFalse [JumpPlaceholderZ] st1 >>= fun st2 =>
      let outer := cbreaks st2 in
      compile_block strict b (with_breaks [] st2) >>= emit strict Jump [start] >>= fun st3 =>
      let after := pos_of st3 in
      patch strict jof after st3 >>= patch_all strict (cbreaks st3) after >>= fun st4 =>
      COk (with_breaks outer st4)
  | SForStep lv start stop step b =>                        (* compileForStatement, NUM *)
      compile_expr strict stop st >>=
      compile_expr strict (match step with OSome e => e | ONoneE => ENum 1 end) >>=
      compile_expr strict (match start with OSome e => e | ONoneE => ENum 0 end) >>=
      for_loop strict lv StepRange 3 b
  | SForIter lv t e b =>                                    (* compileForStatement, STRING/ARRAY/MAP *)
      match t with
      | TStr | TArr | TMap =>
          compile_expr strict e st >>= emit_const strict (KNum 0) >>= for_loop strict lv IterRange 2 b
      | _ => CErr ErrRangeType
      end
  | SBreak =>                                               (* compileBreakStatement *)
      let pos := pos_of st in
      emit strict Jump [JumpPlaceholderZ] st >>= fun st1 => COk (with_breaks (cbreaks st1 ++ [pos]) st1)
  | SEmpty => COk st
  | SBlock b => compile_block strict b st
  | SUnsupported _ => if strict then CErr ErrUnsupportedNode else COk st
  end
with compile_slist (strict : bool) (l : slist) (st : cstate) {struct l} : cres :=
  match l with
  | SNil => COk st
  | SCons s t => compile_stmt strict s st >>= compile_slist strict t
  end
(* compileBlockStatement: enterScope; statements; leaveScope *)
with compile_block (strict : bool) (l : slist) (st : cstate) {struct l} : cres :=
  (match l with
   | SNil => COk (with_sym (st_push (csym st)) st)
   | SCons s t => compile_stmt strict s (with_sym (st_push (csym st)) st) >>= compile_slist strict t
   end) >>= fun st1 => COk (with_sym (st_pop (csym st1)) st1)
(* compileConditionalBlock: leaves the OpJump as the last instruction *)
with compile_cond (strict : bool) (c : expr) (b : slist) (st : cstate) {struct b} : cres :=
  compile_expr strict c st >>= fun st1 =>
  let jof := pos_of st1 in
  emit strict JumpOnFalse [JumpPlaceholderZ] st1 >>= fun st2 =>
  (match b with
   | SNil => COk (with_sym (st_push (csym st2)) st2)
   | SCons s t => compile_stmt strict s (with_sym (st_push (csym st2)) st2) >>= compile_slist strict t
   end) >>= fun st3 =>
  emit strict Jump [JumpPlaceholderZ] (with_sym (st_pop (csym st3)) st3) >>= fun st4 =>
  patch strict jof (pos_of st4) st4
(* the else-if blocks of compileIfStatement; returns the jump positions *)
with compile_elifs (strict : bool) (l : clist) (jumps : list Z) (st : cstate) {struct l} : cres * list Z :=
  match l with
  | CNil => (COk st, jumps)
  | CCons c b t =>
      match compile_cond strict c b st with
      | COk st1 => compile_elifs strict t (jumps ++ [pos_of st1 - 3]) st1
      | CErr e => (CErr e, jumps)
      end
  end
with for_loop (strict : bool) (lv : option str) (rop : opc) (state_size : Z) (b : slist) (st : cstate)
  {struct b} : cres :=
  for_declare strict lv st >>= fun st1 =>
  let top := pos_of st1 in
  emit strict rop [match lv with Some _ => 1 | None => 0 end] st1 >>= fun st2 =>
  let jof := pos_of st2 in
  emit strict JumpOnFalse [JumpPlaceholderZ] st2 >>= for_assign strict lv >>= fun st3 =>
  let outer := cbreaks st3 in
  (match b with
   | SNil => COk (with_sym (st_push (csym st3)) (with_breaks [] st3))
   | SCons s t => compile_stmt strict s (with_sym (st_push (csym st3)) (with_breaks [] st3)) >>= compile_slist strict t
   end) >>= fun st4 =>
  emit strict Jump [top] (with_sym (st_pop (csym st4)) st4) >>= fun st5 =>
  let end_ := pos_of st5 in
  emit strict Drop [state_size] st5 >>= fun st6 =>
  patch strict jof end_ st6 >>= patch_all strict (cbreaks st6) end_ >>= fun st7 =>
  COk (with_breaks outer st7).

(* compileProgram + Bytecode() *)
Record cbytecode := { out_code : list N; out_consts : list cconst; out_gcount : N; out_lcount : N }.

Definition compile_program (strict : bool) (p : slist) : cres := compile_slist strict p cinit.

Definition bytecode_of (st : cstate) : cbytecode :=
  {| out_code := ccode st; out_consts := cconsts st;
     out_gcount := st_global_count (csym st); out_lcount := st_local_count (csym st) |}.

(* the model in force mirrors /repo at HEAD (after e02ff38 and e351c68) *)
Definition compile := compile_program true.
(* the compiler as it was before those two fixes: silent default case, 16-bit truncation *)
Definition compile_before_fix := compile_program false.

(* ---------- the supported subset ---------- *)
Fixpoint supported_expr (e : expr) : bool :=
  match e with
  | ENum _ | EBool _ | EStr _ | EVar _ => true
  | EArr l => supported_elist l
  | EMap kvs _ => supported_pairs kvs
  | EUn op e1 => match op with UOtherOp => false | _ => supported_expr e1 end
  | EBin _ _ _ l r => supported_expr l && supported_expr r
  | EIndex l i => supported_expr l && supported_expr i
  | ESlice l a b => supported_expr l && supported_oexpr a && supported_oexpr b
  | EGroup e1 => supported_expr e1
  | EUnsupported _ => false
  end
with supported_elist (l : elist) : bool :=
  match l with ENil => true | ECons e t => supported_expr e && supported_elist t end
with supported_pairs (l : eplist) : bool :=
  match l with PNil => true | PCons _ e t => supported_expr e && supported_pairs t end
with supported_oexpr (o : oexpr) : bool :=
  match o with ONoneE => true | OSome e => supported_expr e end.

Fixpoint supported_stmt (s : stmt) : bool :=
  match s with
  | SDecl _ e => supported_expr e
  | SAssign target e => supported_expr e && supported_expr target
  | SIf c b elifs els => supported_expr c && supported_slist b && supported_clist elifs &&
                         match els with NoElse => true | Else eb => supported_slist eb end
  | SWhile c b => supported_expr c && supported_slist b
  | SForStep _ start stop step b =>
      supported_oexpr start && supported_expr stop && supported_oexpr step && supported_slist b
  | SForIter _ _ e b => supported_expr e && supported_slist b
  | SBreak | SEmpty => true
  | SBlock b => supported_slist b
  | SUnsupported _ => false
  end
with supported_slist (l : slist) : bool :=
  match l with SNil => true | SCons s t => supported_stmt s && supported_slist t end
with supported_clist (l : clist) : bool :=
  match l with CNil => true | CCons c b t => supported_expr c && supported_slist b && supported_clist t end.

(* ---------- wire format (the AST exported by the Go harness) ---------- *)
Definition dec_ety (x : sx) : ety :=
  if sym_is x "num" then TNum else if sym_is x "string" then TStr else if sym_is x "array" then TArr
  else if sym_is x "map" then TMap else TOther.

Definition dec_binop (x : sx) : binop :=
  match x with
  | Str s =>
      if str_eqb s (s_ "+") then BPlus else if str_eqb s (s_ "-") then BMinus else if str_eqb s (s_ "*") then BStar
      else if str_eqb s (s_ "/") then BSlash else if str_eqb s (s_ "%") then BPercent
      else if str_eqb s (s_ "<") then BLt else if str_eqb s (s_ "<=") then BLe
      else if str_eqb s (s_ ">") then BGt else if str_eqb s (s_ ">=") then BGe
      else if str_eqb s (s_ "==") then BEq else if str_eqb s (s_ "!=") then BNe
      else if str_eqb s (s_ "and") then BAnd else if str_eqb s (s_ "or") then BOr else BOtherOp
  | _ => BOtherOp
  end.

Fixpoint dec_expr (fuel : nat) (x : sx) {struct fuel} : option expr :=
  match fuel with
  | O => None
  | S f =>
      let dec_o (y : sx) : option oexpr :=
        if sym_is y "none" then Some ONoneE else option_map OSome (dec_expr f y) in
      match x with
      | Lst [Sym t; Int b] => if str_eqb t (s_ "num") then Some (ENum (float_of_bits b))
                              else if str_eqb t (s_ "map") then Some (EMap PNil b) else None
      | Lst [Sym t; Sym b] => if str_eqb t (s_ "bool") then Some (EBool (str_eqb b (s_ "true"))) else None
      | Lst [Sym t; Str s] =>
          if str_eqb t (s_ "str") then Some (EStr s)
          else if str_eqb t (s_ "var") then Some (EVar s)
          else if str_eqb t (s_ "unsupported") then Some (EUnsupported s) else None
      | Lst (Sym t :: rest) =>
          if str_eqb t (s_ "arr") then
            option_map EArr ((fix go (l : list sx) : option elist :=
                                match l with
                                | [] => Some ENil
                                | y :: r => match dec_expr f y, go r with
                                            | Some e, Some tl => Some (ECons e tl)
                                            | _, _ => None
                                            end
                                end) rest)
          else if str_eqb t (s_ "map") then
            match rest with
            | Int np :: kvs =>
                option_map (fun l => EMap l np)
                  ((fix go (l : list sx) : option eplist :=
                      match l with
                      | [] => Some PNil
                      | Lst [Str k; y] :: r => match dec_expr f y, go r with
                                               | Some e, Some tl => Some (PCons k e tl)
                                               | _, _ => None
                                               end
                      | _ => None
                      end) kvs)
            | _ => None
            end
          else if str_eqb t (s_ "un") then
            match rest with
            | [o; y] => option_map (EUn (if sym_is o "minus" then UMinus else if sym_is o "bang" then UBang else UOtherOp))
                                   (dec_expr f y)
            | _ => None
            end
          else if str_eqb t (s_ "bin") then
            match rest with
            | [o; lt; rt; l; r] =>
                match dec_expr f l, dec_expr f r with
                | Some el, Some er => Some (EBin (dec_binop o) (dec_ety lt) (dec_ety rt) el er)
                | _, _ => None
                end
            | _ => None
            end
          else if str_eqb t (s_ "index") then
            match rest with
            | [l; i] => match dec_expr f l, dec_expr f i with
                        | Some el, Some ei => Some (EIndex el ei)
                        | _, _ => None
                        end
            | _ => None
            end
          else if str_eqb t (s_ "slice") then
            match rest with
            | [l; a; b] => match dec_expr f l, dec_o a, dec_o b with
                           | Some el, Some oa, Some ob => Some (ESlice el oa ob)
                           | _, _, _ => None
                           end
            | _ => None
            end
          else if str_eqb t (s_ "group") then
            match rest with [y] => option_map EGroup (dec_expr f y) | _ => None end
          else None
      | _ => None
      end
  end.

Definition dec_oexpr (fuel : nat) (y : sx) : option oexpr :=
  if sym_is y "none" then Some ONoneE else option_map OSome (dec_expr fuel y).
Definition dec_lv (y : sx) : option str := match y with Str s => Some s | _ => None end.

Fixpoint dec_stmt (fuel : nat) (x : sx) {struct fuel} : option stmt :=
  match fuel with
  | O => None
  | S f =>
      let dec_block (l : list sx) : option slist :=
        (fix go (l : list sx) : option slist :=
           match l with
           | [] => Some SNil
           | y :: r => match dec_stmt f y, go r with
                       | Some s, Some tl => Some (SCons s tl)
                       | _, _ => None
                       end
           end) l in
      match x with
      | Lst (Sym t :: rest) =>
          if str_eqb t (s_ "break") then Some SBreak
          else if str_eqb t (s_ "empty") then Some SEmpty
          else if str_eqb t (s_ "unsupported") then
            match rest with [Str s] => Some (SUnsupported s) | _ => None end
          else if str_eqb t (s_ "decl") then
            match rest with [Str n; e] => option_map (SDecl n) (dec_expr f e) | _ => None end
          else if str_eqb t (s_ "while") then
            match rest with
            | [a; Lst b] => match dec_expr f a, dec_block b with
                            | Some c, Some bl => Some (SWhile c bl)
                            | _, _ => None
                            end
            | _ => None
            end
          else if str_eqb t (s_ "assign") then
            match rest with
            | [a; b] => match dec_expr f a, dec_expr f b with
                        | Some ta, Some e => Some (SAssign ta e)
                        | _, _ => None
                        end
            | _ => None
            end
          else if str_eqb t (s_ "if") then
            match rest with
            | [Lst [c; Lst b]; Lst elifs; els] =>
                match dec_expr f c, dec_block b,
                      (fix go (l : list sx) : option clist :=
                         match l with
                         | [] => Some CNil
                         | Lst [c'; Lst b'] :: r =>
                             match dec_expr f c', dec_block b', go r with
                             | Some ec, Some bl, Some tl => Some (CCons ec bl tl)
                             | _, _, _ => None
                             end
                         | _ => None
                         end) elifs,
                      match els with
                      | Lst (Sym e :: eb) => if str_eqb e (s_ "else") then option_map Else (dec_block eb) else None
                      | _ => Some NoElse
                      end with
                | Some ec, Some bl, Some cl, Some oe => Some (SIf ec bl cl oe)
                | _, _, _, _ => None
                end
            | _ => None
            end
          else if str_eqb t (s_ "foriter") then
            match rest with
            | [lv; ty; e; Lst b] =>
                match dec_expr f e, dec_block b with
                | Some ee, Some bl => Some (SForIter (dec_lv lv) (dec_ety ty) ee bl)
                | _, _ => None
                end
            | _ => None
            end
          else if str_eqb t (s_ "forstep") then
            match rest with
            | [lv; a; b; c; Lst bl] =>
                match dec_oexpr f a, dec_expr f b, dec_oexpr f c, dec_block bl with
                | Some oa, Some eb, Some oc, Some bl' => Some (SForStep (dec_lv lv) oa eb oc bl')
                | _, _, _, _ => None
                end
            | _ => None
            end
          else if str_eqb t (s_ "block") then option_map SBlock (dec_block rest)
          else None
      | _ => None
      end
  end.

Fixpoint dec_program (fuel : nat) (l : list sx) : option slist :=
  match l with
  | [] => Some SNil
  | y :: r => match dec_stmt fuel y, dec_program fuel r with
              | Some s, Some tl => Some (SCons s tl)
              | _, _ => None
              end
  end.

Definition enc_const (k : cconst) : sx :=
  match k with
  | KNum f => Lst [Sym (s_ "num"); sx_float f]
  | KStr s => Lst [Sym (s_ "str"); Str s]
  end.

Definition enc_cerr (e : cerr) : sx :=
  Sym (s_ match e with
          | ErrUndefinedVar => "undefined-var" | ErrUnknownOperator => "unknown-operator"
          | ErrUnsupportedExpression => "unsupported-expression" | ErrRangeType => "range-type"
          | ErrOperandRange => "operand-range" | ErrUnsupportedNode => "unsupported-node"
          end).

(* (compile strict? (stmt…)) ↦ (ok (byte…) (const…) gcount lcount supported?) | (err kind supported?) *)
Definition compile_case (x : sx) : sx :=
  match x with
  | Lst [Sym t; Sym strict; Lst stmts] =>
      if str_eqb t (s_ "compile") then
        match dec_program 400 stmts with
        | None => Sym (s_ "decode-error")
        | Some p =>
            let sup := sx_bool (supported_slist p) in
            match compile_program (str_eqb strict (s_ "true")) p with
            | COk st =>
                let bc := bytecode_of st in
                Lst [Sym (s_ "ok"); Lst (map (fun b => Int (Z.of_N b)) (out_code bc));
                     Lst (map enc_const (out_consts bc));
                     Int (Z.of_N (out_gcount bc)); Int (Z.of_N (out_lcount bc)); sup]
            | CErr e => Lst [Sym (s_ "err"); enc_cerr e; sup]
            end
        end
      else Sym (s_ "decode-error")
  | _ => Sym (s_ "decode-error")
  end.

(* ---------- from compiler output to a VM program ---------- *)
(* (utf8_encode: Vm.v) *)
Definition const_value (k : cconst) : value :=
  match k with KNum f => VNum f | KStr s => VStr (utf8_encode s) end.

Definition program_of (bc : cbytecode) : program :=
  {| pcode := out_code bc; pconsts := map const_value (out_consts bc);
     pgcount := out_gcount bc; plcount := out_lcount bc |}.

(* ---------- a direct big-step semantics of the expression fragment ---------- *)
(* literals, global variables, unary and binary operators on numbers, strings
   and booleans; numbers are IEEE binary64 (Coq primitive floats).  [None]:
   outside the fragment, a dynamic type that contradicts the static
   annotation, or a division/modulo by zero (an error on the VM). *)
Definition genv := str -> option value.

Definition eval_binop (op : binop) (lt rt : ety) (a b : value) : option value :=
  match op with
  | BEq | BNe =>
      (* value.Equals: numbers, booleans, strings; arrays and maps structurally; a
         dynamic type mismatch is undefined *)
      let r := val_equals a b in
      match r, op with
      | Some t, BEq => Some (VBool t)
      | Some t, _ => Some (VBool (negb t))
      | None, _ => None
      end
  | _ =>
      match lt, rt, a, b with
      | TNum, TNum, VNum x, VNum y =>
          match op with
          | BPlus => Some (VNum (x + y)) | BMinus => Some (VNum (x - y)) | BStar => Some (VNum (x * y))
          | BSlash => if PrimFloat.eqb y 0 then None else Some (VNum (x / y))
          | BPercent => if PrimFloat.eqb y 0 then None else Some (VNum (float_mod x y))
          | BLt => Some (VBool (PrimFloat.ltb x y)) | BLe => Some (VBool (PrimFloat.leb x y))
          | BGt => Some (VBool (PrimFloat.ltb y x)) | BGe => Some (VBool (PrimFloat.leb y x))
          | _ => None
          end
      | TStr, TStr, VStr x, VStr y =>
          match op with
          | BPlus => Some (VStr (x ++ y))
          | BLt => Some (VBool (str_ltb x y)) | BLe => Some (VBool (negb (str_ltb y x)))
          | BGt => Some (VBool (str_ltb y x)) | BGe => Some (VBool (negb (str_ltb x y)))
          | _ => None
          end
      | TArr, TArr, VArr x, VArr y =>               (* concatenation *)
          match op with BPlus => Some (VArr (x ++ y)) | _ => None end
      | TArr, TNum, VArr x, VNum y =>               (* repetition; a bad count is an error: undefined *)
          match op with
          | BStar => match arr_repeat repeat_guarded y x with POk v => Some v | _ => None end
          | _ => None
          end
      | _, _, _, _ => None
      end
  end.

Fixpoint eval_expr (env : genv) (e : expr) : option value :=
  match e with
  | ENum f => Some (VNum f)
  | EBool b => Some (VBool b)
  | EStr s => Some (VStr (utf8_encode s))
  | EVar n => env n
  | EGroup e1 => eval_expr env e1
  | EUn UMinus e1 => match eval_expr env e1 with Some (VNum f) => Some (VNum (- f)) | _ => None end
  | EUn UBang e1 => match eval_expr env e1 with Some (VBool b) => Some (VBool (negb b)) | _ => None end
  | EBin op lt rt l r =>
      match eval_expr env l, eval_expr env r with
      | Some a, Some b => eval_binop op lt rt a b
      | _, _ => None
      end
  | EIndex l i =>                               (* a[i] on strings (by code point) and arrays; errors are undefined *)
      match eval_expr env l, eval_expr env i with
      | Some a, Some b => match index_value a b with POk v => Some v | _ => None end
      | _, _ => None
      end
  | EArr l => option_map VArr (eval_list env l)  (* [e1 e2 …] *)
  | EMap kvs _ => option_map VMap (eval_pairs env kvs)  (* {k1:e1 k2:e2 …}: the pairs in source order *)
  | ESlice l a b =>                             (* l[a:b] on strings (by code point) and arrays; errors are undefined *)
      match eval_expr env l, eval_oexpr env a, eval_oexpr env b with
      | Some x, Some va, Some vb => match slice_value x va vb with POk v => Some v | _ => None end
      | _, _, _ => None
      end
  | _ => None
  end
with eval_list (env : genv) (l : elist) : option (list value) :=
  match l with
  | ENil => Some []
  | ECons e t => match eval_expr env e, eval_list env t with
                 | Some v, Some vs => Some (v :: vs)
                 | _, _ => None
                 end
  end
with eval_pairs (env : genv) (l : eplist) : option (list (list N * value)) :=
  match l with
  | PNil => Some []
  | PCons k e t => match eval_expr env e, eval_pairs env t with
                   | Some v, Some m => Some ((utf8_encode k, v) :: m)
                   | _, _ => None
                   end
  end
with eval_oexpr (env : genv) (o : oexpr) : option value :=   (* a missing slice bound is none *)
  match o with
  | ONoneE => Some VNone
  | OSome e => eval_expr env e
  end.

(* the most stack slots the code of e needs above its starting height *)
Fixpoint edepth (e : expr) : N :=
  match e with
  | EGroup e1 | EUn _ e1 => edepth e1
  | EBin _ _ _ l r | EIndex l r => N.max (edepth l) (1 + edepth r)
  | EArr l => N.max 1 (edepth_list l)
  | EMap kvs _ => N.max 1 (edepth_pairs kvs)
  | ESlice l a b => N.max (edepth l) (N.max (1 + edepth_o a) (2 + edepth_o b))
  | _ => 1
  end
with edepth_list (l : elist) : N :=
  match l with
  | ENil => 0
  | ECons e t => N.max (edepth e) (1 + edepth_list t)
  end
with edepth_pairs (l : eplist) : N :=
  match l with
  | PNil => 0
  | PCons _ e t => N.max (1 + edepth e) (2 + edepth_pairs t)   (* the key, then the value above it *)
  end
with edepth_o (o : oexpr) : N :=
  match o with ONoneE => 1 | OSome e => edepth e end.

(* n loop iterations of Run *)
Fixpoint vm_steps (n : nat) (p : program) (s : vmstate) : outcome :=
  match n with
  | O => Running s
  | S k => match vm_step p s with Running s' => vm_steps k p s' | o => o end
  end.

(* ---------- compile and run on the VM model (correspondence with the real VM) ---------- *)
Fixpoint enc_value (fuel : nat) (v : value) : sx :=
  match fuel with
  | O => Sym (s_ "deep")
  | S f =>
      match v with
      | VNum x => Lst [Sym (s_ "num"); sx_float x]
      | VBool b => Lst [Sym (s_ "bool"); sx_bool b]
      | VStr s => Lst (Sym (s_ "str") :: map (fun b => Int (Z.of_N b)) s)
      | VArr l => Lst (Sym (s_ "arr") :: map (enc_value f) l)
      | VMap m => Lst (Sym (s_ "map") :: map (fun kv => Lst [Lst (map (fun b => Int (Z.of_N b)) (fst kv)); enc_value f (snd kv)]) m)
      | VNone => Sym (s_ "none")
      | VNil => Sym (s_ "nil")
      end
  end.

Definition enc_perr (e : perr) : sx :=
  Sym (s_ match e with
          | EStackOverflow => "StackOverflow" | EDivZero => "DivideByZero" | EBadRepetition => "BadRepetition"
          | EBounds => "Bounds" | EIndexValue => "IndexValue" | EMapKey => "MapKey" | Vm.ESlice => "Slice"
          | ERangeValue => "RangeValue"
          end).

(* fuel in two levels, so that no huge unary number is ever built *)
Fixpoint vm_run_k (fuel : nat) (p : program) (s : vmstate) : vmstate + final :=
  match fuel with
  | O => inl s
  | S f =>
      match vm_step p s with
      | Running s' => vm_run_k f p s'
      | Halted s' => inr (FHalted s')
      | Failed e => inr (FFailed e)
      | Crashed c => inr (FCrashed c)
      end
  end.
Fixpoint vm_run_chunks (chunks chunk : nat) (p : program) (s : vmstate) : final :=
  match chunks with
  | O => FOutOfFuel
  | S c => match vm_run_k chunk p s with
           | inl s' => vm_run_chunks c chunk p s'
           | inr f => f
           end
  end.

(* (run (stmt…)) ↦ (halted sp (global…)) | (failed kind) | (crashed) | (outoffuel) | (compile-error) *)
Definition run_case (x : sx) : sx :=
  match x with
  | Lst [Sym t; Lst stmts] =>
      if str_eqb t (s_ "run") then
        match dec_program 400 stmts with
        | None => Sym (s_ "decode-error")
        | Some p =>
            match compile p with
            | CErr _ => Lst [Sym (s_ "compile-error")]
            | COk st =>
                let prog := program_of (bytecode_of st) in
                match vm_run_chunks 2000 2000 prog (vm_init prog) with
                | FHalted s => Lst [Sym (s_ "halted"); Int (Z.of_N (sp_of s)); Lst (map (enc_value 50) (globals s))]
                | FFailed e => Lst [Sym (s_ "failed"); enc_perr e]
                | FCrashed _ => Lst [Sym (s_ "crashed")]
                | FOutOfFuel => Lst [Sym (s_ "outoffuel")]
                end
            end
        end
      else Sym (s_ "decode-error")
  | _ => Sym (s_ "decode-error")
  end.
