(* Sem.v — executable model of the tree-walking evaluator
   (pkg/evaluator/evaluator.go, value.go, scope.go, ranger.go, testinfo.go and
   the non-graphics part of builtin.go), at the level of the implementation's
   decisions: every Go value is a heap cell, variables hold cell addresses,
   evalVar returns the cell, copyOrRef allocates for basic values and shares
   arrays/maps, assignment rebinds without copying, globalErr mutates the
   err/errmsg cells in place, one yield per call of Evaluator.eval, the stop
   flag is tested before the yield.  No proofs here. *)
From Coq Require Import ZArith NArith List String Bool Floats FMapPositive.
From EvyV Require Import Base Num Ast Omap.
From EvyV Require Builtins.   (* the built-in functions on plain values (Props/C13.v); not imported: qualified names only *)
Import ListNotations.
Open Scope Z_scope.

(* ---------- heap ---------- *)
Definition loc := positive.

Inductive hval :=
| HNum (f : float)
| HStr (s : str)
| HBool (b : bool)
| HAny (t : ty) (v : loc)
| HArr (els : list loc)
| HMap (m : omap loc)
| HNone.

(* cells are never freed; [hnext] is the next unused address *)
Record heap := { hnext : positive; hcells : PositiveMap.t hval }.

Definition hget (h : heap) (l : loc) : option hval := PositiveMap.find l (hcells h).
Definition halloc (h : heap) (v : hval) : loc * heap :=
  (hnext h, {| hnext := Pos.succ (hnext h); hcells := PositiveMap.add (hnext h) v (hcells h) |}).
Definition hset (h : heap) (l : loc) (v : hval) : heap :=
  {| hnext := hnext h; hcells := PositiveMap.add l v (hcells h) |}.
Definition hempty : heap := {| hnext := 1%positive; hcells := PositiveMap.empty hval |}.

(* ---------- scopes ---------- *)
Definition frame := list (str * loc).
Definition env := list frame.         (* local frames, innermost first; globals are in the state *)

Fixpoint frame_get (n : str) (f : frame) : option loc :=
  match f with [] => None | (k, l) :: t => if str_eqb k n then Some l else frame_get n t end.

Fixpoint frame_replace (n : str) (l : loc) (f : frame) : frame :=
  match f with
  | [] => []
  | (k, l') :: t => if str_eqb k n then (k, l) :: t else (k, l') :: frame_replace n l t
  end.

(* scope.set in the current frame (map assignment: replaces or adds) *)
Definition frame_set (n : str) (l : loc) (f : frame) : frame :=
  match frame_get n f with Some _ => frame_replace n l f | None => (n, l) :: f end.

Definition underscore : str := Eval compute in s_ "_".

(* ---------- effects, outcomes, state ---------- *)
Inductive piece := PStr (s : str) | PNum (f : float).   (* text with numbers the model cannot render *)

Inductive event :=
| EvPrint (p : list piece)
| EvRead
| EvCls
| EvSleep (nanos : Z)
| EvGfx (name : str) (nums : list float) (strs : list str).

Inductive panic_kind :=
| PkIndexValue | PkBounds | PkRangeValue | PkMapKey | PkSlice | PkBadArguments
| PkBadRepetition | PkAnyConversion | PkVarNotSet | PkUser (msg : str).

Inductive err :=
| EPanic (k : panic_kind)
| EExit (status : Z)
| ETestFail                      (* a failed test with FailFast *)
| EStopped
| EInternal (why : str)          (* an ErrInternal-wrapped error *)
| EHostCrash (why : str)         (* Go panic / nil dereference / unchecked type assertion *)
| EOutOfFuel
| ENeedOracle (why : str)        (* outside the modelled subset (number->text, PRNG, ...) *)
| EUnsupported (why : str).

Record state := {
  st_heap : heap;
  st_globals : frame;
  st_trace : list event;          (* newest first *)
  st_yields : nat;
  st_stop_at : option nat;        (* the platform raises the stop flag during yield number k (0-based) *)
  st_stopped : bool;
  st_input : list str;
  st_total : nat;                 (* TestInfo.total *)
  st_fails : nat;                 (* len(TestInfo.errors) *)
  st_failfast : bool;
  st_check_after_yield : bool;    (* false = the code as it is; true = the corrected order *)
}.

Inductive res (A : Type) := Ok (a : A) | Er (e : err).
Arguments Ok {A}. Arguments Er {A}.

Definition M (A : Type) := state -> res A * state.

Definition ret {A} (a : A) : M A := fun s => (Ok a, s).
Definition fail {A} (e : err) : M A := fun s => (Er e, s).
Definition bindM {A B} (m : M A) (f : A -> M B) : M B :=
  fun s => match m s with
           | (Ok a, s') => f a s'
           | (Er e, s') => (Er e, s')
           end.
Notation "'let*' x := m 'in' k" := (bindM m (fun x => k)) (at level 200, x pattern, m at level 100, k at level 200).

Definition upd_heap (h : heap) (s : state) : state :=
  {| st_heap := h; st_globals := st_globals s; st_trace := st_trace s; st_yields := st_yields s;
     st_stop_at := st_stop_at s; st_stopped := st_stopped s; st_input := st_input s;
     st_total := st_total s; st_fails := st_fails s; st_failfast := st_failfast s;
     st_check_after_yield := st_check_after_yield s |}.
Definition upd_globals (g : frame) (s : state) : state :=
  {| st_heap := st_heap s; st_globals := g; st_trace := st_trace s; st_yields := st_yields s;
     st_stop_at := st_stop_at s; st_stopped := st_stopped s; st_input := st_input s;
     st_total := st_total s; st_fails := st_fails s; st_failfast := st_failfast s;
     st_check_after_yield := st_check_after_yield s |}.
Definition upd_trace (t : list event) (s : state) : state :=
  {| st_heap := st_heap s; st_globals := st_globals s; st_trace := t; st_yields := st_yields s;
     st_stop_at := st_stop_at s; st_stopped := st_stopped s; st_input := st_input s;
     st_total := st_total s; st_fails := st_fails s; st_failfast := st_failfast s;
     st_check_after_yield := st_check_after_yield s |}.
Definition upd_yield (y : nat) (stopped : bool) (s : state) : state :=
  {| st_heap := st_heap s; st_globals := st_globals s; st_trace := st_trace s; st_yields := y;
     st_stop_at := st_stop_at s; st_stopped := stopped; st_input := st_input s;
     st_total := st_total s; st_fails := st_fails s; st_failfast := st_failfast s;
     st_check_after_yield := st_check_after_yield s |}.
Definition upd_input (i : list str) (s : state) : state :=
  {| st_heap := st_heap s; st_globals := st_globals s; st_trace := st_trace s; st_yields := st_yields s;
     st_stop_at := st_stop_at s; st_stopped := st_stopped s; st_input := i;
     st_total := st_total s; st_fails := st_fails s; st_failfast := st_failfast s;
     st_check_after_yield := st_check_after_yield s |}.
Definition upd_tests (total fails : nat) (s : state) : state :=
  {| st_heap := st_heap s; st_globals := st_globals s; st_trace := st_trace s; st_yields := st_yields s;
     st_stop_at := st_stop_at s; st_stopped := st_stopped s; st_input := st_input s;
     st_total := total; st_fails := fails; st_failfast := st_failfast s;
     st_check_after_yield := st_check_after_yield s |}.

Definition emitE (e : event) : M unit := fun s => (Ok tt, upd_trace (e :: st_trace s) s).

Definition alloc (v : hval) : M loc :=
  fun s => let '(l, h) := halloc (st_heap s) v in (Ok l, upd_heap h s).
Definition load (l : loc) : M hval :=
  fun s => match hget (st_heap s) l with
           | Some v => (Ok v, s)
           | None => (Er (EHostCrash (s_ "nil value")), s)
           end.
Definition store (l : loc) (v : hval) : M unit :=
  fun s => (Ok tt, upd_heap (hset (st_heap s) l v) s).

(* Evaluator.eval prologue: `if e.Stopped { return ErrStopped }; e.yield()`.
   During yield number k the platform may raise the stop flag. *)
Definition tick : M unit :=
  fun s =>
    if st_stopped s then (Er EStopped, s)
    else
      let y := st_yields s in
      let raised := match st_stop_at s with Some k => Nat.eqb k y | None => false end in
      let s' := upd_yield (S y) raised s in
      if raised && st_check_after_yield s then (Er EStopped, s') else (Ok tt, s').

(* ---------- scope operations ---------- *)
(* scope.get: inner frames, then globals; "_" is never found *)
Fixpoint env_get (n : str) (e : env) : option loc :=
  match e with
  | [] => None
  | f :: t => match frame_get n f with Some l => Some l | None => env_get n t end
  end.

Definition lookup (n : str) (e : env) : M (option loc) :=
  fun s =>
    if str_eqb n underscore then (Ok None, s)
    else match env_get n e with
         | Some l => (Ok (Some l), s)
         | None => (Ok (frame_get n (st_globals s)), s)
         end.

(* scope.set: top frame, or the global scope when no local frame exists *)
Definition set_var (n : str) (l : loc) (e : env) : M env :=
  fun s =>
    if str_eqb n underscore then (Ok e, s)
    else match e with
         | f :: t => (Ok (frame_set n l f :: t), s)
         | [] => (Ok [], upd_globals (frame_set n l (st_globals s)) s)
         end.

(* scope.update: rebinding in the frame that has the name; when no scope has it (a function assigning a
   global before its declaration ran) evalAssignment reports ErrVarNotSet *)
Fixpoint env_update (n : str) (l : loc) (e : env) : option env :=
  match e with
  | [] => None
  | f :: t => match frame_get n f with
              | Some _ => Some (frame_replace n l f :: t)
              | None => option_map (cons f) (env_update n l t)
              end
  end.

Definition update_var (n : str) (l : loc) (e : env) : M env :=
  fun s =>
    if str_eqb n underscore then (Ok e, s)
    else match env_update n l e with
         | Some e' => (Ok e', s)
         | None => match frame_get n (st_globals s) with
                   | Some _ => (Ok e, upd_globals (frame_replace n l (st_globals s)) s)
                   | None => (Er (EPanic PkVarNotSet), s)   (* scope.update reports false: "variable has not been set yet" *)
                   end
         end.

(* ---------- value helpers ---------- *)
Definition crash {A} (why : string) : M A := fail (EHostCrash (s_ why)).

(* copyOrRef *)
Fixpoint copy_or_ref (fuel : nat) (l : loc) : M loc :=
  match fuel with
  | O => fail EOutOfFuel
  | S f =>
      let* v := load l in
      match v with
      | HNum _ | HStr _ | HBool _ => alloc v
      | HAny t i => let* i' := copy_or_ref f i in alloc (HAny t i')
      | HArr _ | HMap _ => ret l
      | HNone => crash "copyOrRef called with invalid value"
      end
  end.

Section MapM.
  Context {A B : Type} (f : A -> M B).
  Fixpoint mapM (l : list A) : M (list B) :=
    match l with
    | [] => ret []
    | x :: t => let* y := f x in let* r := mapM t in ret (y :: r)
    end.
End MapM.

(* deepCopy; [fuel] bounds the nesting depth (a cyclic value exhausts it: in Go
   that is unbounded recursion, i.e. a host stack overflow) *)
Fixpoint deep_copy (fuel : nat) (l : loc) : M loc :=
  match fuel with
  | O => crash "stack overflow in deepCopy"
  | S f =>
      let* v := load l in
      match v with
      | HNum _ | HStr _ | HBool _ => alloc v
      | HAny t i => let* i' := deep_copy f i in alloc (HAny t i')
      | HArr els => let* els' := mapM (deep_copy f) els in alloc (HArr els')
      | HMap m =>
          (* walks Order and dereferences Pairs[key] *)
          let* ps := mapM (fun k => match plookup k (pairs m) with
                                    | Some i => let* i' := deep_copy f i in ret (k, i')
                                    | None => crash "nil map entry"
                                    end) (order m) in
          alloc (HMap {| pairs := ps; order := order m |})
      | HNone => crash "deepCopy called with invalid value"
      end
  end.

(* bound on the nesting depth of values walked by String/Equals/deepCopy/copyOrRef *)
Definition value_depth : nat := Z.to_nat 4000.
Definition depth_fuel : M nat := fun s => (Ok value_depth, s).

(* strconv.Quote / %q on the subset where it is the identity between quotes:
   printable ASCII without quote and backslash; None = oracle *)
Definition go_quote (s : str) : option str :=
  if forallb (fun c => (32 <=? c)%N && (c <=? 126)%N && negb (N.eqb c 34) && negb (N.eqb c 92)) s
  then Some ([34%N] ++ s ++ [34%N]) else None.

Definition quote_pieces (prefix : string) (s : str) : list piece :=
  match go_quote s with
  | Some q => [PStr (s_ prefix ++ q)]
  | None => [PNum 0%float]            (* forces ENeedOracle when turned into text *)
  end.

(* String(): text of a value.  Numbers that fmt_num cannot render stay as pieces. *)
Fixpoint join_pieces (sep : list piece) (l : list (list piece)) : list piece :=
  match l with
  | [] => []
  | [x] => x
  | x :: t => x ++ sep ++ join_pieces sep t
  end.

Definition num_pieces (f : float) : list piece :=
  match fmt_num f with Some s => [PStr s] | None => [PNum f] end.

Fixpoint show (fuel : nat) (repr : bool) (l : loc) : M (list piece) :=
  match fuel with
  | O => crash "stack overflow in String"
  | S f =>
      let* v := load l in
      match v with
      | HNum x => ret (num_pieces x)
      | HStr s => if repr then match go_quote s with
                               | Some q => ret [PStr q]
                               | None => fail (ENeedOracle (s_ "strconv.Quote")) end
                  else ret [PStr s]
      | HBool b => ret [PStr (s_ (if b then "true" else "false"))]
      | HAny _ i => show f repr i
      | HArr els =>
          let* parts := mapM (show f repr) els in
          ret ([PStr (s_ "[")] ++ join_pieces [PStr (s_ " ")] parts ++ [PStr (s_ "]")])
      | HMap m =>
          let* parts := mapM (fun k => match plookup k (pairs m) with
                                       | Some i => let* p := show f repr i in ret (PStr (k ++ s_ ":") :: p)
                                       | None => crash "nil map entry"
                                       end) (order m) in
          ret ([PStr (s_ "{")] ++ join_pieces [PStr (s_ " ")] parts ++ [PStr (s_ "}")])
      | HNone => ret []
      end
  end.

Fixpoint pieces_str (p : list piece) : option str :=
  match p with
  | [] => Some []
  | PStr s :: t => option_map (app s) (pieces_str t)
  | PNum _ :: _ => None
  end.

Definition show_str (l : loc) : M str :=
  let* d := depth_fuel in
  let* p := show d false l in
  match pieces_str p with
  | Some s => ret s
  | None => fail (ENeedOracle (s_ "FormatFloat"))
  end.

(* join(args, sep) of builtin.go *)
Definition join_args (args : list loc) (sep : str) : M (list piece) :=
  let* d := depth_fuel in
  let* parts := mapM (show d false) args in
  ret (join_pieces [PStr sep] parts).

(* value.Equals with its type-assertion panics *)
Fixpoint equals (fuel : nat) (a b : loc) : M bool :=
  match fuel with
  | O => crash "stack overflow in Equals"
  | S f =>
      let* va := load a in
      let* vb := load b in
      match va, vb with
      | HNum x, HNum y => ret (PrimFloat.eqb x y)
      | HStr x, HStr y => ret (str_eqb x y)
      | HBool x, HBool y => ret (Bool.eqb x y)
      | HAny t i, HAny u j =>
          if ty_eqb (ty_shape t) (ty_shape u) then equals f i j else ret false
      | HArr xs, HArr ys =>
          if negb (Nat.eqb (List.length xs) (List.length ys)) then ret false
          else (fix go (xs ys : list loc) : M bool :=
                  match xs, ys with
                  | x :: xt, y :: yt => let* e := equals f x y in if e then go xt yt else ret false
                  | _, _ => ret true
                  end) xs ys
      | HMap m1, HMap m2 =>
          if negb (Nat.eqb (List.length (pairs m1)) (List.length (pairs m2))) then ret false
          else (fix go (ps : list (str * loc)) : M bool :=
                  match ps with
                  | [] => ret true
                  | (k, i) :: t =>
                      match plookup k (pairs m2) with
                      | None => ret false
                      | Some j => let* e := equals f i j in if e then go t else ret false
                      end
                  end) (pairs m1)
      | HNone, _ => ret false
      | _, _ => crash "Equals called with mismatched value kinds"
      end
  end.

(* ---------- index arithmetic (value.go: normalizeIndex / normalizeSliceIndices) ---------- *)
Definition normalize_index (f : float) (len : nat) (is_slice : bool) : res nat :=
  let n := Z.of_nat len in
  let limit := if is_slice then n else n - 1 in
  match go_int_exact f with
  | None => Er (EPanic PkIndexValue)
  | Some i =>
      if (i <? - n) || (limit <? i) then Er (EPanic PkBounds)
      else Ok (Z.to_nat (if i <? 0 then n + i else i))
  end.

Definition lift {A} (r : res A) : M A := fun s => (r, s).

Definition load_num (l : loc) : M float :=
  let* v := load l in match v with HNum f => ret f | _ => crash "value is not a *numVal" end.
Definition load_str (l : loc) : M str :=
  let* v := load l in match v with HStr x => ret x | _ => crash "value is not a *stringVal" end.
Definition load_bool (l : loc) : M bool :=
  let* v := load l in match v with HBool x => ret x | _ => crash "value is not a *boolVal" end.

Definition slice_bounds (lo hi : option loc) (len : nat) : M (nat * nat) :=
  let* a := match lo with
            | None => ret 0%nat
            | Some l => let* f := load_num l in lift (normalize_index f len true)
            end in
  let* b := match hi with
            | None => ret len
            | Some l => let* f := load_num l in lift (normalize_index f len true)
            end in
  if Nat.ltb b a then fail (EPanic PkSlice) else ret (a, b).

Fixpoint list_set {A} (l : list A) (i : nat) (x : A) : list A :=
  match l, i with
  | [], _ => []
  | _ :: t, O => x :: t
  | h :: t, S k => h :: list_set t k x
  end.

(* ---------- zero values ---------- *)
Definition zero_val (t : ty) : M loc :=
  match t with
  | TNum => alloc (HNum 0%float)
  | TStr => alloc (HStr [])
  | TBool => alloc (HBool false)
  | TAny => let* b := alloc (HBool false) in alloc (HAny TBool b)
  | TArr _ | TEmptyArr | TGenArr => alloc (HArr [])
  | TMap _ | TEmptyMap | TGenMap => alloc (HMap oempty)
  | TNone => crash "cannot create zero value"
  end.

(* ---------- binary operators ---------- *)
Definition bin_num (op : binop) (x y : float) : M loc :=
  match op with
  | BPlus => alloc (HNum (x + y)%float)
  | BMinus => alloc (HNum (x - y)%float)
  | BAsterisk => alloc (HNum (x * y)%float)
  | BSlash => alloc (HNum (x / y)%float)
  | BPercent => alloc (HNum (fmod x y))
  | BGt => alloc (HBool (PrimFloat.ltb y x))
  | BLt => alloc (HBool (PrimFloat.ltb x y))
  | BGtEq => alloc (HBool (PrimFloat.leb y x))
  | BLtEq => alloc (HBool (PrimFloat.leb x y))
  | _ => fail (EInternal (s_ "unknown operation (num)"))
  end.

Definition bin_str (op : binop) (x y : str) : M loc :=
  match op with
  | BPlus => alloc (HStr (x ++ y))
  | BGt => alloc (HBool (str_ltb y x))
  | BLt => alloc (HBool (str_ltb x y))
  | BGtEq => alloc (HBool (negb (str_ltb x y)))
  | BLtEq => alloc (HBool (negb (str_ltb y x)))
  | _ => fail (EInternal (s_ "unknown operation (string)"))
  end.

Definition bin_bool (op : binop) (x y : bool) : M loc :=
  match op with
  | BAnd => alloc (HBool (x && y))
  | BOr => alloc (HBool (x || y))
  | _ => fail (EInternal (s_ "unknown operation (bool)"))
  end.

Definition max_alloc : Z := 2^24.   (* beyond this the model does not follow Go's allocator *)

Definition bin_arr (op : binop) (xs : list loc) (r : loc) : M loc :=
  match op with
  | BPlus =>
      let* rv := load r in
      match rv with
      | HArr ys =>
          let* d := depth_fuel in
          let* xs' := mapM (copy_or_ref d) xs in
          let* ys' := mapM (copy_or_ref d) ys in
          alloc (HArr (xs' ++ ys'))
      | _ => crash "right operand is not an *arrayVal"
      end
  | BAsterisk =>
      let* f := load_num r in
      (* repetitions := int(f); float64(repetitions) != f  -> not an integer *)
      match go_int_exact f with
      | None => fail (EPanic PkBadRepetition)
      | Some n =>
          if n <? 0 then fail (EPanic PkBadRepetition)
          else if max_alloc <? Z.of_nat (List.length xs) * n then fail (ENeedOracle (s_ "huge allocation"))
          else
            (* for xs = [] the result is the empty array whatever n is (n empty parts); Go returns it without
               looping since f173496 - same value, so the definition is unchanged (the model just takes long for
               huge n there: such cases are answered by the harness's model time limit and counted as skipped) *)
            let* d := depth_fuel in
            let* parts := mapM (fun _ => mapM (deep_copy d) xs) (repeat tt (Z.to_nat n)) in
            alloc (HArr (List.concat parts))
      end
  | _ => fail (EInternal (s_ "unknown operation (array)"))
  end.

(* ---------- signals ---------- *)
Inductive signal := SigNone | SigBreak | SigReturn (v : option loc).

Definition is_ctl (s : signal) : bool := match s with SigNone => false | _ => true end.

(* ---------- rangers ---------- *)
Inductive ranger :=
| RgStep (cur stop step : float)
| RgArr (arr : loc) (cur : nat)
| RgStr (runes : str) (cur : nat)
| RgMap (m : loc) (todo : list str).

(* ---------- builtin functions (non-graphics and simple graphics) ---------- *)
Definition str2bool_true : list str := Eval compute in map s_ ["1"; "t"; "T"; "TRUE"; "true"; "True"]%string.
Definition str2bool_false : list str := Eval compute in map s_ ["0"; "f"; "F"; "FALSE"; "false"; "False"]%string.

Definition is_digit (c : N) : bool := (48 <=? c)%N && (c <=? 57)%N.

(* strconv.ParseFloat on the subset decided here: optional sign + up to 15
   decimal digits -> exact; a string containing a character that no float
   literal can contain, or the empty string -> failure; otherwise oracle *)
Inductive parse_num := PnOk (f : float) | PnFail | PnOracle.

Fixpoint digits_val (s : str) (acc : Z) : Z :=
  match s with [] => acc | c :: t => digits_val t (acc * 10 + Z.of_N (c - 48)%N) end.

Definition float_chars : str := Eval compute in s_ "0123456789+-.eEpPxXinfatyINFATY_abcdefABCDEF".

Definition parse_float (s : str) : parse_num :=
  match s with
  | [] => PnFail
  | c :: t =>
      let '(neg, ds) := if N.eqb c 45 then (true, t) else if N.eqb c 43 then (false, t) else (false, s) in
      if negb (Nat.eqb (List.length ds) 0) && forallb is_digit ds && Nat.leb (List.length ds) 15 then
        let v := float_of_Z (digits_val ds 0) in PnOk (if neg then (- v)%float else v)
      else
        (* every Go float literal starts (after the sign) with a digit, '.', or the i/n of inf/nan *)
        match ds with
        | [] => PnFail
        | d0 :: _ =>
            if negb (is_digit d0 || existsb (N.eqb d0) [46; 105; 73; 110; 78]%N) then PnFail
            else if forallb (fun ch => existsb (N.eqb ch) float_chars) s then PnOracle
            else PnFail
        end
  end.

Definition n_err : str := Eval compute in s_ "err".
Definition n_errmsg : str := Eval compute in s_ "errmsg".

(* globalErr: looks the cells up from the calling scope and mutates them in place *)
Definition global_err (e : env) (is_err : bool) (msg : list piece) : M unit :=
  let* le := lookup n_err e in
  match le with
  | None => crash "cannot find global err"
  | Some l =>
      let* v := load l in
      match v with
      | HBool _ =>
          let* _ := store l (HBool is_err) in
          let* lm := lookup n_errmsg e in
          match lm with
          | None => crash "cannot find global errmsg"
          | Some l2 =>
              let* v2 := load l2 in
              match v2 with
              | HStr _ =>
                  match pieces_str msg with
                  | Some m => store l2 (HStr m)
                  | None => fail (ENeedOracle (s_ "errmsg text"))
                  end
              | _ => crash "String.Set called with non-String value"
              end
          end
      | _ => crash "Bool.Set called with non-Bool value"
      end
  end.

Definition unwrap_any (l : loc) : M hval :=
  let* v := load l in
  match v with HAny _ i => load i | _ => crash "argument is not an *anyVal" end.

(* same(want, got) of the test builtin *)
Fixpoint same (fuel : nat) (want got : loc) : M bool :=
  match fuel with
  | O => crash "stack overflow in same"
  | S f =>
      let* g := load got in
      let* w := load want in
      match g with
      | HArr gs =>
          match w with
          | HArr ws =>
              if negb (Nat.eqb (List.length ws) (List.length gs)) then ret false
              else (fix go (ws gs : list loc) : M bool :=
                      match ws, gs with
                      | x :: xt, y :: yt => let* e := same f x y in if e then go xt yt else ret false
                      | _, _ => ret true
                      end) ws gs
          | _ => ret false
          end
      | HMap gm =>
          match w with
          | HMap wm =>
              if negb (Nat.eqb (List.length (pairs wm)) (List.length (pairs gm))) then ret false
              else (fix go (ps : list (str * loc)) : M bool :=
                      match ps with
                      | [] => ret true
                      | (k, i) :: t =>
                          match plookup k (pairs gm) with
                          | None => ret false     (* got.Pairs[key] is nil; same(v, nil) matches no case: false *)
                          | Some j => let* e := same f i j in if e then go t else ret false
                          end
                      end) (pairs wm)
          | _ => ret false
          end
      | HAny _ gi =>
          match w with
          | HAny _ wi => same f wi gi
          | _ => same f want gi
          end
      | HNum y => match w with HNum x => ret (PrimFloat.eqb x y) | _ => ret false end
      | HStr y => match w with HStr x => ret (str_eqb x y) | _ => ret false end
      | HBool y => match w with HBool x => ret (Bool.eqb x y) | _ => ret false end
      | HNone => ret false
      end
  end.

Definition none_val : M (option loc) := let* l := alloc HNone in ret (Some l).

Definition gfx_num_names : list str := Eval compute in map s_ ["circle"; "width"]%string.
Definition gfx_xy_names : list str := Eval compute in map s_ ["move"; "line"; "rect"]%string.
Definition gfx_str_names : list str := Eval compute in map s_ ["color"; "colour"; "stroke"; "fill"; "linecap"; "text"]%string.
Definition math1_names : list str := Eval compute in map s_ ["abs"; "sqrt"]%string.

(* result: None = not a builtin; Some m = the builtin's action (value option: nil/none are both "no value") *)
Definition name_is (name : str) (n : string) : bool := str_eqb name (s_ n).
Arguments name_is name n%string.

(* ---------- pure string and math built-ins: Builtins.v's functions on the loaded argument values ----------
   They read their argument cells, allocate the result (split: one cell per part and the array)
   and touch nothing else: no globals, no err/errmsg, no trace (SemPure.pure_builtin_spec).
   Where Builtins.v consults an oracle (unicode case mapping outside ASCII, libm, the PRNG,
   number formatting) the answer is ENeedOracle. *)
Definition ascii_upper (c : N) : N := if (97 <=? c)%N && (c <=? 122)%N then (c - 32)%N else c.
Definition ascii_lower (c : N) : N := if (65 <=? c)%N && (c <=? 90)%N then (c + 32)%N else c.
Definition is_ascii (s : str) : bool := forallb (fun c => (c <? 128)%N) s.

(* Builtins.v's oracles restricted to what is decided here (ASCII case mapping); the other
   fields are never consulted on the paths Sem.v takes *)
Definition ascii_oracles : Builtins.oracles :=
  {| Builtins.o_num_str := fun _ => [];
     Builtins.o_fmt_float := fun _ _ => [];
     Builtins.o_upper := ascii_upper;
     Builtins.o_lower := ascii_lower;
     Builtins.o_is_letter := fun _ => false;
     Builtins.o_is_print := fun c => (32 <=? c)%N && (c <=? 126)%N;   (* strconv.IsPrint on ASCII *)
     Builtins.o_parse_float := fun _ => Builtins.PFSyntax;
     Builtins.o_math := fun _ _ => 0%float;
     Builtins.o_rand := fun _ => 0%Z;
     Builtins.o_rand1 := 0%float |}.

(* fmt's %v of a num is computed by Builtins.fmt_v_num without its oracle exactly for these *)
Definition small_int (f : float) : bool :=
  match float_to_Z f with
  | Some z => negb (Builtins.signbit f) && (z <? 1000000)%Z
  | None => false
  end.

(* fmt.Sprintf is computed by Builtins.sprintf_loop without its oracles when no operand is a
   number (float formatting) and every string operand is printable ASCII (%q quoting) *)
Definition fmt_decidable (a : Builtins.farg) : bool :=
  match a with
  | Builtins.FNum _ => false
  | Builtins.FStr x => forallb (fun c => (32 <=? c)%N && (c <=? 126)%N) x
  | Builtins.FBool _ => true
  end.

Definition pure_builtin (name : str) (args : list loc) : option (M (option loc)) :=
  if name_is name "upper" then Some (
    match args with
    | [a] => let* s := load_str a in
             if is_ascii s then let* l := alloc (HStr (Builtins.upper ascii_oracles s)) in ret (Some l)
             else fail (ENeedOracle (s_ "unicode.ToUpper"))
    | _ => crash "upper arity" end)
  else if name_is name "lower" then Some (
    match args with
    | [a] => let* s := load_str a in
             if is_ascii s then let* l := alloc (HStr (Builtins.lower ascii_oracles s)) in ret (Some l)
             else fail (ENeedOracle (s_ "unicode.ToLower"))
    | _ => crash "lower arity" end)
  else if name_is name "trim" then Some (
    match args with
    | [a; b] => let* s := load_str a in let* cut := load_str b in
                let* l := alloc (HStr (Builtins.trim s cut)) in ret (Some l)
    | _ => crash "trim arity" end)
  else if name_is name "replace" then Some (
    match args with
    | [a; b; c] => let* s := load_str a in let* o := load_str b in let* n := load_str c in
                   let* l := alloc (HStr (Builtins.replace s o n)) in ret (Some l)
    | _ => crash "replace arity" end)
  else if name_is name "index" then Some (
    match args with
    | [a; b] => let* s := load_str a in let* sub := load_str b in
                let* l := alloc (HNum (float_of_Z (Builtins.index_chars s sub))) in ret (Some l)
    | _ => crash "index arity" end)
  else if name_is name "split" then Some (
    match args with
    | [a; b] => let* s := load_str a in let* sep := load_str b in
                let* ls := mapM (fun p => alloc (HStr p)) (Builtins.split s sep) in
                let* l := alloc (HArr ls) in ret (Some l)
    | _ => crash "split arity" end)
  else if name_is name "floor" then Some (
    match args with [a] => let* x := load_num a in let* l := alloc (HNum (Builtins.go_floor x)) in ret (Some l)
               | _ => crash "floor arity" end)
  else if name_is name "ceil" then Some (
    match args with [a] => let* x := load_num a in let* l := alloc (HNum (Builtins.go_ceil x)) in ret (Some l)
               | _ => crash "ceil arity" end)
  else if name_is name "round" then Some (
    match args with [a] => let* x := load_num a in let* l := alloc (HNum (Builtins.go_round x)) in ret (Some l)
               | _ => crash "round arity" end)
  else if name_is name "pow" then Some (
    match args with [a; b] => let* x := load_num a in let* y := load_num b in fail (ENeedOracle (s_ "math.Pow"))
               | _ => crash "pow arity" end)
  else if name_is name "atan2" then Some (
    match args with [a; b] => let* x := load_num a in let* y := load_num b in fail (ENeedOracle (s_ "math.Atan2"))
               | _ => crash "atan2 arity" end)
  else if name_is name "log" then Some (
    match args with [a] => let* x := load_num a in fail (ENeedOracle (s_ "math.Log"))
               | _ => crash "log arity" end)
  else if name_is name "sin" then Some (
    match args with [a] => let* x := load_num a in fail (ENeedOracle (s_ "math.Sin"))
               | _ => crash "sin arity" end)
  else if name_is name "cos" then Some (
    match args with [a] => let* x := load_num a in fail (ENeedOracle (s_ "math.Cos"))
               | _ => crash "cos arity" end)
  else if name_is name "rand" then Some (
    match args with
    | [a] => let* x := load_num a in
             if negb (PrimFloat.leb 1 x && PrimFloat.leb x 2147483647) then fail (EPanic PkBadArguments)
             else fail (ENeedOracle (s_ "RandSource.Int31n"))
    | _ => crash "rand arity" end)
  else if name_is name "rand1" then Some (
    match args with [] => fail (ENeedOracle (s_ "RandSource.Float64")) | _ => crash "rand1 arity" end)
  else if name_is name "hsl" then Some (
    let* nums := mapM load_num args in
    match Builtins.hsl_model ascii_oracles nums with
    | Builtins.OPanic _ => fail (EPanic PkBadArguments)
    | Builtins.ORet (Builtins.VStr t) =>
        if forallb small_int nums then let* l := alloc (HStr t) in ret (Some l)
        else fail (ENeedOracle (s_ "FormatFloat"))
    | _ => crash "hsl: unexpected outcome"
    end)
  else None.


Definition builtin (name : str) (e : env) (args : list loc) : option (M (option loc)) :=
  if name_is name "print" then Some (
    let* p := join_args args (s_ " ") in
    let* _ := emitE (EvPrint (p ++ [PStr [10%N]])) in none_val)
  else if name_is name "sprint" then Some (
    let* p := join_args args (s_ " ") in
    match pieces_str p with
    | Some s => let* l := alloc (HStr s) in ret (Some l)
    | None => fail (ENeedOracle (s_ "FormatFloat"))
    end)
  else if name_is name "read" then Some (
    fun s => match st_input s with
             | [] => (let* l := alloc (HStr []) in ret (Some l)) (upd_trace (EvRead :: st_trace s) s)
             | x :: t => (let* l := alloc (HStr x) in ret (Some l)) (upd_input t (upd_trace (EvRead :: st_trace s) s))
             end)
  else if name_is name "cls" then Some (let* _ := emitE EvCls in none_val)
  else if name_is name "sleep" then Some (
    match args with
    | [a] => let* f := load_num a in
             let* _ := emitE (EvSleep (go_int (f * 1000000000)%float)) in none_val
    | _ => crash "sleep arity" end)
  else if name_is name "len" then Some (
    match args with
    | [a] =>
        let* v := unwrap_any a in
        match v with
        | HMap m => let* l := alloc (HNum (float_of_nat (List.length (pairs m)))) in ret (Some l)
        | HArr els => let* l := alloc (HNum (float_of_nat (List.length els))) in ret (Some l)
        | HStr s => let* l := alloc (HNum (float_of_nat (List.length s))) in ret (Some l)
        | _ => fail (EPanic PkBadArguments)
        end
    | _ => crash "len arity" end)
  else if name_is name "has" then Some (
    match args with
    | [m; k] =>
        let* mv := load m in let* ks := load_str k in
        match mv with
        | HMap om => let* l := alloc (HBool (ohas ks om)) in ret (Some l)
        | _ => crash "has: not a *mapVal"
        end
    | _ => crash "has arity" end)
  else if name_is name "del" then Some (
    match args with
    | [m; k] =>
        let* mv := load m in let* ks := load_str k in
        match mv with
        | HMap om => let* _ := store m (HMap (odel ks om)) in none_val
        | _ => crash "del: not a *mapVal"
        end
    | _ => crash "del arity" end)
  else if name_is name "typeof" then Some (
    match args with
    | [a] => let* v := load a in
             match v with
             | HAny t _ => let* l := alloc (HStr (ty_str t)) in ret (Some l)
             | _ => crash "typeof: not an *anyVal"
             end
    | _ => crash "typeof arity" end)
  else if name_is name "str2num" then Some (
    match args with
    | [a] =>
        let* _ := global_err e false [] in
        let* s := load_str a in
        match parse_float s with
        | PnOk f => let* l := alloc (HNum f) in ret (Some l)
        | PnFail =>
            let* _ := global_err e true (quote_pieces "str2num: cannot parse " s) in
            let* l := alloc (HNum 0%float) in ret (Some l)
        | PnOracle => fail (ENeedOracle (s_ "ParseFloat"))
        end
    | _ => crash "str2num arity" end)
  else if name_is name "str2bool" then Some (
    match args with
    | [a] =>
        let* _ := global_err e false [] in
        let* s := load_str a in
        if existsb (str_eqb s) str2bool_true then let* l := alloc (HBool true) in ret (Some l)
        else if existsb (str_eqb s) str2bool_false then let* l := alloc (HBool false) in ret (Some l)
        else
          let* _ := global_err e true (quote_pieces "str2bool: cannot parse " s) in
          let* l := alloc (HBool false) in ret (Some l)
    | _ => crash "str2bool arity" end)
  else if name_is name "exit" then Some (
    match args with [a] => let* f := load_num a in fail (EExit (go_int f)) | _ => crash "exit arity" end)
  else if name_is name "panic" then Some (
    match args with [a] => let* s := load_str a in fail (EPanic (PkUser s)) | _ => crash "panic arity" end)
  else if name_is name "join" then Some (
    match args with
    | [a; sp] =>
        let* v := load a in let* sep := load_str sp in
        match v with
        | HArr els =>
            let* p := join_args els sep in
            match pieces_str p with
            | Some s => let* l := alloc (HStr s) in ret (Some l)
            | None => fail (ENeedOracle (s_ "FormatFloat"))
            end
        | _ => crash "join: not an *arrayVal"
        end
    | _ => crash "join arity" end)
  else if name_is name "startswith" then Some (
    match args with
    | [a; b] => let* s := load_str a in let* p := load_str b in
                let* l := alloc (HBool (str_eqb (firstn (List.length p) s) p)) in ret (Some l)
    | _ => crash "startswith arity" end)
  else if name_is name "endswith" then Some (
    match args with
    | [a; b] => let* s := load_str a in let* p := load_str b in
                let* l := alloc (HBool (Nat.leb (List.length p) (List.length s) &&
                                        str_eqb (skipn (List.length s - List.length p) s) p)) in ret (Some l)
    | _ => crash "endswith arity" end)
  else if name_is name "min" then Some (
    match args with
    | [a; b] => let* x := load_num a in let* y := load_num b in
                if is_nan x || is_nan y then fail (ENeedOracle (s_ "math.Min NaN"))
                else if PrimFloat.eqb x y && PrimFloat.eqb x 0 then fail (ENeedOracle (s_ "math.Min signed zero"))
                else let* l := alloc (HNum (if PrimFloat.ltb x y then x else y)) in ret (Some l)
    | _ => crash "min arity" end)
  else if name_is name "max" then Some (
    match args with
    | [a; b] => let* x := load_num a in let* y := load_num b in
                if is_nan x || is_nan y then fail (ENeedOracle (s_ "math.Max NaN"))
                else if PrimFloat.eqb x y && PrimFloat.eqb x 0 then fail (ENeedOracle (s_ "math.Max signed zero"))
                else let* l := alloc (HNum (if PrimFloat.ltb x y then y else x)) in ret (Some l)
    | _ => crash "max arity" end)
  else if name_is name "abs" then Some (
    match args with [a] => let* x := load_num a in let* l := alloc (HNum (PrimFloat.abs x)) in ret (Some l)
               | _ => crash "abs arity" end)
  else if name_is name "sqrt" then Some (
    match args with [a] => let* x := load_num a in let* l := alloc (HNum (PrimFloat.sqrt x)) in ret (Some l)
               | _ => crash "sqrt arity" end)
  else if name_is name "sprintf" then Some (
    (* sprintf(format, unwrapBasicvalue(args)...): the first argument must hold a string *)
    match args with
    | [] => fail (EPanic PkBadArguments)
    | f :: rest =>
        let* fv := unwrap_any f in
        match fv with
        | HStr fs =>
            let* fargs := mapM (fun a => let* v := unwrap_any a in
                                         match v with
                                         | HNum x => ret (Builtins.FNum x)
                                         | HStr x => ret (Builtins.FStr x)
                                         | HBool b => ret (Builtins.FBool b)
                                         | _ => let* x := show_str a in ret (Builtins.FStr x)
                                         end) rest in
            if forallb fmt_decidable fargs then
              match Builtins.sprintf_loop ascii_oracles (S (List.length fs)) fs fargs with
              | Some r => let* l := alloc (HStr r) in ret (Some l)
              | None => fail (ENeedOracle (s_ "fmt.Sprintf"))
              end
            else fail (ENeedOracle (s_ "fmt.Sprintf"))
        | _ => fail (EPanic PkBadArguments)
        end
    end)
  else if name_is name "printf" then Some (
    (* sprintf(format, unwrapBasicvalue(args)...): the first argument must hold a string *)
    match args with
    | [] => fail (EPanic PkBadArguments)
    | f :: rest =>
        let* fv := unwrap_any f in
        match fv with
        | HStr fs =>
            let* fargs := mapM (fun a => let* v := unwrap_any a in
                                         match v with
                                         | HNum x => ret (Builtins.FNum x)
                                         | HStr x => ret (Builtins.FStr x)
                                         | HBool b => ret (Builtins.FBool b)
                                         | _ => let* x := show_str a in ret (Builtins.FStr x)
                                         end) rest in
            if forallb fmt_decidable fargs then
              match Builtins.sprintf_loop ascii_oracles (S (List.length fs)) fs fargs with
              | Some r => let* _ := emitE (EvPrint [PStr r]) in none_val
              | None => fail (ENeedOracle (s_ "fmt.Sprintf"))
              end
            else fail (ENeedOracle (s_ "fmt.Sprintf"))
        | _ => fail (EPanic PkBadArguments)
        end
    end)
  else if existsb (str_eqb name) gfx_num_names then Some (
    match args with [a] => let* x := load_num a in let* _ := emitE (EvGfx name [x] []) in none_val
               | _ => crash "gfx arity" end)
  else if existsb (str_eqb name) gfx_xy_names then Some (
    match args with [a; b] => let* x := load_num a in let* y := load_num b in
                              let* _ := emitE (EvGfx name [x; y] []) in none_val
               | _ => crash "gfx arity" end)
  else if existsb (str_eqb name) gfx_str_names then Some (
    match args with [a] => let* x := load_str a in
                           let* _ := emitE (EvGfx (if str_eqb name (s_ "colour") then s_ "color" else name) [] [x]) in none_val
               | _ => crash "gfx arity" end)
  else pure_builtin name args.

(* names of builtins that exist in evy but are outside this model *)
Definition unmodelled_builtins : list str := Eval compute in map s_
  ["repr"; "clear"; "grid"; "gridn"; "poly";
   "ellipse"; "dash"; "font"; "test"]%string.

(* ---------- the evaluator ---------- *)
Fixpoint find_func (n : str) (fs : list funcdef) : option funcdef :=
  match fs with [] => None | f :: t => if str_eqb (fn_name f) n then Some f else find_func n t end.

Fixpoint bind_params (ps : list (str * ty)) (args : list loc) (fr : frame) : M (frame * list loc) :=
  match ps with
  | [] => ret (fr, args)
  | (n, _) :: t =>
      match args with
      | a :: rest => bind_params t rest (if str_eqb n underscore then fr else frame_set n a fr)
      | [] => crash "index out of range: missing argument"
      end
  end.

Definition internal {A} (why : string) : M A := fail (EInternal (s_ why)).

(* mapVal.SetKey on the heap cell of the map *)
Definition map_set_key (m : loc) (k : str) (v : loc) : M unit :=
  let* mv := load m in
  match mv with
  | HMap om => store m (HMap (oset k v om))
  | _ => crash "not a *mapVal"
  end.

(* the test builtin + the bookkeeping of evalFunccall; result: unit or error *)
Definition run_test (args : list loc) : M unit :=
  let* d := depth_fuel in
  let validate : M unit :=
    match args with
    | [] => fail (EPanic PkBadArguments)
    | [a] => let* v := unwrap_any a in match v with HBool _ => ret tt | _ => fail (EPanic PkBadArguments) end
    | _ :: _ :: rest =>
        match rest with
        | m :: _ => let* v := unwrap_any m in match v with HStr _ => ret tt | _ => fail (EPanic PkBadArguments) end
        | [] => ret tt
        end
    end in
  fun s0 =>
    let bump (failed : bool) (s : state) :=
      upd_tests (S (st_total s)) (if failed then S (st_fails s) else st_fails s) s in
    match validate s0 with
    | (Er e, s1) => (Er e, bump false s1)          (* total++ happens for every call of test *)
    | (Ok _, s1) =>
        let verdict : M bool :=
          match args with
          | [a] => let* v := unwrap_any a in match v with HBool b => ret b | _ => crash "test: not a bool" end
          | w :: g :: _ => same d w g
          | [] => ret true
          end in
        match verdict s1 with
        | (Er e, s2) => (Er e, bump false s2)
        | (Ok true, s2) => (Ok tt, bump false s2)
        | (Ok false, s2) =>
            let s3 := bump true s2 in
            if st_failfast s3 then (Er ETestFail, s3) else (Ok tt, s3)
        end
    end.

Definition n_test : str := Eval compute in s_ "test".

Fixpoint eval_expr (n : nat) (P : program) (e : env) (x : expr) {struct n} : M loc :=
  match n with
  | O => fail EOutOfFuel
  | S f =>
    let* _ := tick in
    match x with
    | ENum v => alloc (HNum v)
    | EStr v => alloc (HStr v)
    | EBool v => alloc (HBool v)
    | EVar name _ =>
        let* r := lookup name e in
        match r with Some l => ret l | None => fail (EPanic PkVarNotSet) end
    | EAny a t =>
        let* l := eval_expr f P e a in
        let* v := load l in
        match v with
        | HAny _ _ => crash "nested any value"
        | _ => alloc (HAny t l)
        end
    | EArr _ es => let* els := eval_exprs f P e es in alloc (HArr els)
    | EMap _ ps =>
        (* evalMapLiteral: pairs[key] = copyOrRef(eval(node)); evaluated here in key order *)
        let* d := depth_fuel in
        let* vals := (fix go (ps : list (str * expr)) : M (list (str * loc)) :=
                        match ps with
                        | [] => ret []
                        | (k, a) :: t =>
                            let* l := eval_expr f P e a in
                            let* c := copy_or_ref d l in
                            let* r := go t in ret ((k, c) :: r)
                        end) ps in
        alloc (HMap {| pairs := vals; order := map fst ps |})
    | ECall name _ args =>
        let* r := eval_call f P e name args in
        match r with Some l => ret l | None => alloc HNone end
    | EUn op a =>
        let* l := eval_expr f P e a in
        let* v := load l in
        match op, v with
        | UMinus, HNum y => alloc (HNum (- y)%float)
        | UBang, HBool b => alloc (HBool (negb b))
        | _, _ => internal "unknown operation (unary)"
        end
    | EBin op _ a b =>
        let* la := eval_expr f P e a in
        let* va0 := load la in               (* canShortCircuit looks at the left value now *)
        let short := match op, va0 with
                     | BAnd, HBool false => true
                     | BOr, HBool true => true
                     | _, _ => false
                     end in
        let* lb := if short then ret la else eval_expr f P e b in
        match op with
        | BEq => let* d := depth_fuel in let* r := equals d la lb in alloc (HBool r)
        | BNotEq => let* d := depth_fuel in let* r := equals d la lb in alloc (HBool (negb r))
        | _ =>
            (* the operands' contents (l.V, *l.Elements) are read only now, after the right
               operand has been evaluated: an in-place update of the left cell by the right
               operand (array element store, err/errmsg) is visible *)
            let* va := load la in
            match va with
            | HNum y => let* z := load_num lb in bin_num op y z
            | HStr y => let* z := load_str lb in bin_str op y z
            | HBool y => let* z := load_bool lb in bin_bool op y z
            | HArr xs => bin_arr op xs lb
            | _ => internal "unknown operation (binary)"
            end
        end
    | EIndex _ a i =>
        let* la := eval_expr f P e a in
        let* li := eval_expr f P e i in
        let* va := load la in
        match va with
        | HArr els =>
            let* fi := load_num li in
            let* k := lift (normalize_index fi (List.length els) false) in
            match nth_error els k with Some l => ret l | None => crash "index out of range" end
        | HStr s =>
            let* fi := load_num li in
            let* k := lift (normalize_index fi (List.length s) false) in
            match nth_error s k with Some c => alloc (HStr [c]) | None => crash "index out of range" end
        | HMap om =>
            let* vi := load li in
            match vi with
            | HStr k => match oget k om with Some l => ret l | None => fail (EPanic PkMapKey) end
            | _ => internal "expected string for map index"
            end
        | _ => internal "expected array, string or map with index"
        end
    | EDot _ a key =>
        let* la := eval_expr f P e a in
        let* va := load la in
        match va with
        | HMap om => match oget key om with Some l => ret l | None => fail (EPanic PkMapKey) end
        | _ => internal "expected map before ."
        end
    | ESlice _ a lo hi =>
        let* la := eval_expr f P e a in
        let* llo := match lo with Some y => let* l := eval_expr f P e y in ret (Some l) | None => ret None end in
        let* lhi := match hi with Some y => let* l := eval_expr f P e y in ret (Some l) | None => ret None end in
        let* va := load la in
        match va with
        | HArr els =>
            let* (s0, e0) := slice_bounds llo lhi (List.length els) in
            let* d := depth_fuel in
            let* els' := mapM (copy_or_ref d) (firstn (e0 - s0) (skipn s0 els)) in
            alloc (HArr els')
        | HStr s =>
            let* (s0, e0) := slice_bounds llo lhi (List.length s) in
            alloc (HStr (firstn (e0 - s0) (skipn s0 s)))
        | _ => internal "expected string or array before ["
        end
    | EGroup a => eval_expr f P e a
    | EAssert t a =>
        let* la := eval_expr f P e a in
        let* va := load la in
        match va with
        | HAny u i => if ty_eqb (ty_shape u) (ty_shape t) then ret i else fail (EPanic PkAnyConversion)
        | _ => fail (EPanic PkAnyConversion)
        end
    end
  end

(* evalExprList: result[i] = copyOrRef(eval(t)) *)
with eval_exprs (n : nat) (P : program) (e : env) (l : list expr) {struct n} : M (list loc) :=
  match n with
  | O => fail EOutOfFuel
  | S f =>
    match l with
    | [] => ret []
    | x :: t =>
        let* v := eval_expr f P e x in
        let* d := depth_fuel in
        let* c := copy_or_ref d v in
        let* r := eval_exprs f P e t in
        ret (c :: r)
    end
  end

(* evalFunccall *)
with eval_call (n : nat) (P : program) (e : env) (name : str) (args : list expr) {struct n} : M (option loc) :=
  match n with
  | O => fail EOutOfFuel
  | S f =>
    let* vals := eval_exprs f P e args in
    if str_eqb name n_test then let* _ := run_test vals in ret None
    else
    match builtin name e vals with
    | Some m => m
    | None =>
        if existsb (str_eqb name) unmodelled_builtins then fail (EUnsupported name)
        else
        match find_func name (p_funcs P) with
        | None => crash "nil FuncDef"
        | Some fd =>
            let* (fr, rest) := bind_params (fn_params fd) vals [] in
            let* fr' := match fn_variadic fd with
                        | Some (vn, _) => let* a := alloc (HArr vals) in
                                          ret (if str_eqb vn underscore then fr else frame_set vn a fr)
                        | None => ret fr
                        end in
            let* (sig, _) := exec_block f P [fr'] (fn_body fd) in
            match sig with
            | SigReturn v => ret v
            | _ => let* l := alloc HNone in ret (Some l)
            end
        end
    end
  end

(* Evaluator.eval on a statement node *)
with exec_stmt (n : nat) (P : program) (e : env) (s : stmt) {struct n} : M (signal * env) :=
  match n with
  | O => fail EOutOfFuel
  | S f =>
    let* _ := tick in
    match s with
    | SDecl name _ x =>
        let* v := eval_expr f P e x in
        let* d := depth_fuel in
        let* c := copy_or_ref d v in
        let* e' := set_var name c e in
        ret (SigNone, e')
    | SAssign target x =>
        let* v0 := eval_expr f P e x in
        let* d := depth_fuel in
        let* v := copy_or_ref d v0 in          (* val = copyOrRef(val) *)
        match target with
        | EVar name _ => let* e' := update_var name v e in ret (SigNone, e')
        | EIndex _ a i =>
            let* la := eval_expr f P e a in
            let* li := eval_expr f P e i in
            let* va := load la in
            match va with
            | HArr els =>
                let* fi := load_num li in
                let* k := lift (normalize_index fi (List.length els) false) in
                let* _ := store la (HArr (list_set els k v)) in
                ret (SigNone, e)
            | HMap _ =>
                let* k := load_str li in
                let* _ := map_set_key la k v in
                ret (SigNone, e)
            | _ => internal "expected array or map assignment target with index"
            end
        | EDot _ a key =>
            let* la := eval_expr f P e a in
            let* va := load la in
            match va with
            | HMap _ => let* _ := map_set_key la key v in ret (SigNone, e)
            | _ => internal "expected map before ."
            end
        | _ => internal "bad assignment target"
        end
    | SCallStmt name args =>
        let* _ := eval_call f P e name args in ret (SigNone, e)
    | SReturn None => ret (SigReturn None, e)
    | SReturn (Some x) => let* v := eval_expr f P e x in ret (SigReturn (Some v), e)
    | SBreak => ret (SigBreak, e)
    | SIf conds els =>
        (fix go (cs : list (expr * list stmt)) (e : env) : M (signal * env) :=
           match cs with
           | [] =>
               match els with
               | Some body =>
                   let* (sig, e1) := exec_block f P ([] :: e) body in
                   ret (sig, tl e1)
               | None => ret (SigNone, e)
               end
           | (c, body) :: t =>
               let* (r, e1) := exec_cond f P e c body in
               match r with
               | Some sig => ret (sig, e1)
               | None => go t e1
               end
           end) conds e
    | SWhile c body => exec_while f P e c body
    | SFor var vt r body =>
        let e1 : env := [] :: e in
        let vname := match var with Some v => v | None => underscore end in
        let* (rg, e2) :=
          match r with
          | RStep start stop step =>
              let num (o : option expr) (dflt : float) : M float :=
                let* l := eval_expr f P e1 (match o with Some y => y | None => ENum dflt end) in
                let* v := load l in
                match v with HNum y => ret y | _ => internal "expected number" end in
              let* a := num start 0%float in
              let* b := num (Some stop) 0%float in
              let* c := num step 1%float in
              if PrimFloat.eqb c 0 then fail (EPanic PkRangeValue)
              else
                let* e2 := match var with
                           | Some v => let* l := alloc (HNum 0%float) in set_var v l e1
                           | None => ret e1 end in
                ret (RgStep a b c, e2)
          | RExpr y =>
              let* l := eval_expr f P e1 y in
              let* v := load l in
              match v with
              | HArr _ =>
                  let* e2 := match var with
                             | Some v => let* z := zero_val vt in set_var v z e1
                             | None => ret e1 end in
                  ret (RgArr l 0%nat, e2)
              | HStr s =>
                  let* e2 := match var with
                             | Some v => let* z := alloc (HStr []) in set_var v z e1
                             | None => ret e1 end in
                  ret (RgStr s 0%nat, e2)
              | HMap om =>
                  let* e2 := match var with
                             | Some v => let* z := alloc (HStr []) in set_var v z e1
                             | None => ret e1 end in
                  ret (RgMap l (order om), e2)
              | _ => internal "bad range type"
              end
          end in
        let* (sig, e3) := exec_for f P e2 vname rg body in
        ret (sig, tl e3)
    | SNop => ret (SigNone, e)
    end
  end

(* evalStatments *)
with exec_stmts (n : nat) (P : program) (e : env) (l : list stmt) {struct n} : M (signal * env) :=
  match n with
  | O => fail EOutOfFuel
  | S f =>
    match l with
    | [] => ret (SigNone, e)
    | s :: t =>
        let* (sig, e1) := exec_stmt f P e s in
        if is_ctl sig then ret (sig, e1) else exec_stmts f P e1 t
    end
  end

(* Evaluator.eval on a *BlockStatement *)
with exec_block (n : nat) (P : program) (e : env) (l : list stmt) {struct n} : M (signal * env) :=
  match n with
  | O => fail EOutOfFuel
  | S f => let* _ := tick in exec_stmts f P e l
  end

(* evalConditionalBlock: pushScope; condition; block; popScope *)
with exec_cond (n : nat) (P : program) (e : env) (c : expr) (body : list stmt) {struct n}
  : M (option signal * env) :=
  match n with
  | O => fail EOutOfFuel
  | S f =>
    let e1 : env := [] :: e in
    let* l := eval_expr f P e1 c in
    let* v := load l in
    match v with
    | HBool true =>
        let* (sig, e2) := exec_block f P e1 body in
        ret (Some sig, tl e2)
    | HBool false => ret (None, e)
    | _ => internal "conditional not a bool"
    end
  end

(* evalWhile *)
with exec_while (n : nat) (P : program) (e : env) (c : expr) (body : list stmt) {struct n}
  : M (signal * env) :=
  match n with
  | O => fail EOutOfFuel
  | S f =>
    let* (r, e1) := exec_cond f P e c body in
    match r with
    | None => ret (SigNone, e1)
    | Some SigBreak => ret (SigNone, e1)
    | Some (SigReturn v) => ret (SigReturn v, e1)
    | Some SigNone => exec_while f P e1 c body
    end
  end

(* the loop of evalFor over ranger.next *)
with exec_for (n : nat) (P : program) (e : env) (var : str) (rg : ranger) (body : list stmt) {struct n}
  : M (signal * env) :=
  match n with
  | O => fail EOutOfFuel
  | S f =>
    let* nx :=
      match rg with
      | RgStep cur stop step =>
          if (PrimFloat.ltb 0 step && PrimFloat.leb stop cur) || (PrimFloat.ltb step 0 && PrimFloat.leb cur stop)
          then ret None
          else let* l := alloc (HNum cur) in ret (Some (l, RgStep (cur + step)%float stop step))
      | RgArr a cur =>
          let* v := load a in
          match v with
          | HArr els => match nth_error els cur with
                        | Some l => ret (Some (l, RgArr a (S cur)))
                        | None => ret None end
          | _ => crash "range over non-array"
          end
      | RgStr s cur =>
          match nth_error s cur with
          | Some c => let* l := alloc (HStr [c]) in ret (Some (l, RgStr s (S cur)))
          | None => ret None
          end
      | RgMap m todo =>
          let* v := load m in
          match v with
          | HMap om =>
              (fix next (ks : list str) : M (option (loc * ranger)) :=
                 match ks with
                 | [] => ret None
                 | k :: t => if ohas k om then let* l := alloc (HStr k) in ret (Some (l, RgMap m t))
                             else next t
                 end) todo
          | _ => crash "range over non-map"
          end
      end in
    match nx with
    | None => ret (SigNone, e)
    | Some (l, rg') =>
        let* e1 := update_var var l e in
        (* every iteration runs the body in a scope of its own (pushScope / popScope around eval(f.Block)) *)
        let* (sig, e2') := exec_block f P ([] :: e1) body in
        let e2 := tl e2' in
        match sig with
        | SigBreak => ret (SigNone, e2)
        | SigReturn v => ret (SigReturn v, e2)
        | SigNone => exec_for f P e2 var rg' body
        end
    end
  end.

(* ---------- whole runs ---------- *)
Definition pi_bits : Z := 4614256656552045848.

Definition init_state (stop_at : option nat) (input : list str) (failfast after_yield : bool) : state :=
  let h0 := hempty in
  let '(lerr, h1) := halloc h0 (HBool false) in
  let '(lmsg, h2) := halloc h1 (HStr []) in
  let '(lpi, h3) := halloc h2 (HNum (float_of_bits pi_bits)) in
  {| st_heap := h3;
     st_globals := [(n_err, lerr); (n_errmsg, lmsg); (s_ "pi", lpi)];
     st_trace := []; st_yields := 0; st_stop_at := stop_at; st_stopped := false; st_input := input;
     st_total := 0; st_fails := 0; st_failfast := failfast; st_check_after_yield := after_yield |}.

Definition nat_str (n : nat) : str := z_dec (Z.of_nat n).

(* TestInfo.Report *)
Definition test_report (s : state) : state :=
  if Nat.eqb (st_total s) 0 then s
  else
    let fails := st_fails s in
    let succs := (st_total s - fails)%nat in
    let suffix (k : nat) : str := if Nat.eqb k 1 then [] else s_ "s" in
    let text :=
      if Nat.ltb 0 fails then
        [10060%N; 32%N] ++ nat_str fails ++ s_ " failed test" ++ suffix fails ++ [10%N] ++
        [10004%N; 65039%N; 32%N] ++ nat_str succs ++ s_ " passed test" ++ suffix succs ++ [10%N]
      else [9989%N; 32%N] ++ nat_str succs ++ s_ " passed test" ++ suffix succs ++ [10%N] in
    upd_trace (EvPrint [PStr text] :: st_trace s) s.

Inductive outcome :=
| ODone | OTestsFailed | OErr (e : err).

(* Evaluator.Eval *)
Definition run_program (fuel : nat) (P : program) (s0 : state) : outcome * state :=
  let m : M unit :=
    let* _ := tick in                      (* e.eval(prog) *)
    let* _ := exec_stmts fuel P [] (p_stmts P) in ret tt in
  let '(r, s1) := m s0 in
  let s2 := match r with
            | Er (ENeedOracle _) | Er (EUnsupported _) | Er EOutOfFuel => s1   (* not a real run: no report *)
            | _ => test_report s1 end in
  match r with
  | Er e => (OErr e, s2)
  | Ok _ => if Nat.ltb 0 (st_fails s2) then (OTestsFailed, s2) else (ODone, s2)
  end.

(* Evaluator.HandleEvent *)
Inductive payload := PvNum (f : float) | PvStr (s : str) | PvBool (b : bool).

Fixpoint find_handler (n : str) (hs : list handler) : option handler :=
  match hs with [] => None | h :: t => if str_eqb (h_name h) n then Some h else find_handler n t end.

Fixpoint bind_payload (ps : list (str * ty)) (args : list payload) (fr : frame) : M frame :=
  match ps with
  | [] => ret fr
  | (n, t) :: rest =>
      match args with
      | [] => crash "not enough arguments for event"
      | a :: more =>
          let* l := match t, a with
                    | TNum, PvNum x => alloc (HNum x)
                    | TStr, PvStr x => alloc (HStr x)
                    | TBool, PvBool x => alloc (HBool x)
                    | _, _ => fail (EPanic PkAnyConversion)
                    end in
          bind_payload rest more (if str_eqb n underscore then fr else frame_set n l fr)
      end
  end.

Definition handle_event (fuel : nat) (P : program) (name : str) (args : list payload) (s0 : state)
  : outcome * state :=
  match find_handler name (p_handlers P) with
  | None => (OErr (EHostCrash (s_ "no event handler")), s0)
  | Some h =>
      let m : M unit :=
        let* fr := bind_payload (h_params h) args [] in
        let* _ := exec_block fuel P [fr] (h_body h) in ret tt in
      match m s0 with
      | (Er e, s1) => (OErr e, s1)
      | (Ok _, s1) => (ODone, s1)
      end
  end.

(* ---------- wire format ---------- *)
Definition enc_piece (p : piece) : sx :=
  match p with PStr s => Str s | PNum f => Lst [Sym (s_ "num"); sx_float f] end.

Definition enc_event (e : event) : sx :=
  match e with
  | EvPrint p => Lst (Sym (s_ "print") :: map enc_piece p)
  | EvRead => Lst [Sym (s_ "read")]
  | EvCls => Lst [Sym (s_ "cls")]
  | EvSleep z => Lst [Sym (s_ "sleep"); Int z]
  | EvGfx n nums strs => Lst [Sym (s_ "gfx"); Str n; Lst (map sx_float nums); Lst (map Str strs)]
  end.

Definition enc_panic (k : panic_kind) : sx :=
  match k with
  | PkIndexValue => Sym (s_ "IndexValue") | PkBounds => Sym (s_ "Bounds") | PkRangeValue => Sym (s_ "RangeValue")
  | PkMapKey => Sym (s_ "MapKey") | PkSlice => Sym (s_ "Slice") | PkBadArguments => Sym (s_ "BadArguments")
  | PkBadRepetition => Sym (s_ "BadRepetition") | PkAnyConversion => Sym (s_ "AnyConversion")
  | PkVarNotSet => Sym (s_ "VarNotSet") | PkUser m => Lst [Sym (s_ "user"); Str m]
  end.

Definition enc_err (e : err) : sx :=
  match e with
  | EPanic k => Lst [Sym (s_ "panic"); enc_panic k]
  | EExit z => Lst [Sym (s_ "exit"); Int z]
  | ETestFail => Sym (s_ "testfail")
  | EStopped => Sym (s_ "stopped")
  | EInternal w => Lst [Sym (s_ "internal"); Str w]
  | EHostCrash w => Lst [Sym (s_ "hostcrash"); Str w]
  | EOutOfFuel => Sym (s_ "outoffuel")
  | ENeedOracle w => Lst [Sym (s_ "needoracle"); Str w]
  | EUnsupported w => Lst [Sym (s_ "unsupported"); Str w]
  end.

Definition enc_outcome (o : outcome) : sx :=
  match o with
  | ODone => Sym (s_ "ok")
  | OTestsFailed => Sym (s_ "tests-failed")
  | OErr e => enc_err e
  end.

(* structural dump of the globals with cell identities, in the format of the
   verif hook Evaluator.VerifGlobalsSX: cells are numbered in order of first
   encounter while walking the globals sorted by name *)
Fixpoint insert_sorted (x : str * loc) (l : list (str * loc)) : list (str * loc) :=
  match l with
  | [] => [x]
  | y :: t => if str_ltb (fst x) (fst y) then x :: l else y :: insert_sorted x t
  end.
Definition sort_frame (f : frame) : frame := fold_right insert_sorted [] f.

Fixpoint seen_id (l : loc) (seen : list loc) (n : nat) : option nat :=
  (* seen is newest first; ids are 1-based in order of first encounter *)
  match seen with
  | [] => None
  | x :: t => if Pos.eqb x l then Some (List.length t + 1)%nat else seen_id l t n
  end.

Fixpoint dump (fuel : nat) (h : heap) (l : loc) (seen : list loc) : sx * list loc :=
  match fuel with
  | O => (Sym (s_ "too-deep"), seen)
  | S f =>
      match seen_id l seen 0 with
      | Some id => (Lst [Sym (s_ "ref"); sx_nat id], seen)
      | None =>
          let seen1 := l :: seen in
          let id := sx_nat (List.length seen1) in
          match hget h l with
          | None => (Sym (s_ "nil"), seen)
          | Some (HNum x) => (Lst [id; Sym (s_ "num"); sx_float x], seen1)
          | Some (HStr x) => (Lst [id; Sym (s_ "str"); Str x], seen1)
          | Some (HBool x) => (Lst [id; Sym (s_ "bool"); sx_bool x], seen1)
          | Some (HAny t i) =>
              let '(d, seen2) := dump f h i seen1 in
              (Lst [id; Sym (s_ "any"); Str (ty_str t); d], seen2)
          | Some (HArr els) =>
              let '(ds, seen2) :=
                fold_left (fun acc i => let '(ds, sn) := acc in
                                        let '(d, sn') := dump f h i sn in (ds ++ [d], sn')) els ([], seen1) in
              (Lst (id :: Sym (s_ "arr") :: ds), seen2)
          | Some (HMap m) =>
              let '(ds, seen2) :=
                fold_left (fun acc k => let '(ds, sn) := acc in
                                        match plookup k (pairs m) with
                                        | Some i => let '(d, sn') := dump f h i sn in (ds ++ [Lst [Str k; d]], sn')
                                        | None => (ds ++ [Lst [Str k; Sym (s_ "nil")]], sn)
                                        end) (order m) ([], seen1) in
              (Lst (id :: Sym (s_ "map") :: ds), seen2)
          | Some HNone => (Sym (s_ "none"), seen)
          end
      end
  end.

Definition dump_globals (s : state) : sx :=
  let h := st_heap s in
  let '(ds, _) :=
    fold_left (fun acc nl => let '(ds, sn) := acc in
                             let '(d, sn') := dump value_depth h (snd nl) sn in
                             (ds ++ [Lst [Str (fst nl); d]], sn'))
              (sort_frame (st_globals s)) ([], []) in
  Lst ds.

Definition dec_payload (x : sx) : option payload :=
  match x with
  | Lst [Sym h; Int b] => if str_eqb h sy_num then Some (PvNum (float_of_bits b)) else None
  | Str s => Some (PvStr s)
  | Sym b => if str_eqb b sy_true then Some (PvBool true) else if str_eqb b sy_false then Some (PvBool false) else None
  | _ => None
  end.

Definition dec_event (x : sx) : option (str * list payload) :=
  match x with
  | Lst (Str n :: args) => option_map (pair n) (dec_list dec_payload args)
  | _ => None
  end.

Definition dec_strs (l : list sx) : option (list str) :=
  dec_list (fun x => match x with Str s => Some s | _ => None end) l.

Definition enc_result (o : outcome) (s : state) (from : nat) : sx :=
  (* events emitted since trace length [from] *)
  let evs := rev (firstn (List.length (st_trace s) - from) (st_trace s)) in
  Lst [enc_outcome o; Lst (map enc_event evs); sx_nat (st_yields s); dump_globals s;
       Lst [sx_nat (st_total s); sx_nat (st_fails s)]].

(* (prog (stop k|nil) (input "l"...) failfast after_yield fuel (events (("name" payload...)...)))
   ↦ ((outcome trace yields globals tests) (per-event results...)) *)
Definition sem_case (x : sx) : sx :=
  match x with
  | Lst [p; stop; Lst inp; Sym ff; Sym ay; Int fuel; Lst evs] =>
      match dec_program p, dec_strs inp, dec_list dec_event evs with
      | Some P, Some input, Some events =>
          let stop_at := match stop with Int k => Some (Z.to_nat k) | _ => None end in
          let fl := Z.to_nat fuel in
          let s0 := init_state stop_at input (str_eqb ff sy_true) (str_eqb ay sy_true) in
          let '(o, s1) := run_program fl P s0 in
          let first := enc_result o s1 0 in
          let '(rs, _) :=
            fold_left (fun acc ev =>
                         let '(rs, s) := acc in
                         let '(o', s') := handle_event fl P (fst ev) (snd ev) s in
                         (rs ++ [enc_result o' s' (List.length (st_trace s))], s'))
                      events ([], s1) in
          Lst (first :: rs)
      | _, _, _ => Sym (s_ "decode-error")
      end
  | _ => Sym (s_ "decode-error")
  end.
