(* CompileInitProofs.v — the compile side of definite initialisation of local
   slots: every OpGetLocal the compiler emits reads a slot that an OpSetLocal
   has written on every path.  The certificate is one number per instruction:
   the count of live locals in the compiler's symbol table when the
   instruction was emitted (live locals occupy the slots 0 .. k-1).  A
   declaration compiles its initialiser BEFORE it defines its symbol, so the
   initialiser's reads are below the old count, and the OpSetLocal of the
   declaration raises the count by exactly the slot it writes. *)
From Coq Require Import ZArith NArith List Bool Lia ZifyBool ZifyNat ZifyN Floats.
From EvyV Require Import Base Bytecode BytecodeProofs SymTab SymTabProofs Vm VmProofs Compile CompileSem CompileProofs
     CompileWfProofs CompileStmtProofs CompileJumpProofs CompileHoleProofs CompileSymProofs CompileCtlProofs CompileSemProofs
     CompileLocProofs CompileCoverProofs LocalInit LocalInitProofs.
Require Import EvyV.Gen.Opcodes.
Import ListNotations.
Open Scope N_scope.

(* ====================================================================== *)
(* Part 0: the number of live locals of a symbol table                     *)
(* ====================================================================== *)
Definition kof (s : symtab) : N := match outers s with [] => 0 | _ :: _ => index (cur s) end.

Lemma kof_push s : kof (st_push s) = kof s.
Proof. unfold kof, st_push. cbn [outers cur index]. destruct (outers s); reflexivity. Qed.

(* in a chain of tables every local symbol is below the index of the innermost table *)
Lemma chain_local_below ts : chain_ok ts -> forall n y, resolve_in n ts = Some y -> sscp y = LocalScope ->
  match ts with t :: _ :: _ => sidx y < index t | _ => False end.
Proof.
  induction ts as [|t tl IH]; [simpl; tauto|]. intros HC n y HR HS.
  destruct tl as [|o r].
  - simpl in HC. destruct HC as (_ & B & _). cbn [resolve_in] in HR.
    destruct (slookup n (store t)) as [z|] eqn:E; [|discriminate]. inversion HR; subst z.
    destruct (B n y E) as (_ & S & _). congruence.
  - apply chain_ok_cons in HC; [|discriminate]. destruct HC as [(A & B & _) HC2].
    cbn [resolve_in] in HR. destruct (slookup n (store t)) as [z|] eqn:E.
    + inversion HR; subst z. destruct (B n y E) as (_ & _ & R). lia.
    + specialize (IH HC2 n y HR HS). destruct r as [|o2 r2]; [contradiction|]. cbn [base_of] in A. lia.
Qed.

Lemma kof_resolve s n y : Inv s -> st_resolve n s = Some y -> sscp y = LocalScope -> sidx y < kof s.
Proof.
  intros HI HR HS. unfold Inv in HI. unfold st_resolve in HR.
  pose proof (chain_local_below _ HI n y HR HS) as X. unfold kof. destruct (outers s); [contradiction|exact X].
Qed.

Lemma lbw_kof s : Inv s -> lbw s (kof s).
Proof. intros HI n y HR HS. apply (kof_resolve s n y HI HR HS). Qed.

Lemma kof_pop s : Inv s -> kof (st_pop s) <= kof s.
Proof.
  intro HI. unfold kof, st_pop. destruct (outers s) as [|o r] eqn:E; [rewrite E; lia|]. cbn [outers cur index].
  destruct r as [|o2 r2]; [lia|]. unfold Inv in HI. rewrite E in HI.
  apply chain_ok_cons in HI; [|discriminate]. destruct HI as [(A & _) _]. cbn [base_of] in A. exact A.
Qed.

(* popping a scope that was pushed on s gives the count of s back *)
Lemma kof_pop_push s sb : outers sb = cur s :: outers s -> kof (st_pop sb) = kof s.
Proof. intro E. unfold kof, st_pop. rewrite E. cbn [outers cur index]. destruct (outers s); reflexivity. Qed.

Definition kout (o : opc) (a k : N) : N :=
  match o with SetLocal => if a =? k then k + 1 else k | _ => k end.
Lemma kout_ge o a k : k <= kout o a k.
Proof. unfold kout. destruct o; try lia. destruct (a =? k); lia. Qed.

Lemma kof_define n s : Inv s ->
  kof (fst (st_define n s)) <= kout (setop (snd (st_define n s))) (sidx (snd (st_define n s))) (kof s).
Proof.
  intro HI. unfold st_define. destruct (slookup n (store (cur s))) as [y|] eqn:E; cbn [fst snd].
  - apply kout_ge.
  - unfold kof. cbn [outers cur index]. destruct (outers s) as [|o r]; [lia|].
    unfold setop. cbn [sscp sidx kout]. rewrite N.eqb_refl. lia.
Qed.

Lemma kof_define_mono n s : kof s <= kof (fst (st_define n s)).
Proof.
  unfold st_define. destruct (slookup n (store (cur s))); cbn [fst]; [lia|].
  unfold kof. cbn [outers cur index]. destruct (outers s); lia.
Qed.

(* ====================================================================== *)
(* Part 1: the judgment with one number per instruction, and its soundness *)
(* ====================================================================== *)
(* the condition on the instruction at pc when the slots below k are written *)
Definition ICOND (code : list N) (pc k : N) (OK : N -> N -> Prop) : Prop :=
  exists i rest o, decode1 (skipn (N.to_nat pc) code) = Some (i, rest) /\ opc_of_N (iop i) = Some o /\
    (o = GetLocal -> arg0 i < k) /\
    forall t, In t (lsuccs pc i) -> OK t (kout o (arg0 i) k).

Lemma icond_mono code pc k (OK OK' : N -> N -> Prop) :
  (forall t kk, OK t kk -> OK' t kk) -> ICOND code pc k OK -> ICOND code pc k OK'.
Proof. intros H (i & rest & o & A & B & C & D). exists i, rest, o. repeat split; auto. Qed.

Definition LINITK (code : list N) (K : N -> N -> Prop) : Prop :=
  let cl := N.of_nat (List.length code) in
  (code <> [] -> K 0 0) /\
  forall pc k, K pc k -> pc < cl -> ICOND code pc k (fun t kk => t = cl \/ exists k', K t k' /\ k' <= kk).

(* soundness against the VM model: no WF needed, the judgment itself says
   that every point it annotates decodes *)
Theorem linitk_safe : forall (p : program) K, LINITK (pcode p) K ->
  forall s w, reach_w p s w ->
  forall i, fetch p s = Some i -> ip s < N.of_nat (List.length (pcode p)) ->
            opc_of_N (iop i) = Some GetLocal -> In (arg0 i) w.
Proof.
  intros p K [K0 KS] s w HR.
  set (cl := N.of_nat (List.length (pcode p))) in *.
  assert (INV : ip s = cl \/ exists k, K (ip s) k /\ forall a, a < k -> In a w).
  { induction HR as [|s w s' HR IH Hstep|s w s' HR IH HP].
    - destruct (pcode p) as [|b t] eqn:EC.
      + left. reflexivity.
      + right. exists 0. split; [apply K0; discriminate|intros a Ha; lia].
    - destruct IH as [IH|(k & HK & HW)].
      + exfalso. unfold vm_step in Hstep. unfold cl in IH. rewrite IH, Nat2N.id, skipn_all in Hstep. discriminate.
      + assert (Hlt : ip s < cl).
        { destruct (N.lt_ge_cases (ip s) cl) as [L|L]; [exact L|]. exfalso. unfold vm_step in Hstep.
          rewrite skipn_all2 in Hstep by (unfold cl in L; lia). discriminate. }
        destruct (KS _ _ HK Hlt) as (i & rest & o & HD1 & Ho & _ & HSu).
        pose proof (decode1_opc _ _ _ _ HD1 Ho) as [Hlen Hshape].
        assert (Hf : fetch p s = Some i) by (unfold fetch; rewrite HD1; reflexivity).
        assert (Hin : In (ip s') (lsuccs (ip s) i)).
        { unfold vm_step in Hstep. unfold lsuccs. rewrite Ho.
          destruct (has_operand o) eqn:EH.
          - destruct Hshape as (hi & lo & E & Hargs). rewrite E, Ho, has_operand_vm, EH in Hstep.
            apply exec_ip in Hstep. rewrite Hlen. unfold arg0. rewrite Hargs. cbn [nth].
            destruct Hstep as [[NJ E1]|[[E1|E1] E2]]; [|subst o; left; exact (eq_sym E2)|subst o; right; left; exact (eq_sym E2)].
            rewrite E1. destruct o; try congruence; cbn; auto.
          - destruct Hshape as (E & Hargs). rewrite E, Ho, has_operand_vm, EH in Hstep.
            apply exec_ip in Hstep. rewrite Hlen.
            destruct Hstep as [[NJ E1]|[[E1|E1] E2]]; [|subst o; discriminate EH|subst o; discriminate EH].
            rewrite E1. destruct o; try congruence; try discriminate EH; cbn; auto. }
        destruct (HSu _ Hin) as [E|(k' & HK' & Hle)]; [left; exact E|].
        right. exists k'. split; [exact HK'|]. intros a Ha. unfold wstep. rewrite Hf. unfold lout. rewrite Ho.
        unfold kout in Hle. destruct o; try (apply HW; lia).
        destruct (arg0 i =? k) eqn:EA.
        * apply N.eqb_eq in EA. destruct (N.eq_dec a k) as [->|NE]; [left; exact EA|right; apply HW; lia].
        * right. apply HW. lia.
    - destruct HP as (Hip & _). rewrite Hip. exact IH. }
  intros i Hf Hlt HO. destruct INV as [E|(k & HK & HW)]; [lia|].
  destruct (KS _ _ HK Hlt) as (i' & rest & o & HD1 & Ho & HG & _).
  unfold fetch in Hf. rewrite HD1 in Hf. simpl in Hf. inversion Hf; subst i'.
  rewrite HO in Ho. inversion Ho; subst o. apply HW. apply HG. reflexivity.
Qed.

(* ---------- segments ---------- *)
(* Ks annotates the instructions of code[lo, lo+len); kin at the entry; an
   instruction may leave through the end of the segment (needs kex) or jump
   somewhere else (obligation J) *)
Definition SEGOK (code : list N) (Ks : N -> N -> Prop) (lo len kin kex : N) (J : N -> N -> Prop) : Prop :=
  (forall pc k, Ks pc k -> lo <= pc < lo + len) /\
  (len <> 0 -> Ks lo kin) /\
  forall pc k, Ks pc k ->
    ICOND code pc k (fun t kk => (exists k', Ks t k' /\ k' <= kk) \/ (t = lo + len /\ kex <= kk) \/ J t kk).

Definition KNONE : N -> N -> Prop := fun _ _ => False.
Definition KOR (A B : N -> N -> Prop) : N -> N -> Prop := fun pc k => A pc k \/ B pc k.

Lemma seg_nil code lo k J : SEGOK code KNONE lo 0 k k J.
Proof. split; [intros pc k0 []|]. split; [congruence|intros pc k0 []]. Qed.

Lemma seg_weaken code Ks lo len kin kex kex' (J J' : N -> N -> Prop) :
  kex' <= kex -> (forall t kk, J t kk -> J' t kk) ->
  SEGOK code Ks lo len kin kex J -> SEGOK code Ks lo len kin kex' J'.
Proof.
  intros HK HJ (R1 & R2 & R3). split; [exact R1|]. split; [exact R2|].
  intros pc k H. eapply icond_mono; [|apply (R3 pc k H)]. cbn beta.
  intros t kk [X|[[E L]|X]]; [left; exact X|right; left; split; [exact E|lia]|right; right; apply HJ; exact X].
Qed.

(* discharge jump obligations that land inside the segment or at its end *)
Lemma seg_resolve code Ks lo len kin kex (J J' : N -> N -> Prop) :
  SEGOK code Ks lo len kin kex J ->
  (forall t kk, J t kk -> (exists k', Ks t k' /\ k' <= kk) \/ (t = lo + len /\ kex <= kk) \/ J' t kk) ->
  SEGOK code Ks lo len kin kex J'.
Proof.
  intros (R1 & R2 & R3) HJ. split; [exact R1|]. split; [exact R2|].
  intros pc k H. eapply icond_mono; [|apply (R3 pc k H)]. cbn beta.
  intros t kk [X|[X|X]]; [left; exact X|right; left; exact X|apply HJ; exact X].
Qed.

Lemma seg_seq code K1 K2 lo len1 len2 kin kmid kex J :
  SEGOK code K1 lo len1 kin kmid J -> SEGOK code K2 (lo + len1) len2 kmid kex J ->
  (len1 = 0 -> kmid = kin) -> (len2 = 0 -> kex <= kmid) ->
  SEGOK code (KOR K1 K2) lo (len1 + len2) kin kex J.
Proof.
  intros (A1 & A2 & A3) (B1 & B2 & B3) E1 E2. split; [|split].
  - intros pc k [H|H]; [apply A1 in H|apply B1 in H]; lia.
  - intro NE. destruct (N.eq_dec len1 0) as [Z|NZ].
    + right. rewrite Z, N.add_0_r in B2. rewrite <- (E1 Z). apply B2. lia.
    + left. apply A2. exact NZ.
  - intros pc k [H|H].
    + eapply icond_mono; [|apply (A3 pc k H)]. cbn beta.
      intros t kk [(k' & X & L)|[[E L]|X]].
      * left. exists k'. split; [left; exact X|exact L].
      * destruct (N.eq_dec len2 0) as [Z|NZ].
        -- right. left. split; [lia|]. specialize (E2 Z). lia.
        -- left. exists kmid. split; [right; rewrite E; apply B2; exact NZ|exact L].
      * right. right. exact X.
    + eapply icond_mono; [|apply (B3 pc k H)]. cbn beta.
      intros t kk [(k' & X & L)|[[E L]|X]].
      * left. exists k'. split; [right; exact X|exact L].
      * right. left. split; [lia|exact L].
      * right. right. exact X.
Qed.

(* one instruction *)
Definition KPT (lo kin : N) : N -> N -> Prop := fun pc k => pc = lo /\ k = kin.

Lemma seg_instr code lo kin kex (J : N -> N -> Prop) i rest o :
  decode1 (skipn (N.to_nat lo) code) = Some (i, rest) -> opc_of_N (iop i) = Some o ->
  (o = GetLocal -> arg0 i < kin) ->
  (forall t, In t (lsuccs lo i) -> (t = lo + ilen i /\ kex <= kout o (arg0 i) kin) \/ J t (kout o (arg0 i) kin)) ->
  SEGOK code (KPT lo kin) lo (ilen i) kin kex J.
Proof.
  intros HD Ho HG HS. pose proof (decode1_opc _ _ _ _ HD Ho) as [Hlen _].
  split; [|split].
  - intros pc k [-> ->]. destruct (has_operand o); lia.
  - intros _. split; reflexivity.
  - intros pc k [-> ->]. exists i, rest, o. split; [exact HD|]. split; [exact Ho|]. split; [exact HG|].
    intros t Ht. destruct (HS t Ht) as [X|X]; [right; left; exact X|right; right; exact X].
Qed.

Lemma skipn_pre {A} (pre l : list A) n : n = List.length pre -> skipn n (pre ++ l) = l.
Proof. intros ->. rewrite skipn_app, skipn_all, Nat.sub_diag. reflexivity. Qed.

(* ====================================================================== *)
(* Part 2: single instructions and straight-line pieces                    *)
(* ====================================================================== *)
Lemma decode1_raw3 o hi lo rest : has_operand o = true ->
  decode1 (N_of_opc o :: hi :: lo :: rest) = Some ({| iop := N_of_opc o; iargs := [hi * 256 + lo]; ilen := 3 |}, rest).
Proof. destruct o; try discriminate; reflexivity. Qed.

Lemma decode1_raw1 o rest : has_operand o = false ->
  decode1 (N_of_opc o :: rest) = Some ({| iop := N_of_opc o; iargs := []; ilen := 1 |}, rest).
Proof. destruct o; try discriminate; reflexivity. Qed.

Lemma seg_raw3 code pre post o hi lo kin kex (J : N -> N -> Prop) :
  code = pre ++ [N_of_opc o; hi; lo] ++ post -> has_operand o = true ->
  (o = GetLocal -> hi * 256 + lo < kin) ->
  (o <> Jump -> kex <= kout o (hi * 256 + lo) kin) ->
  (o = Jump \/ o = JumpOnFalse -> J (hi * 256 + lo) kin) ->
  SEGOK code (KPT (N.of_nat (List.length pre)) kin) (N.of_nat (List.length pre)) 3 kin kex J.
Proof.
  intros HC HO HG HN HJ.
  pose proof (seg_instr code (N.of_nat (List.length pre)) kin kex J
                {| iop := N_of_opc o; iargs := [hi * 256 + lo]; ilen := 3 |} post o) as X. cbn [ilen] in X.
  apply X; clear X.
  - rewrite HC, Nat2N.id, skipn_pre by reflexivity. cbn [app]. apply decode1_raw3. exact HO.
  - cbn [iop]. apply opc_of_N_of_opc.
  - exact HG.
  - unfold lsuccs, arg0. cbn [iop iargs ilen nth]. rewrite opc_of_N_of_opc. intros t Ht.
    assert (KJ : kout o (hi * 256 + lo) kin = kin \/ o = SetLocal) by (destruct o; auto).
    destruct o; cbn [In] in Ht;
      try (destruct Ht as [<-|[]]; left; split; [reflexivity|apply HN; discriminate]).
    + (* Jump *) destruct Ht as [<-|[]]. right. apply HJ. left. reflexivity.
    + (* JumpOnFalse *) destruct Ht as [<-|[<-|[]]]; [left; split; [reflexivity|apply HN; discriminate]|right; apply HJ; right; reflexivity].
Qed.

Lemma seg_raw1 code pre post o kin kex (J : N -> N -> Prop) :
  code = pre ++ [N_of_opc o] ++ post -> has_operand o = false -> kex <= kin ->
  SEGOK code (KPT (N.of_nat (List.length pre)) kin) (N.of_nat (List.length pre)) 1 kin kex J.
Proof.
  intros HC HO HK.
  pose proof (seg_instr code (N.of_nat (List.length pre)) kin kex J
                {| iop := N_of_opc o; iargs := []; ilen := 1 |} post o) as X. cbn [ilen] in X.
  apply X; clear X.
  - rewrite HC, Nat2N.id, skipn_pre by reflexivity. cbn [app]. apply decode1_raw1. exact HO.
  - cbn [iop]. apply opc_of_N_of_opc.
  - intro E. subst o. discriminate HO.
  - unfold lsuccs. cbn [iop ilen]. rewrite opc_of_N_of_opc. intros t Ht.
    assert (KJ : forall a, kout o a kin = kin) by (intro a; destruct o; try reflexivity; discriminate HO).
    destruct o; try discriminate HO; cbn [In] in Ht; destruct Ht as [<-|[]]; left; (split; [reflexivity|rewrite KJ; exact HK]).
Qed.

(* straight-line op lists *)
Lemma runs_all_sl nc gc : forall ops k k', runs nc gc ops k = Some k' ->
  Forall (fun x => is_sl (fst x) = true /\ snd x < 65536) ops.
Proof.
  induction ops as [|x t IH]; intros k k' H; [constructor|]. cbn [runs] in H.
  destruct (sop_ok nc gc x k) as [k1|] eqn:E; [|discriminate]. constructor; [|apply (IH _ _ H)].
  unfold sop_ok in E. destruct x as [o a]. cbn [fst snd].
  destruct (is_sl o); [|discriminate]. cbn [negb] in E. destruct (a <? 65536) eqn:EA; [|discriminate].
  apply N.ltb_lt in EA. auto.
Qed.

Lemma seg_ops code kin (J : N -> N -> Prop) : forall ops pre post,
  code = pre ++ encode ops ++ post ->
  Forall (fun x => is_sl (fst x) = true /\ snd x < 65536) ops -> Forall (lopk kin) ops ->
  exists Ks, SEGOK code Ks (N.of_nat (List.length pre)) (N.of_nat (List.length (encode ops))) kin kin J.
Proof.
  induction ops as [|x t IH]; intros pre post HC HS HL.
  - exists KNONE. apply seg_nil.
  - destruct (Forall_inv HS) as [SL LT]. pose proof (Forall_inv_tail HS) as HS'.
    pose proof (Forall_inv HL) as LK. pose proof (Forall_inv_tail HL) as HL'.
    change (encode (x :: t)) with (enc1 x ++ encode t) in *. rewrite <- app_assoc in HC.
    destruct (decode1_enc1' x (encode t ++ post) LT) as [HD HLen].
    destruct (IH (pre ++ enc1 x) post) as (K2 & S2); [rewrite HC, <- app_assoc; reflexivity|exact HS'|exact HL'|].
    exists (KOR (KPT (N.of_nat (List.length pre)) kin) K2).
    rewrite app_length, Nat2N.inj_add.
    eapply seg_seq with (kmid := kin); [| |intros Z; reflexivity|intros _; lia].
    + rewrite HLen.
      replace (ilen_of x) with (ilen (instr_of x)) by reflexivity.
      eapply (seg_instr code _ kin kin J (instr_of x) (encode t ++ post) (fst x)).
      * rewrite HC, Nat2N.id, skipn_pre by reflexivity. exact HD.
      * unfold instr_of. cbn [iop]. apply opc_of_N_of_opc.
      * intro E. unfold lopk in LK. unfold arg0, instr_of. cbn [iargs]. rewrite E in *. cbn [has_operand nth]. apply LK. reflexivity.
      * unfold lsuccs. unfold instr_of at 1. cbn [iop]. rewrite opc_of_N_of_opc. intros tt Ht.
        destruct (fst x); try discriminate SL; cbn [In] in Ht; destruct Ht as [<-|[]]; left; (split; [reflexivity|apply kout_ge]).
    + rewrite app_length, Nat2N.inj_add, HLen in S2. rewrite HLen. exact S2.
Qed.

(* an expression of the fragment *)
Lemma gbw_root s : Inv s -> gbw s (rootcount s).
Proof. intros HI n y HR HS. apply (resolve_global_below s n y HI HR HS). Qed.

Lemma seg_expr code e st st1 seg_e pre post (J : N -> N -> Prop) :
  efrag e = true -> compile_expr true e st = COk st1 -> ccode st1 = ccode st ++ seg_e -> Inv (csym st) ->
  code = pre ++ seg_e ++ post ->
  csym st1 = csym st /\ seg_e <> [] /\
  exists Ks, SEGOK code Ks (N.of_nat (List.length pre)) (N.of_nat (List.length seg_e)) (kof (csym st)) (kof (csym st)) J.
Proof.
  intros HF HC HE HI HCode.
  destruct (efrag_sl2 e HF st st1 HC) as (A & ops & newc & B & C & D & L).
  rewrite B in HE. apply app_inv_head in HE. subst seg_e.
  pose proof (D (N.of_nat (List.length (cconsts st1))) (rootcount (csym st)) 0 (N.le_refl _) (gbw_root _ HI)) as R0.
  split; [exact A|]. split.
  - intro E. assert (ops = []) by (destruct ops as [|x t]; [reflexivity|];
      exfalso; change (encode (x :: t)) with (enc1 x ++ encode t) in E; apply app_eq_nil in E; destruct E as [E _];
      pose proof (runs_all_sl _ _ _ _ _ R0) as F; inversion F as [|? ? [_ LT] _]; subst;
      destruct (decode1_enc1' x [] LT) as [_ HL]; rewrite E in HL; unfold ilen_of in HL; simpl in HL; destruct (has_operand (fst x)); discriminate).
    subst ops. cbn [runs] in R0. inversion R0.
  - apply (seg_ops code (kof (csym st)) J ops pre post HCode (runs_all_sl _ _ _ _ _ R0)). apply L. apply lbw_kof. exact HI.
Qed.

(* ====================================================================== *)
(* Part 3: the layout of compiled statements is certified                  *)
(* ====================================================================== *)
(* break jumps of the innermost loop go to T; the loop's count there is kb *)
Definition JB (T kb : N) : N -> N -> Prop := fun t kk => t = T /\ kb <= kk.

Definition PSEG (st st' : cstate) (seg : list N) (J : N -> N -> N -> N -> Prop) : Prop :=
  forall code pre post T kb,
    code = pre ++ seg ++ post -> N.of_nat (List.length pre) = N.of_nat (List.length (ccode st)) ->
    Inv (csym st) -> kb <= kof (csym st) ->
    kof (csym st) <= kof (csym st') /\ (seg = [] -> kof (csym st') = kof (csym st)) /\
    exists Ks, SEGOK code Ks (N.of_nat (List.length pre)) (N.of_nat (List.length seg))
                     (kof (csym st)) (kof (csym st')) (J T kb).

Definition P_LY (brk : option N) (s : stmt) (st st' : cstate) (bs : list Z) (seg : list N) : Prop :=
  forall T0, brk = Some T0 -> PSEG st st' seg (fun T kb => JB T0 kb).
Definition P_LYL (brk : option N) (l : slist) (st st' : cstate) (bs : list Z) (seg : list N) : Prop :=
  forall T0, brk = Some T0 -> PSEG st st' seg (fun T kb => JB T0 kb).

Ltac lens := rewrite ?app_length, ?Nat2N.inj_add in *; cbn [List.length] in *.

(* e, then the store into a variable (declaration or assignment) *)
Lemma seg_expr_set code e st st1 seg_e pre post o a sg kex (J : N -> N -> Prop) :
  efrag e = true -> compile_expr true e st = COk st1 -> ccode st1 = ccode st ++ seg_e -> Inv (csym st) ->
  code = pre ++ (seg_e ++ sg) ++ post -> jbytes o a sg -> has_operand o = true -> o <> GetLocal -> o <> Jump -> o <> JumpOnFalse ->
  kex <= kout o a (kof (csym st)) ->
  exists Ks, SEGOK code Ks (N.of_nat (List.length pre)) (N.of_nat (List.length (seg_e ++ sg))) (kof (csym st)) kex J.
Proof.
  intros HF HC HE HI HCode (hi & lo & -> & ET) HO NG NJ NF HK.
  destruct (seg_expr code e st st1 seg_e pre ([N_of_opc o; hi; lo] ++ post) J HF HC HE HI) as (_ & NE & K1 & S1);
    [rewrite HCode, <- !app_assoc; reflexivity|].
  exists (KOR K1 (KPT (N.of_nat (List.length pre) + N.of_nat (List.length seg_e)) (kof (csym st)))).
  replace (N.of_nat (List.length (seg_e ++ [N_of_opc o; hi; lo]))) with (N.of_nat (List.length seg_e) + 3) by (lens; lia).
  eapply seg_seq; [exact S1| |intros _; reflexivity|intro Z; discriminate Z].
  replace (N.of_nat (List.length pre) + N.of_nat (List.length seg_e)) with (N.of_nat (List.length (pre ++ seg_e))) by (lens; lia).
  apply (seg_raw3 code (pre ++ seg_e) post o hi lo); [rewrite HCode, <- !app_assoc; reflexivity|exact HO| | |].
  - intro E. congruence.
  - intros _. rewrite ET. exact HK.
  - intros [E|E]; congruence.
Qed.

Lemma setop_facts y : has_operand (setop y) = true /\ setop y <> GetLocal /\ setop y <> Jump /\ setop y <> JumpOnFalse.
Proof. unfold setop. destruct (sscp y); repeat split; discriminate. Qed.

Lemma p_decl brk n e st st1 st' seg_e sg :
  efrag e = true -> compile_expr true e st = COk st1 -> ccode st1 = ccode st ++ seg_e ->
  jbytes (setop (snd (st_define n (csym st)))) (sidx (snd (st_define n (csym st)))) sg ->
  csym st' = fst (st_define n (csym st)) ->
  P_LY brk (SDecl n e) st st' [] (seg_e ++ sg).
Proof.
  intros HF HC HE HJ HS T0 _ code pre post T kb HCode HL HI HK.
  rewrite HS. split; [apply kof_define_mono|]. split.
  - intro E. destruct HJ as (hi & lo & -> & _). apply app_eq_nil in E. destruct E as [_ E]. discriminate E.
  - destruct (setop_facts (snd (st_define n (csym st)))) as (A & B & C & D).
    apply (seg_expr_set code e st st1 seg_e pre post _ _ sg _ _ HF HC HE HI HCode HJ A B C D). apply kof_define. exact HI.
Qed.

Lemma p_assign brk n e st st1 st' y seg_e sg :
  efrag e = true -> compile_expr true e st = COk st1 -> ccode st1 = ccode st ++ seg_e ->
  jbytes (setop y) (sidx y) sg -> csym st' = csym st ->
  P_LY brk (SAssign (EVar n) e) st st' [] (seg_e ++ sg).
Proof.
  intros HF HC HE HJ HS T0 _ code pre post T kb HCode HL HI HK.
  rewrite HS. split; [lia|]. split; [reflexivity|].
  destruct (setop_facts y) as (A & B & C & D).
  apply (seg_expr_set code e st st1 seg_e pre post _ _ sg _ _ HF HC HE HI HCode HJ A B C D). apply kout_ge.
Qed.

Lemma p_break T0 st st' jb :
  jbytes Jump T0 jb -> csym st' = csym st ->
  PSEG st st' jb (fun T kb => JB T0 kb).
Proof.
  intros (hi & lo & -> & ET) HS code pre post T kb HCode HL HI HK.
  rewrite HS. split; [lia|]. split; [discriminate|].
  exists (KPT (N.of_nat (List.length pre)) (kof (csym st))).
  apply (seg_raw3 code pre post Jump hi lo); [exact HCode|reflexivity|discriminate|congruence|].
  intros _. rewrite ET. split; [reflexivity|exact HK].
Qed.

Lemma nlen0 {A} (l : list A) : N.of_nat (List.length l) = 0 -> l = [].
Proof. destruct l; [reflexivity|simpl; lia]. Qed.

Lemma p_lyl_nil st J : PSEG st st [] J.
Proof.
  intros code pre post T kb _ _ _ _. split; [lia|]. split; [reflexivity|]. exists KNONE. apply seg_nil.
Qed.

Lemma pseg_seq st st1 st2 seg1 seg2 J :
  PSEG st st1 seg1 J -> PSEG st1 st2 seg2 J ->
  N.of_nat (List.length (ccode st1)) = N.of_nat (List.length (ccode st)) + N.of_nat (List.length seg1) ->
  (Inv (csym st) -> Inv (csym st1)) ->
  PSEG st st2 (seg1 ++ seg2) J.
Proof.
  intros P1 P2 HLen HInv code pre post T kb HCode HL HI HK.
  destruct (P1 code pre (seg2 ++ post) T kb) as (M1 & E1 & K1 & S1); [rewrite HCode, <- !app_assoc; reflexivity|exact HL|exact HI|exact HK|].
  destruct (P2 code (pre ++ seg1) post T kb) as (M2 & E2 & K2 & S2);
    [rewrite HCode, <- !app_assoc; reflexivity|lens; lia|apply HInv; exact HI|lia|].
  split; [lia|]. split.
  - intro E. apply app_eq_nil in E. destruct E as [Ea Eb]. rewrite (E2 Eb), (E1 Ea). reflexivity.
  - exists (KOR K1 K2). rewrite (app_length seg1), Nat2N.inj_add.
    eapply seg_seq; [exact S1| | |].
    + replace (N.of_nat (List.length pre) + N.of_nat (List.length seg1)) with (N.of_nat (List.length (pre ++ seg1))) by (lens; lia). exact S2.
    + intro Z. apply nlen0 in Z. apply (E1 Z).
    + intro Z. apply nlen0 in Z. rewrite (E2 Z). lia.
Qed.

(* a block: the body in a pushed scope, popped afterwards *)
Lemma kof_block st stx stb st' :
  csym stx = st_push (csym st) -> outers (csym stb) = outers (csym stx) -> csym st' = st_pop (csym stb) ->
  kof (csym st') = kof (csym st).
Proof.
  intros HX HO HP. rewrite HP. apply kof_pop_push. rewrite HO, HX. reflexivity.
Qed.

Lemma p_while brk c b st st1 stx stb st' bs_b seg_c seg_b jf jb :
  efrag c = true -> compile_expr true c st = COk st1 -> ccode st1 = ccode st ++ seg_c ->
  csym stx = st_push (csym st) ->
  N.of_nat (List.length (ccode stx)) = N.of_nat (List.length (ccode st1)) + 3 ->
  LYL (Some (N.of_nat (List.length (ccode st)) + N.of_nat (List.length (seg_c ++ jf ++ seg_b ++ jb)))) b stx stb bs_b seg_b ->
  P_LYL (Some (N.of_nat (List.length (ccode st)) + N.of_nat (List.length (seg_c ++ jf ++ seg_b ++ jb)))) b stx stb bs_b seg_b ->
  jbytes JumpOnFalse (N.of_nat (List.length (ccode st)) + N.of_nat (List.length (seg_c ++ jf ++ seg_b ++ jb))) jf ->
  jbytes Jump (N.of_nat (List.length (ccode st))) jb ->
  csym st' = st_pop (csym stb) ->
  P_LY brk (SWhile c b) st st' [] (seg_c ++ jf ++ seg_b ++ jb).
Proof.
  intros HF HC HE HX HLx HB PB (h1 & l1 & -> & ET1) (h2 & l2 & -> & ET2) HP T0 _ code pre post T kb HCode HL HI HK.
  set (k := kof (csym st)). set (lo := N.of_nat (List.length pre)) in *.
  set (Tend := N.of_nat (List.length (ccode st)) + N.of_nat (List.length (seg_c ++ [N_of_opc JumpOnFalse; h1; l1] ++ seg_b ++ [N_of_opc Jump; h2; l2]))) in *.
  assert (HTend : Tend = lo + N.of_nat (List.length (seg_c ++ [N_of_opc JumpOnFalse; h1; l1] ++ seg_b ++ [N_of_opc Jump; h2; l2]))) by (unfold Tend, lo; lia).
  destruct (proj1 (proj2 ly_frame) (Some Tend) b stx stb bs_b seg_b HB) as [_ SYb].
  assert (HK' : kof (csym st') = k) by (apply (kof_block st stx stb st' HX (sy_out _ _ SYb) HP)).
  rewrite HK'. split; [lia|]. split; [intro E; apply app_eq_nil in E; destruct E as [_ E]; discriminate E|].
  pose (J0 := fun t kk => (t = Tend /\ k <= kk) \/ (t = lo /\ k <= kk)).
  (* the condition *)
  destruct (seg_expr code c st st1 seg_c pre (([N_of_opc JumpOnFalse; h1; l1] ++ seg_b ++ [N_of_opc Jump; h2; l2]) ++ post) J0 HF HC HE HI) as (SC & NE & K1 & S1);
    [rewrite HCode, <- !app_assoc; reflexivity|].
  (* the exit jump *)
  assert (S2 : SEGOK code (KPT (N.of_nat (List.length (pre ++ seg_c))) k) (N.of_nat (List.length (pre ++ seg_c))) 3 k k J0).
  { apply (seg_raw3 code (pre ++ seg_c) (seg_b ++ [N_of_opc Jump; h2; l2] ++ post) JumpOnFalse h1 l1);
      [rewrite HCode, <- !app_assoc; reflexivity|reflexivity|discriminate|intros _; cbn; lia|].
    intros _. rewrite ET1. left. split; [reflexivity|lia]. }
  (* the body *)
  assert (HIx : Inv (csym stx)) by (rewrite HX; apply inv_push; exact HI).
  assert (Hkx : kof (csym stx) = k) by (rewrite HX; apply kof_push).
  destruct (PB Tend eq_refl code (pre ++ seg_c ++ [N_of_opc JumpOnFalse; h1; l1]) ([N_of_opc Jump; h2; l2] ++ post) Tend k) as (M3 & E3 & K3 & S3);
    [rewrite HCode, <- !app_assoc; reflexivity|rewrite HLx, HE; lens; lia|exact HIx|lia|].
  rewrite Hkx in *.
  assert (S3' : SEGOK code K3 (N.of_nat (List.length (pre ++ seg_c ++ [N_of_opc JumpOnFalse; h1; l1]))) (N.of_nat (List.length seg_b)) k (kof (csym stb)) J0).
  { eapply seg_weaken; [apply N.le_refl| |exact S3]. intros t kk [E L]. left. split; [exact E|exact L]. }
  (* the jump back *)
  assert (S4 : SEGOK code (KPT (N.of_nat (List.length (pre ++ seg_c ++ [N_of_opc JumpOnFalse; h1; l1] ++ seg_b))) (kof (csym stb)))
                     (N.of_nat (List.length (pre ++ seg_c ++ [N_of_opc JumpOnFalse; h1; l1] ++ seg_b))) 3 (kof (csym stb)) k J0).
  { apply (seg_raw3 code (pre ++ seg_c ++ [N_of_opc JumpOnFalse; h1; l1] ++ seg_b) post Jump h2 l2);
      [rewrite HCode, <- !app_assoc; reflexivity|reflexivity|discriminate|congruence|].
    intros _. rewrite ET2. right. split; [unfold lo; lia|lia]. }
  (* together *)
  set (Lc := N.of_nat (List.length seg_c)) in *. set (Lb := N.of_nat (List.length seg_b)) in *.
  replace (N.of_nat (List.length (pre ++ seg_c))) with (lo + Lc) in S2 by (unfold lo, Lc; lens; lia).
  replace (N.of_nat (List.length (pre ++ seg_c ++ [N_of_opc JumpOnFalse; h1; l1]))) with (lo + (Lc + 3)) in S3' by (unfold lo, Lc; lens; lia).
  replace (N.of_nat (List.length (pre ++ seg_c ++ [N_of_opc JumpOnFalse; h1; l1] ++ seg_b))) with (lo + (Lc + 3 + Lb)) in S4 by (unfold lo, Lc, Lb; lens; lia).
  assert (Q1 : SEGOK code (KOR K1 (KPT (lo + Lc) k)) lo (Lc + 3) k k J0)
    by (eapply seg_seq; [exact S1|exact S2|intros _; reflexivity|intro Z; discriminate Z]).
  assert (Q2 : SEGOK code (KOR (KOR K1 (KPT (lo + Lc) k)) K3) lo (Lc + 3 + Lb) k (kof (csym stb)) J0)
    by (eapply seg_seq; [exact Q1|exact S3'|intros _; reflexivity|intro Z; apply nlen0 in Z; rewrite (E3 Z); lia]).
  assert (Q3 : SEGOK code (KOR (KOR (KOR K1 (KPT (lo + Lc) k)) K3) (KPT (lo + (Lc + 3 + Lb)) (kof (csym stb)))) lo (Lc + 3 + Lb + 3) k k J0)
    by (eapply seg_seq; [exact Q2|exact S4|intro Z; lia|intro Z; discriminate Z]).
  eexists.
  replace (N.of_nat (List.length (seg_c ++ [N_of_opc JumpOnFalse; h1; l1] ++ seg_b ++ [N_of_opc Jump; h2; l2])))
    with (Lc + 3 + Lb + 3) by (unfold Lc, Lb; lens; lia).
  eapply seg_resolve; [exact Q3|].
  intros t kk [[E L]|[E L]].
  - right. left. split; [rewrite E, HTend; unfold Lc, Lb; lens; lia|exact L].
  - left. exists k. split; [|exact L]. rewrite E.
    destruct Q3 as (_ & R2 & _). apply R2. lia.
Qed.

(* ---------- pieces as PSEG, so that they chain with pseg_seq ---------- *)
Lemma pseg_expr e st st1 seg_e J :
  efrag e = true -> compile_expr true e st = COk st1 -> ccode st1 = ccode st ++ seg_e -> PSEG st st1 seg_e J.
Proof.
  intros HF HC HE code pre post T kb HCode HL HI HK.
  destruct (seg_expr code e st st1 seg_e pre post (J T kb) HF HC HE HI HCode) as (A & _ & Ks & S).
  rewrite A. split; [lia|]. split; [reflexivity|]. exists Ks. exact S.
Qed.

Lemma pseg_const k0 s1 s2 segk J :
  emit_const true k0 s1 = COk s2 -> ccode s2 = ccode s1 ++ segk -> PSEG s1 s2 segk J.
Proof.
  intros HC HE code pre post T kb HCode HL HI HK.
  destruct (const_sl _ _ _ HC) as (R0 & A & B & _). rewrite B in HE. apply app_inv_head in HE. subst segk.
  rewrite A. split; [lia|]. split; [reflexivity|].
  apply (seg_ops code (kof (csym s1)) (J T kb) _ pre post HCode).
  - constructor; [cbn [fst snd]; split; [reflexivity|exact R0]|constructor].
  - constructor; [apply lopk_nonlocal; reflexivity|constructor].
Qed.

Lemma pseg_weaken st st' seg (J J' : N -> N -> N -> N -> Prop) :
  (forall T kb t kk, J T kb t kk -> J' T kb t kk) -> PSEG st st' seg J -> PSEG st st' seg J'.
Proof.
  intros HJ P code pre post T kb HCode HL HI HK. destruct (P code pre post T kb HCode HL HI HK) as (M & E & Ks & S).
  split; [exact M|]. split; [exact E|]. exists Ks. eapply seg_weaken; [apply N.le_refl|apply HJ|exact S].
Qed.

(* the prologue of a for loop *)
Lemma p_lvpro lv s3 sa segp lvi J : LVPRO lv s3 sa segp lvi -> PSEG s3 sa segp J.
Proof.
  unfold LVPRO. destruct lv as [n|].
  - intros (sg & HJ & -> & HCo & _ & HS & _) code pre post T kb HCode HL HI HK.
    rewrite HS. split; [apply kof_define_mono|]. split; [discriminate|].
    destruct (setop_facts (snd (st_define n (csym s3)))) as (A & B & C & D).
    destruct HJ as (hi & lo & -> & ET).
    exists (KOR (KPT (N.of_nat (List.length pre)) (kof (csym s3))) (KPT (N.of_nat (List.length pre) + 1) (kof (csym s3)))).
    change (N.of_nat (List.length ([N_of_opc ONone] ++ [N_of_opc (setop (snd (st_define n (csym s3)))); hi; lo]))) with (1 + 3).
    eapply seg_seq with (kmid := kof (csym s3)); [| |intros _; reflexivity|intro Z; discriminate Z].
    + apply (seg_raw1 code pre ([N_of_opc (setop (snd (st_define n (csym s3)))); hi; lo] ++ post) ONone);
        [rewrite HCode, <- !app_assoc; reflexivity|reflexivity|lia].
    + replace (N.of_nat (List.length pre) + 1) with (N.of_nat (List.length (pre ++ [N_of_opc ONone]))) by (lens; lia).
      apply (seg_raw3 code (pre ++ [N_of_opc ONone]) post (setop (snd (st_define n (csym s3)))) hi lo); [rewrite HCode, <- !app_assoc; reflexivity|exact A| | |].
      * intro E. congruence.
      * intros _. rewrite ET. apply kof_define. exact HI.
      * intros [E|E]; congruence.
  - intros (_ & _ & HS & -> & _) code pre post T kb HCode HL HI HK. rewrite HS.
    split; [lia|]. split; [reflexivity|]. exists KNONE. apply seg_nil.
Qed.

Lemma lvpro_inv lv s3 sa segp lvi : LVPRO lv s3 sa segp lvi -> Inv (csym s3) -> Inv (csym sa).
Proof. intros H HI. destruct (lvpro_frame _ _ _ _ _ H) as (_ & SYp & _). apply (sy_inv _ _ SYp HI). Qed.

(* the loop itself: range instruction, exit jump, store of the loop variable, body, jump back, OpDrop *)
Lemma p_lyr rop S lvi b s3 stx stb st' bs_b seg_b jf jb sgv J :
  (rop = StepRange \/ rop = IterRange) ->
  lvstore lvi (csym s3) sgv -> csym stx = st_push (csym s3) ->
  N.of_nat (List.length (ccode stx)) = N.of_nat (List.length (ccode s3)) + 6 + N.of_nat (List.length sgv) ->
  LYL (Some (N.of_nat (List.length (ccode s3)) + N.of_nat (List.length ([N_of_opc rop; 0; hvof lvi] ++ jf ++ sgv ++ seg_b ++ jb)))) b stx stb bs_b seg_b ->
  P_LYL (Some (N.of_nat (List.length (ccode s3)) + N.of_nat (List.length ([N_of_opc rop; 0; hvof lvi] ++ jf ++ sgv ++ seg_b ++ jb)))) b stx stb bs_b seg_b ->
  jbytes JumpOnFalse (N.of_nat (List.length (ccode s3)) + N.of_nat (List.length ([N_of_opc rop; 0; hvof lvi] ++ jf ++ sgv ++ seg_b ++ jb))) jf ->
  jbytes Jump (N.of_nat (List.length (ccode s3))) jb ->
  csym st' = st_pop (csym stb) ->
  PSEG s3 st' ([N_of_opc rop; 0; hvof lvi] ++ jf ++ sgv ++ seg_b ++ jb ++ [N_of_opc Drop; 0; S]) J.
Proof.
  intros HR HV HX HLx HB PB (h1 & l1 & -> & ET1) (h2 & l2 & -> & ET2) HP code pre post T kb HCode HL HI HK.
  set (k := kof (csym s3)). set (lo := N.of_nat (List.length pre)) in *.
  set (RO := [N_of_opc rop; 0; hvof lvi]) in *. set (JF := [N_of_opc JumpOnFalse; h1; l1]) in *. set (JBk := [N_of_opc Jump; h2; l2]) in *.
  set (Td := N.of_nat (List.length (ccode s3)) + N.of_nat (List.length (RO ++ JF ++ sgv ++ seg_b ++ JBk))) in *.
  set (Lv := N.of_nat (List.length sgv)) in *. set (Lb := N.of_nat (List.length seg_b)) in *.
  assert (HTd : Td = lo + (3 + 3 + Lv + Lb + 3)) by (unfold Td, lo, Lv, Lb, RO, JF, JBk; lens; lia).
  destruct (proj1 (proj2 ly_frame) (Some Td) b stx stb bs_b seg_b HB) as [_ SYb].
  assert (HK' : kof (csym st') = k) by (apply (kof_block s3 stx stb st' HX (sy_out _ _ SYb) HP)).
  rewrite HK'. split; [lia|]. split; [intro E; discriminate E|].
  pose (J0 := fun t kk => (t = Td /\ k <= kk) \/ (t = lo /\ k <= kk)).
  assert (HO : has_operand rop = true /\ rop <> GetLocal /\ rop <> Jump /\ rop <> JumpOnFalse /\ forall a, kout rop a k = k)
    by (destruct HR; subst rop; repeat split; discriminate).
  destruct HO as (O1 & O2 & O3 & O4 & O5).
  (* range instruction *)
  assert (S1 : SEGOK code (KPT lo k) lo 3 k k J0).
  { apply (seg_raw3 code pre (JF ++ sgv ++ seg_b ++ JBk ++ [N_of_opc Drop; 0; S] ++ post) rop 0 (hvof lvi));
      [rewrite HCode; unfold RO; rewrite <- !app_assoc; reflexivity|exact O1|intro E; congruence|intros _; rewrite O5; lia|intros [E|E]; congruence]. }
  (* exit jump *)
  assert (S2 : SEGOK code (KPT (lo + 3) k) (lo + 3) 3 k k J0).
  { replace (lo + 3) with (N.of_nat (List.length (pre ++ RO))) by (unfold lo, RO; lens; lia).
    apply (seg_raw3 code (pre ++ RO) (sgv ++ seg_b ++ JBk ++ [N_of_opc Drop; 0; S] ++ post) JumpOnFalse h1 l1);
      [rewrite HCode; unfold JF; rewrite <- !app_assoc; reflexivity|reflexivity|discriminate|intros _; cbn; lia|].
    intros _. rewrite ET1. left. split; [reflexivity|lia]. }
  (* store of the loop variable *)
  assert (S3 : exists K3, SEGOK code K3 (lo + (3 + 3)) Lv k k J0).
  { unfold lvstore in HV. destruct lvi as [[n y]|].
    - destruct HV as [(hi & l0 & E & ET) _]. destruct (setop_facts y) as (A & B & C & D).
      exists (KPT (lo + (3 + 3)) k). unfold Lv. rewrite E. change (N.of_nat (List.length [N_of_opc (setop y); hi; l0])) with 3.
      replace (lo + (3 + 3)) with (N.of_nat (List.length (pre ++ RO ++ JF))) by (unfold lo, RO, JF; lens; lia).
      apply (seg_raw3 code (pre ++ RO ++ JF) (seg_b ++ JBk ++ [N_of_opc Drop; 0; S] ++ post) (setop y) hi l0);
        [rewrite HCode, E; rewrite <- !app_assoc; reflexivity|exact A|intro X; congruence|intros _; apply kout_ge|intros [X|X]; congruence].
    - exists KNONE. unfold Lv. rewrite HV. apply seg_nil. }
  destruct S3 as (K3 & S3).
  (* body *)
  assert (HIx : Inv (csym stx)) by (rewrite HX; apply inv_push; exact HI).
  assert (Hkx : kof (csym stx) = k) by (rewrite HX; apply kof_push).
  destruct (PB Td eq_refl code (pre ++ RO ++ JF ++ sgv) (JBk ++ [N_of_opc Drop; 0; S] ++ post) Td k) as (M4 & E4 & K4 & S4);
    [rewrite HCode, <- !app_assoc; reflexivity|rewrite HLx; unfold RO, JF; lens; lia|exact HIx|lia|].
  rewrite Hkx in *.
  assert (S4' : SEGOK code K4 (lo + (3 + 3 + Lv)) Lb k (kof (csym stb)) J0).
  { replace (lo + (3 + 3 + Lv)) with (N.of_nat (List.length (pre ++ RO ++ JF ++ sgv))) by (unfold lo, Lv, RO, JF; lens; lia).
    eapply seg_weaken; [apply N.le_refl| |exact S4]. intros t kk [E L]. left. split; [exact E|exact L]. }
  (* jump back *)
  assert (S5 : SEGOK code (KPT (lo + (3 + 3 + Lv + Lb)) (kof (csym stb))) (lo + (3 + 3 + Lv + Lb)) 3 (kof (csym stb)) k J0).
  { replace (lo + (3 + 3 + Lv + Lb)) with (N.of_nat (List.length (pre ++ RO ++ JF ++ sgv ++ seg_b))) by (unfold lo, Lv, Lb, RO, JF; lens; lia).
    apply (seg_raw3 code (pre ++ RO ++ JF ++ sgv ++ seg_b) ([N_of_opc Drop; 0; S] ++ post) Jump h2 l2);
      [rewrite HCode; unfold JBk; rewrite <- !app_assoc; reflexivity|reflexivity|discriminate|congruence|].
    intros _. rewrite ET2. right. split; [unfold lo; lia|lia]. }
  (* OpDrop *)
  assert (S6 : SEGOK code (KPT (lo + (3 + 3 + Lv + Lb + 3)) k) (lo + (3 + 3 + Lv + Lb + 3)) 3 k k J0).
  { replace (lo + (3 + 3 + Lv + Lb + 3)) with (N.of_nat (List.length (pre ++ RO ++ JF ++ sgv ++ seg_b ++ JBk))) by (unfold lo, Lv, Lb, RO, JF, JBk; lens; lia).
    apply (seg_raw3 code (pre ++ RO ++ JF ++ sgv ++ seg_b ++ JBk) post Drop 0 S);
      [rewrite HCode, <- !app_assoc; reflexivity|reflexivity|discriminate|intros _; cbn; lia|intros [E|E]; discriminate E]. }
  assert (Q1 : SEGOK code (KOR (KPT lo k) (KPT (lo + 3) k)) lo (3 + 3) k k J0)
    by (eapply seg_seq; [exact S1|exact S2|intros _; reflexivity|intro Z; discriminate Z]).
  assert (Q2 : SEGOK code (KOR (KOR (KPT lo k) (KPT (lo + 3) k)) K3) lo (3 + 3 + Lv) k k J0)
    by (eapply seg_seq; [exact Q1|exact S3|intros _; reflexivity|intros _; lia]).
  assert (Q3 : SEGOK code (KOR (KOR (KOR (KPT lo k) (KPT (lo + 3) k)) K3) K4) lo (3 + 3 + Lv + Lb) k (kof (csym stb)) J0)
    by (eapply seg_seq; [exact Q2|exact S4'|intros _; reflexivity|intro Z; apply nlen0 in Z; rewrite (E4 Z); lia]).
  assert (Q4 : SEGOK code (KOR (KOR (KOR (KOR (KPT lo k) (KPT (lo + 3) k)) K3) K4) (KPT (lo + (3 + 3 + Lv + Lb)) (kof (csym stb)))) lo (3 + 3 + Lv + Lb + 3) k k J0)
    by (eapply seg_seq; [exact Q3|exact S5|intro Z; lia|intro Z; discriminate Z]).
  assert (Q5 : SEGOK code (KOR (KOR (KOR (KOR (KOR (KPT lo k) (KPT (lo + 3) k)) K3) K4) (KPT (lo + (3 + 3 + Lv + Lb)) (kof (csym stb)))) (KPT (lo + (3 + 3 + Lv + Lb + 3)) k)) lo (3 + 3 + Lv + Lb + 3 + 3) k k J0)
    by (eapply seg_seq; [exact Q4|exact S6|intro Z; lia|intro Z; discriminate Z]).
  eexists.
  replace (N.of_nat (List.length (RO ++ JF ++ sgv ++ seg_b ++ JBk ++ [N_of_opc Drop; 0; S]))) with (3 + 3 + Lv + Lb + 3 + 3)
    by (unfold Lv, Lb, RO, JF, JBk; lens; lia).
  eapply seg_resolve; [exact Q5|].
  intros t kk [[E L]|[E L]].
  - left. exists k. split; [|exact L]. right. split; [rewrite E, HTd; reflexivity|reflexivity].
  - left. exists k. split; [|exact L]. rewrite E. destruct Q5 as (_ & R2 & _). apply R2. lia.
Qed.

(* ---------- if / else-if / else chains ---------- *)
Definition P_LYC (brk : option N) (fin : bool) (l : clist) (els : oslist) (st st' : cstate) (End : N)
                 (js bs : list Z) (seg : list N) : Prop :=
  fin = true -> forall T0, brk = Some T0 ->
  forall code pre post kb,
    code = pre ++ seg ++ post -> N.of_nat (List.length pre) = N.of_nat (List.length (ccode st)) ->
    Inv (csym st) -> kb <= kof (csym st) ->
    End = N.of_nat (List.length pre) + N.of_nat (List.length seg) /\ kof (csym st') = kof (csym st) /\
    exists Ks, SEGOK code Ks (N.of_nat (List.length pre)) (N.of_nat (List.length seg))
                     (kof (csym st)) (kof (csym st)) (JB T0 kb).

Lemma p_lyc_nil_noelse brk fin st End : End = N.of_nat (List.length (ccode st)) -> P_LYC brk fin CNil NoElse st st End [] [] [].
Proof.
  intros HE _ T0 _ code pre post kb _ HL _ _. split; [cbn; lia|]. split; [reflexivity|]. exists KNONE. apply seg_nil.
Qed.

Lemma p_lyc_nil_else brk fin eb st sty ste st' End bs_e seg_e :
  csym sty = st_push (csym st) -> List.length (ccode sty) = List.length (ccode st) ->
  LYL brk eb sty ste bs_e seg_e -> P_LYL brk eb sty ste bs_e seg_e ->
  End = N.of_nat (List.length (ccode st)) + N.of_nat (List.length seg_e) -> csym st' = st_pop (csym ste) ->
  P_LYC brk fin CNil (Else eb) st st' End [] bs_e seg_e.
Proof.
  intros HX HLy HB PB HE HP _ T0 EB code pre post kb HCode HL HI HK.
  destruct (proj1 (proj2 ly_frame) _ _ _ _ _ _ HB) as [_ SYb].
  split; [lia|]. split; [apply (kof_block st sty ste st' HX (sy_out _ _ SYb) HP)|].
  destruct (PB T0 EB code pre post T0 kb HCode) as (M & _ & Ks & S);
    [rewrite HLy; exact HL|rewrite HX; apply inv_push; exact HI|rewrite HX, kof_push; exact HK|].
  exists Ks. rewrite HX, kof_push in *. eapply seg_weaken; [exact M|intros t kk X; exact X|exact S].
Qed.

Lemma p_lyc_cons brk fin c b t els st st1 stx stb sty st' End js bs_b bs_r seg_c seg_b jf je seg_r :
  efrag c = true -> compile_expr true c st = COk st1 -> ccode st1 = ccode st ++ seg_c ->
  csym stx = st_push (csym st) ->
  N.of_nat (List.length (ccode stx)) = N.of_nat (List.length (ccode st1)) + 3 ->
  LYL brk b stx stb bs_b seg_b -> P_LYL brk b stx stb bs_b seg_b ->
  jbytes JumpOnFalse (N.of_nat (List.length (ccode st)) + N.of_nat (List.length (seg_c ++ jf ++ seg_b ++ je))) jf ->
  jshape fin End je ->
  csym sty = st_pop (csym stb) ->
  N.of_nat (List.length (ccode sty)) = N.of_nat (List.length (ccode stb)) + 3 ->
  N.of_nat (List.length (ccode stb)) = N.of_nat (List.length (ccode stx)) + N.of_nat (List.length seg_b) ->
  P_LYC brk fin t els sty st' End js bs_r seg_r ->
  P_LYC brk fin (CCons c b t) els st st' End
        (Z.of_nat (List.length (ccode st) + List.length (seg_c ++ jf ++ seg_b)) :: js) (bs_b ++ bs_r)
        (seg_c ++ jf ++ seg_b ++ je ++ seg_r).
Proof.
  intros HF HC HE HX HLx HB PB (h1 & l1 & -> & ET1) HJE HY HLy HLb PR Hfin T0 EB code pre post kb HCode HL HI HK.
  subst fin. destruct HJE as (h2 & l2 & -> & ET2).
  set (k := kof (csym st)). set (lo := N.of_nat (List.length pre)) in *.
  set (JF := [N_of_opc JumpOnFalse; h1; l1]) in *. set (JE := [N_of_opc Jump; h2; l2]) in *.
  set (Lc := N.of_nat (List.length seg_c)) in *. set (Lb := N.of_nat (List.length seg_b)) in *. set (Lr := N.of_nat (List.length seg_r)) in *.
  set (Tn := N.of_nat (List.length (ccode st)) + N.of_nat (List.length (seg_c ++ JF ++ seg_b ++ JE))) in *.
  assert (HTn : Tn = lo + (Lc + 3 + Lb + 3)) by (unfold Tn, lo, Lc, Lb, JF, JE; lens; lia).
  destruct (proj1 (proj2 ly_frame) _ _ _ _ _ _ HB) as [_ SYb].
  assert (HIx : Inv (csym stx)) by (rewrite HX; apply inv_push; exact HI).
  assert (Hkx : kof (csym stx) = k) by (rewrite HX; apply kof_push).
  assert (HIy : Inv (csym sty)) by (rewrite HY; apply inv_pop; apply (sy_inv _ _ SYb HIx)).
  assert (Hky : kof (csym sty) = k) by (apply (kof_block st stx stb sty HX (sy_out _ _ SYb) HY)).
  (* the rest of the chain first: it fixes End *)
  destruct (PR eq_refl T0 EB code (pre ++ seg_c ++ JF ++ seg_b ++ JE) post kb) as (HEnd & HK' & K5 & S5);
    [rewrite HCode, <- !app_assoc; reflexivity|rewrite HLy, HLb, HLx, HE; unfold JF, JE; lens; lia|exact HIy|rewrite Hky; exact HK|].
  rewrite Hky in *.
  assert (HEnd' : End = lo + (Lc + 3 + Lb + 3 + Lr)) by (rewrite HEnd; unfold lo, Lc, Lb, Lr, JF, JE; lens; lia).
  split; [rewrite HEnd'; unfold lo, Lc, Lb, Lr, JF, JE; lens; lia|]. split; [exact HK'|].
  pose (J0 := fun t kk => JB T0 kb t kk \/ (t = Tn /\ k <= kk) \/ (t = End /\ k <= kk)).
  destruct (seg_expr code c st st1 seg_c pre ((JF ++ seg_b ++ JE ++ seg_r) ++ post) J0 HF HC HE HI) as (SC & NE & K1 & S1);
    [rewrite HCode, <- !app_assoc; reflexivity|].
  assert (S2 : SEGOK code (KPT (lo + Lc) k) (lo + Lc) 3 k k J0).
  { replace (lo + Lc) with (N.of_nat (List.length (pre ++ seg_c))) by (unfold lo, Lc; lens; lia).
    apply (seg_raw3 code (pre ++ seg_c) (seg_b ++ JE ++ seg_r ++ post) JumpOnFalse h1 l1);
      [rewrite HCode; unfold JF; rewrite <- !app_assoc; reflexivity|reflexivity|discriminate|intros _; cbn; lia|].
    intros _. rewrite ET1. right. left. split; [reflexivity|lia]. }
  destruct (PB T0 EB code (pre ++ seg_c ++ JF) (JE ++ seg_r ++ post) T0 kb) as (M3 & E3 & K3 & S3);
    [rewrite HCode, <- !app_assoc; reflexivity|rewrite HLx, HE; unfold JF; lens; lia|exact HIx|rewrite Hkx; exact HK|].
  rewrite Hkx in *.
  assert (S3' : SEGOK code K3 (lo + (Lc + 3)) Lb k (kof (csym stb)) J0).
  { replace (lo + (Lc + 3)) with (N.of_nat (List.length (pre ++ seg_c ++ JF))) by (unfold lo, Lc, JF; lens; lia).
    eapply seg_weaken; [apply N.le_refl| |exact S3]. intros tt kk X. left. exact X. }
  assert (S4 : SEGOK code (KPT (lo + (Lc + 3 + Lb)) (kof (csym stb))) (lo + (Lc + 3 + Lb)) 3 (kof (csym stb)) k J0).
  { replace (lo + (Lc + 3 + Lb)) with (N.of_nat (List.length (pre ++ seg_c ++ JF ++ seg_b))) by (unfold lo, Lc, Lb, JF; lens; lia).
    apply (seg_raw3 code (pre ++ seg_c ++ JF ++ seg_b) (seg_r ++ post) Jump h2 l2);
      [rewrite HCode; unfold JE; rewrite <- !app_assoc; reflexivity|reflexivity|discriminate|congruence|].
    intros _. rewrite ET2. right. right. split; [reflexivity|lia]. }
  assert (S5' : SEGOK code K5 (lo + (Lc + 3 + Lb + 3)) Lr k k J0).
  { replace (lo + (Lc + 3 + Lb + 3)) with (N.of_nat (List.length (pre ++ seg_c ++ JF ++ seg_b ++ JE))) by (unfold lo, Lc, Lb, JF, JE; lens; lia).
    eapply seg_weaken; [apply N.le_refl| |exact S5]. intros tt kk X. left. exact X. }
  assert (Q1 : SEGOK code (KOR K1 (KPT (lo + Lc) k)) lo (Lc + 3) k k J0)
    by (eapply seg_seq; [exact S1|exact S2|intros _; reflexivity|intro Z; discriminate Z]).
  assert (Q2 : SEGOK code (KOR (KOR K1 (KPT (lo + Lc) k)) K3) lo (Lc + 3 + Lb) k (kof (csym stb)) J0)
    by (eapply seg_seq; [exact Q1|exact S3'|intros _; reflexivity|intro Z; apply nlen0 in Z; rewrite (E3 Z); lia]).
  assert (Q3 : SEGOK code (KOR (KOR (KOR K1 (KPT (lo + Lc) k)) K3) (KPT (lo + (Lc + 3 + Lb)) (kof (csym stb)))) lo (Lc + 3 + Lb + 3) k k J0)
    by (eapply seg_seq; [exact Q2|exact S4|intro Z; lia|intro Z; discriminate Z]).
  assert (Q4 : SEGOK code (KOR (KOR (KOR (KOR K1 (KPT (lo + Lc) k)) K3) (KPT (lo + (Lc + 3 + Lb)) (kof (csym stb)))) K5) lo (Lc + 3 + Lb + 3 + Lr) k k J0)
    by (eapply seg_seq; [exact Q3|exact S5'|intro Z; lia|intros _; lia]).
  eexists.
  replace (N.of_nat (List.length (seg_c ++ JF ++ seg_b ++ JE ++ seg_r))) with (Lc + 3 + Lb + 3 + Lr) by (unfold Lc, Lb, Lr, JF, JE; lens; lia).
  eapply seg_resolve; [exact Q4|].
  intros tt kk [X|[[E L]|[E L]]].
  - right. right. exact X.
  - destruct (N.eq_dec Lr 0) as [Z|NZ].
    + right. left. split; [rewrite E, HTn, Z; lia|exact L].
    + left. exists k. split; [|exact L]. right. rewrite E, HTn. destruct S5' as (_ & R2 & _). apply R2. exact NZ.
  - right. left. split; [rewrite E, HEnd'; reflexivity|exact L].
Qed.

(* ---------- for loops, if, and the induction over the layout ---------- *)
Definition P_LYR (lvi : lvsym) (b : slist) (s3 st' : cstate) (S : N) (rop : opc) (seg : list N) : Prop :=
  (rop = StepRange \/ rop = IterRange) -> forall J, PSEG s3 st' seg J.

Lemma expr_step e st st1 seg_e : efrag e = true -> compile_expr true e st = COk st1 -> ccode st1 = ccode st ++ seg_e ->
  N.of_nat (List.length (ccode st1)) = N.of_nat (List.length (ccode st)) + N.of_nat (List.length seg_e) /\
  (Inv (csym st) -> Inv (csym st1)).
Proof.
  intros HF HC HE. split; [rewrite HE; lens; lia|]. destruct (efrag_consts e st st1 HF HC) as [_ A]. rewrite A. auto.
Qed.

Lemma p_forstep brk lv start stop step b st s1 s2 s3 sa st' seg1 seg2 seg3 segp seg_r lvi :
  efrag stop = true -> compile_expr true stop st = COk s1 -> ccode s1 = ccode st ++ seg1 ->
  efrag (match step with OSome e => e | ONoneE => ENum 1 end) = true ->
  compile_expr true (match step with OSome e => e | ONoneE => ENum 1 end) s1 = COk s2 -> ccode s2 = ccode s1 ++ seg2 ->
  efrag (match start with OSome e => e | ONoneE => ENum 0 end) = true ->
  compile_expr true (match start with OSome e => e | ONoneE => ENum 0 end) s2 = COk s3 -> ccode s3 = ccode s2 ++ seg3 ->
  LVPRO lv s3 sa segp lvi -> P_LYR lvi b sa st' 3 StepRange seg_r ->
  P_LY brk (SForStep lv start stop step b) st st' [] (seg1 ++ seg2 ++ seg3 ++ segp ++ seg_r).
Proof.
  intros F1 C1 E1 F2 C2 E2 F3 C3 E3 HV PR T0 _.
  destruct (expr_step _ _ _ _ F1 C1 E1) as [L1 I1]. destruct (expr_step _ _ _ _ F2 C2 E2) as [L2 I2].
  destruct (expr_step _ _ _ _ F3 C3 E3) as [L3 I3].
  destruct (lvpro_frame _ _ _ _ _ HV) as (_ & _ & L4 & _).
  apply (pseg_seq st s1 st' seg1 _ _ (pseg_expr _ _ _ _ _ F1 C1 E1)); [|exact L1|exact I1].
  apply (pseg_seq s1 s2 st' seg2 _ _ (pseg_expr _ _ _ _ _ F2 C2 E2)); [|exact L2|exact I2].
  apply (pseg_seq s2 s3 st' seg3 _ _ (pseg_expr _ _ _ _ _ F3 C3 E3)); [|exact L3|exact I3].
  apply (pseg_seq s3 sa st' segp _ _ (p_lvpro _ _ _ _ _ _ HV)); [|exact L4|apply (lvpro_inv _ _ _ _ _ HV)].
  apply PR. left. reflexivity.
Qed.

Lemma p_foriter brk lv t e b st s1 s2 sa st' seg1 segk segp seg_r lvi :
  efrag e = true -> compile_expr true e st = COk s1 -> ccode s1 = ccode st ++ seg1 ->
  emit_const true (KNum 0) s1 = COk s2 -> ccode s2 = ccode s1 ++ segk ->
  LVPRO lv s2 sa segp lvi -> P_LYR lvi b sa st' 2 IterRange seg_r ->
  P_LY brk (SForIter lv t e b) st st' [] (seg1 ++ segk ++ segp ++ seg_r).
Proof.
  intros F1 C1 E1 CK EK HV PR T0 _.
  destruct (expr_step _ _ _ _ F1 C1 E1) as [L1 I1].
  destruct (const_sl _ _ _ CK) as (_ & AK & _ & _).
  destruct (lvpro_frame _ _ _ _ _ HV) as (_ & _ & L4 & _).
  apply (pseg_seq st s1 st' seg1 _ _ (pseg_expr _ _ _ _ _ F1 C1 E1)); [|exact L1|exact I1].
  apply (pseg_seq s1 s2 st' segk _ _ (pseg_const _ _ _ _ _ CK EK)); [|rewrite EK; lens; lia|rewrite AK; auto].
  apply (pseg_seq s2 sa st' segp _ _ (p_lvpro _ _ _ _ _ _ HV)); [|exact L4|apply (lvpro_inv _ _ _ _ _ HV)].
  apply PR. right. reflexivity.
Qed.

Lemma p_if brk c b elifs els st ste st' js bs seg :
  P_LYC brk true (CCons c b elifs) els st ste (N.of_nat (List.length (ccode st)) + N.of_nat (List.length seg)) js bs seg ->
  csym st' = csym ste -> P_LY brk (SIf c b elifs els) st st' bs seg.
Proof.
  intros PC HS T0 EB code pre post T kb HCode HL HI HK.
  destruct (PC eq_refl T0 EB code pre post kb HCode HL HI HK) as (_ & HK' & Ks & S).
  rewrite HS, HK'. split; [lia|]. split; [reflexivity|]. exists Ks. exact S.
Qed.

Lemma p_store brk l i e st st1 st2 st3 st' seg_e seg_l seg_i :
  efrag e = true -> compile_expr true e st = COk st1 -> ccode st1 = ccode st ++ seg_e ->
  efrag l = true -> compile_expr true l st1 = COk st2 -> ccode st2 = ccode st1 ++ seg_l ->
  efrag i = true -> compile_expr true i st2 = COk st3 -> ccode st3 = ccode st2 ++ seg_i ->
  csym st' = csym st ->
  P_LY brk (SAssign (EIndex l i) e) st st' [] (seg_e ++ seg_l ++ seg_i ++ [N_of_opc SetIndex]).
Proof.
  intros F1 C1 E1 F2 C2 E2 F3 C3 E3 HS T0 _.
  destruct (expr_step _ _ _ _ F1 C1 E1) as [L1 I1]. destruct (expr_step _ _ _ _ F2 C2 E2) as [L2 I2].
  destruct (expr_step _ _ _ _ F3 C3 E3) as [L3 I3].
  destruct (efrag_consts _ _ _ F1 C1) as [_ A1]. destruct (efrag_consts _ _ _ F2 C2) as [_ A2]. destruct (efrag_consts _ _ _ F3 C3) as [_ A3].
  apply (pseg_seq st st1 st' seg_e _ _ (pseg_expr _ _ _ _ _ F1 C1 E1)); [|exact L1|exact I1].
  apply (pseg_seq st1 st2 st' seg_l _ _ (pseg_expr _ _ _ _ _ F2 C2 E2)); [|exact L2|exact I2].
  apply (pseg_seq st2 st3 st' seg_i _ _ (pseg_expr _ _ _ _ _ F3 C3 E3)); [|exact L3|exact I3].
  intros code pre post T kb HCode HL HI HK.
  assert (EQ : kof (csym st') = kof (csym st3)) by (rewrite HS, A3, A2, A1; reflexivity).
  rewrite EQ. split; [lia|]. split; [discriminate|].
  exists (KPT (N.of_nat (List.length pre)) (kof (csym st3))).
  apply (seg_raw1 code pre post SetIndex); [exact HCode|reflexivity|lia].
Qed.

Theorem p_all :
  (forall brk s st st' bs seg, LY brk s st st' bs seg -> P_LY brk s st st' bs seg) /\
  (forall brk l st st' bs seg, LYL brk l st st' bs seg -> P_LYL brk l st st' bs seg) /\
  (forall brk fin l els st st' End js bs seg, LYC brk fin l els st st' End js bs seg -> P_LYC brk fin l els st st' End js bs seg) /\
  (forall lvi b s3 st' S rop seg, LYR lvi b s3 st' S rop seg -> P_LYR lvi b s3 st' S rop seg).
Proof.
  apply LY_mutind.
  - (* decl *) intros. eapply p_decl; eauto.
  - (* assign *) intros. eapply p_assign; eauto.
  - (* empty *) intros brk st T0 _. apply p_lyl_nil.
  - (* break *) intros brk st st' jb HB _ HS T0 E. subst brk. apply (p_break T0 st st' jb HB HS).
  - (* while *) intros. eapply p_while; eauto.
  - (* forstep *) intros. eapply p_forstep; eauto.
  - (* foriter *) intros. eapply p_foriter; eauto.
  - (* if *) intros. eapply p_if; eauto.
  - (* store *) intros. eapply p_store; eauto.
  - (* nil *) intros brk st T0 _. apply p_lyl_nil.
  - (* cons *) intros brk s t st st1 st2 bs1 bs2 seg1 seg2 L1 P1 HLen L2 P2 T0 E.
    apply (pseg_seq st st1 st2 seg1 seg2 _ (P1 T0 E) (P2 T0 E) HLen).
    destruct (proj1 ly_frame _ _ _ _ _ _ L1) as [_ SY1]. apply (sy_inv _ _ SY1).
  - (* nil noelse *) intros. apply p_lyc_nil_noelse. assumption.
  - (* nil else *) intros. eapply p_lyc_nil_else; eauto.
  - (* cons *) intros. eapply p_lyc_cons; eauto. apply (lyl_len _ _ _ _ _ _ l).
  - (* lyr *) intros rop S lvi b s3 stx stb st' bs_b seg_b jf jb sgv HV HCo HX HLx HB PB HJ1 HJ2 HCo' HP HR J.
    eapply p_lyr; eauto.
Qed.

(* ====================================================================== *)
(* Part 4: whole programs                                                   *)
(* ====================================================================== *)
Theorem compile_linitk_w : forall (p : slist) (st : cstate),
  cfrag_slist p = true -> nb_slist p = true -> compile p = COk st -> exists K, LINITK (ccode st) K.
Proof.
  intros p st HF HNB HC.
  unfold compile, compile_program in HC. rewrite compile_slist_body in HC.
  destruct (proj1 (proj2 ly_all_w) p HF cinit st HC) as (bs & seg & L0 & C & B).
  pose proof (proj1 (proj2 ly_no_breaks) _ _ _ _ _ _ L0 HNB) as ->.
  destruct (proj1 (proj2 (ly_brk_patch 0%Z)) _ _ _ _ _ _ L0 eq_refl st st (ccode cinit) []) as (seg' & C' & _ & _ & _ & _ & L);
    [rewrite app_nil_r; exact C|reflexivity|reflexivity|].
  rewrite app_nil_r, C in C'. apply app_inv_head in C'. subst seg'.
  change (ccode cinit) with (@nil N) in C. cbn [app] in C.
  destruct (proj1 (proj2 p_all) _ _ _ _ _ _ L 0 eq_refl (ccode st) [] [] 0 0) as (_ & E & Ks & S);
    [rewrite C, app_nil_r; reflexivity|reflexivity|apply inv_new|cbn; lia|].
  change (kof (csym cinit)) with 0 in *. cbn [List.length] in S. change (N.of_nat 0) with 0 in S. rewrite <- C in S.
  assert (S' : SEGOK (ccode st) Ks 0 (N.of_nat (List.length (ccode st))) 0 (kof (csym st)) (fun _ _ => False)).
  { eapply seg_resolve; [exact S|]. intros t kk [-> _].
    destruct (N.eq_dec (N.of_nat (List.length (ccode st))) 0) as [Z|NZ].
    - right. left. split; [lia|]. apply nlen0 in Z. rewrite <- C in E. rewrite (E Z). lia.
    - left. exists 0. split; [|lia]. destruct S as (_ & R2 & _). apply R2. exact NZ. }
  exists Ks. destruct S' as (R1 & R2 & R3). split.
  - intro NE. apply R2. destruct (ccode st); [congruence|cbn; lia].
  - intros pc k HK _. eapply icond_mono; [|apply (R3 pc k HK)]. cbn beta.
    intros t kk [X|[[Et _]|[]]]; [right; exact X|left; lia].
Qed.

(* every program of the fragment: in every run of the VM model on the compiled
   code, an OpGetLocal about to execute reads a slot that an executed OpSetLocal
   has written *)
Theorem compile_linit_safe_w : forall (p : slist) (st : cstate),
  cfrag_slist p = true -> nb_slist p = true -> compile p = COk st ->
  let prog := program_of (bytecode_of st) in
  forall s w, reach_w prog s w ->
  forall i, fetch prog s = Some i -> ip s < N.of_nat (List.length (pcode prog)) ->
            opc_of_N (iop i) = Some GetLocal -> In (arg0 i) w.
Proof.
  intros p st HF HN HC prog. destruct (compile_linitk_w p st HF HN HC) as (K & HK).
  apply (linitk_safe prog K). unfold prog, program_of, bytecode_of. cbn [pcode out_code]. exact HK.
Qed.

(* EVERY program the compiler accepts (element stores included): the side
   conditions are the two syntactic, parser-guaranteed ones of compile_wf_all *)
Theorem compile_linit_safe_all : forall (p : slist) (st : cstate),
  compile p = COk st -> wplain_slist p = true -> nb_slist p = true ->
  let prog := program_of (bytecode_of st) in
  forall s w, reach_w prog s w ->
  forall i, fetch prog s = Some i -> ip s < N.of_nat (List.length (pcode prog)) ->
            opc_of_N (iop i) = Some GetLocal -> In (arg0 i) w.
Proof.
  intros p st HC HP HN. apply (compile_linit_safe_w p st); [|exact HN|exact HC].
  rewrite <- pfrag2_cfrag. apply (compile_covered_wf p st HC HP).
Qed.
