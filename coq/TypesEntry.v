(* TypesEntry.v — wire entry for the specification-side oracle of C04: the
   executable renderings of TypesSpec.v (proved equivalent to the declarative
   relations in TypesSpecProofs.v), reachable from the harness so that the
   property oracle is computed from the specification and not from the
   implementation model.  Reuses the S-expression decoders of Types.v. *)
From Coq Require Import List Bool NArith ZArith String.
From EvyV Require Import Base TypesSyntax Types TypesSpec.
Import ListNotations.
Local Open Scope string_scope.

Fixpoint sty_string (t : sty) : str :=
  match t with
  | SNum => s_ "num" | SString => s_ "string" | SBool => s_ "bool" | SAny => s_ "any"
  | SArr s => (s_ "[]" ++ sty_string s)%list
  | SMap s => (s_ "{}" ++ sty_string s)%list
  | SEmptyArr => s_ "[]" | SEmptyMap => s_ "{}"
  end.

Definition enc_sresult (r : sresult) : sx :=
  match r with
  | SAccept st sh => Lst [Sym (s_ "accept"); Str (sty_string st); Str (sty_string sh)]
  | SReject => Lst [Sym (s_ "reject")]
  end.

Definition dec_kind (x : sx) : option kind :=
  if sym_is x "var" then Some KVar else if sym_is x "const" then Some KConst else None.

Fixpoint dec_stys (l : list sx) : option (list sty) :=
  match l with
  | [] => Some []
  | x :: r => match dec_sty x with
              | Some t => match dec_stys r with Some r' => Some (t :: r') | None => None end
              | None => None
              end
  end.

Fixpoint dec_elems (l : list sx) : option (list (kind * sty)) :=
  match l with
  | [] => Some []
  | Lst [k; t] :: r =>
      match dec_kind k, dec_sty t, dec_elems r with
      | Some k, Some t, Some r' => Some ((k, t) :: r')
      | _, _, _ => None
      end
  | _ => None
  end.

(* Requests:
     (prog ctx expr)            -> (accept static shown) | (reject)
     (srow kind T (T2…))        -> bit string: assignable_b kind T T2
     (sunify T (T2…))           -> bit string: unify T T2 <> None
     (sjoin ((kind T)…))        -> (kind-sym type-string) least common element type *)
Definition typespec_case (x : sx) : sx :=
  match x with
  | Lst (k :: args) =>
      if sym_is k "prog" then
        match args with
        | [c; e] => match dec_ctx c, dec_expr e with
                    | Some c, Some e => enc_sresult (spec_check c e)
                    | _, _ => Sym (s_ "decode-error")
                    end
        | _ => Sym (s_ "decode-error")
        end
      else if sym_is k "srow" then
        match args with
        | [kd; t; Lst rs] =>
            match dec_kind kd, dec_sty t, dec_stys rs with
            | Some kd, Some t, Some rs => Str (map (fun r => bit (assignable_b kd t r)) rs)
            | _, _, _ => Sym (s_ "decode-error")
            end
        | _ => Sym (s_ "decode-error")
        end
      else if sym_is k "sunify" then
        match args with
        | [t; Lst rs] =>
            match dec_sty t, dec_stys rs with
            | Some t, Some rs => Str (map (fun r => bit (match unify t r with Some _ => true | None => false end)) rs)
            | _, _ => Sym (s_ "decode-error")
            end
        | _ => Sym (s_ "decode-error")
        end
      else if sym_is k "sjoin" then
        match args with
        | [Lst els] =>
            match dec_elems els with
            | Some els => match strictest els with
                          | Some (kd, t) => Lst [Sym (s_ match kd with KVar => "var" | KConst => "const" end); Str (sty_string t)]
                          | None => Sym (s_ "none")
                          end
            | None => Sym (s_ "decode-error")
            end
        | _ => Sym (s_ "decode-error")
        end
      else Sym (s_ "decode-error")
  | _ => Sym (s_ "decode-error")
  end.
