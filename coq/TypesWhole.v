(* TypesWhole.v — the implementation model of the type checker (Types.tc, Types.check) against the
   specification's whole-expression typing (TypesSpec.spec_tc, spec_check) on the UNIFORM fragment:
   composite literals whose elements all have the same type (nothing is converted inside an
   expression), variables and results of closed types, binary operators whose left operand has no
   untyped empty leaf (or is [] itself), index / field results of closed type.  TypesProofs.v compares
   the two models rule by rule; here the rules are composed over a whole expression.  The kinds
   (constant / variable) of the specification are not compared: they only matter for conversions. *)
From Coq Require Import List Bool.
From EvyV Require Import Base TypesSyntax Types TypesSpec TypesSpecProofs TypesProofs.
From EvyV.Gen Require Import TypeNames.
Import ListNotations.

(* ---------- induction over expressions (nested lists / options) ---------- *)
Definition opt_holds (P : expr -> Prop) (o : option expr) : Prop :=
  match o with Some x => P x | None => True end.

Section SExprInd.
  Context (P : expr -> Prop).
  Context (HNum : P ELitNum) (HStr : P ELitStr) (HBool : P ELitBool)
          (HVar : forall t, P (EVar t)) (HCall : forall t, P (ECall t))
          (HArr : forall els, Forall P els -> P (EArr els))
          (HMap : forall els, Forall P els -> P (EMap els))
          (HBin : forall op l r, P l -> P r -> P (EBin op l r))
          (HUn : forall op e, P e -> P (EUn op e))
          (HGroup : forall e, P e -> P (EGroup e))
          (HIndex : forall l i, P l -> P i -> P (EIndex l i))
          (HSlice : forall l s e, P l -> opt_holds P s -> opt_holds P e -> P (ESlice l s e))
          (HDot : forall l, P l -> P (EDot l))
          (HAssert : forall e t, P e -> P (EAssert e t))
          (HLoop : forall r, P r -> P (ELoopVar r)).
  Fixpoint sexpr_ind (e : expr) : P e :=
    let lind := fix go (l : list expr) : Forall P l :=
      match l with [] => Forall_nil _ | x :: r => Forall_cons _ (sexpr_ind x) (go r) end in
    let oind := fun (o : option expr) =>
      match o as o' return opt_holds P o' with Some x => sexpr_ind x | None => I end in
    match e with
    | ELitNum => HNum | ELitStr => HStr | ELitBool => HBool
    | EVar t => HVar t | ECall t => HCall t
    | EArr els => HArr els (lind els)
    | EMap els => HMap els (lind els)
    | EBin op l r => HBin op l r (sexpr_ind l) (sexpr_ind r)
    | EUn op a => HUn op a (sexpr_ind a)
    | EGroup a => HGroup a (sexpr_ind a)
    | EIndex l i => HIndex l i (sexpr_ind l) (sexpr_ind i)
    | ESlice l s e' => HSlice l s e' (sexpr_ind l) (oind s) (oind e')
    | EDot l => HDot l (sexpr_ind l)
    | EAssert a t => HAssert a t (sexpr_ind a)
    | ELoopVar r => HLoop r (sexpr_ind r)
    end.
End SExprInd.

(* ---------- the uniform fragment ---------- *)
(* the operand of an index / field access is not the untyped [] / {} itself (the parser gives
   [][0]  the type none without reporting an error at the expression) *)
Definition not_empty_base (l : expr) : bool :=
  match spec_tc l with Some (_, SEmptyArr) | Some (_, SEmptyMap) => false | _ => true end.

Definition same_types (ks : list (kind * sty)) : bool :=
  match ks with x :: r => forallb (fun y => sty_eqb (snd y) (snd x)) r | [] => true end.

Fixpoint uniform (e : expr) : bool :=
  let all := fix go (l : list expr) : bool := match l with [] => true | x :: r => uniform x && go r end in
  let opt := fun (o : option expr) => match o with Some x => uniform x | None => true end in
  match e with
  | ELitNum | ELitStr | ELitBool => true
  | EVar t | ECall t => closed t
  | EArr els => all els && match all_some (map spec_tc els) with Some ks => same_types ks | None => true end
  | EMap els => all els && match all_some (map spec_tc els) with Some ks => same_types ks | None => true end
  | EBin op l r =>
      uniform l && uniform r &&
      match spec_tc l with Some (_, a) => closed a || sty_eqb a SEmptyArr | None => true end
  | EUn _ a => uniform a
  | EGroup a => uniform a
  | EIndex l i =>
      not_empty_base l && uniform l && uniform i && match spec_tc (EIndex l i) with Some (_, t) => closed t | None => true end
  | ESlice l s e' => uniform l && opt s && opt e'
  | EDot l => not_empty_base l && uniform l && match spec_tc (EDot l) with Some (_, t) => closed t | None => true end
  | EAssert a t => closed t && uniform a
  | ELoopVar _ => false      (* the loop variable as a value (C04's ELoopVar): outside; StaticTypes.erase never produces it *)
  end.

Fixpoint uniforms (l : list expr) : bool := match l with [] => true | x :: r => uniform x && uniforms r end.

Lemma uniform_EArr els : uniform (EArr els) =
  uniforms els && match all_some (map spec_tc els) with Some ks => same_types ks | None => true end.
Proof. reflexivity. Qed.
Lemma uniform_EMap els : uniform (EMap els) =
  uniforms els && match all_some (map spec_tc els) with Some ks => same_types ks | None => true end.
Proof. reflexivity. Qed.

(* ---------- what the theorem says of the node the implementation builds ---------- *)
Definition good (n : node) (s : sty) : Prop :=
  spec_ty (node_type n) = true /\ erase (node_type n) = s /\ infer_node n <> None.

Definition tc_ok (e : expr) : Prop :=
  uniform e = true -> forall k s, spec_tc e = Some (k, s) -> exists n, tc e = ONode n false /\ good n s.

(* ---------- helper lemmas on types ---------- *)
Lemma closed_erase_inv t : spec_ty t = true -> closed (erase t) = true -> has_empty t = false.
Proof. induction t; simpl; auto; discriminate. Qed.

Lemma merge_fixed_same : forall c t, spec_ty c = true -> spec_ty t = true -> erase c = erase t ->
  spec_ty (merge_fixed c t) = true /\ erase (merge_fixed c t) = erase c.
Proof.
  induction c as [| | | | |f c IHc|f c IHc| | | |]; intros t2 Hc Ht He; simpl merge_fixed;
    try (match goal with |- context [if ?b then _ else _] => destruct b end;
         [auto | split; [exact Ht | symmetry; exact He]]; fail).
  - match goal with |- context [if ?b then _ else _] => destruct b end; [auto|].
    match goal with |- context [if ?b then _ else _] => destruct b end; [split; [exact Ht|symmetry; exact He]|].
    destruct t2; simpl in He, Ht; try discriminate. simpl. inversion He.
    destruct (IHc t2 Hc Ht H0) as [A B]. rewrite A, B. auto.
  - match goal with |- context [if ?b then _ else _] => destruct b end; [auto|].
    match goal with |- context [if ?b then _ else _] => destruct b end; [split; [exact Ht|symmetry; exact He]|].
    destruct t2; simpl in He, Ht; try discriminate. simpl. inversion He.
    destruct (IHc t2 Hc Ht H0) as [A B]. rewrite A, B. auto.
Qed.

Lemma equals_same c t : spec_ty c = true -> spec_ty t = true -> erase c = erase t -> equals c t = true.
Proof. intros Hc Ht He. rewrite equals_erase by assumption. rewrite He. apply sty_eqb_refl. Qed.

Lemma combine_from_same : forall ts c, spec_ty c = true ->
  Forall (fun t => spec_ty t = true /\ erase t = erase c) ts ->
  exists s, combine_from c ts = Some s /\ spec_ty s = true /\ erase s = erase c.
Proof.
  induction ts as [|t ts IH]; intros c Hc HF; simpl.
  - eauto.
  - inversion HF as [|? ? [Ht He] HF']; subst.
    unfold combine2. rewrite comb_equal by (apply equals_same; auto).
    destruct (merge_fixed_same c t Hc Ht (eq_sym He)) as [A B].
    destruct (IH (merge_fixed c t) A) as (s & Hs & S1 & S2).
    + eapply Forall_impl; [|exact HF']. intros x [X1 X2]. split; [exact X1|congruence].
    + exists s. rewrite Hs. repeat split; congruence.
Qed.

Lemma wrap_same n s : spec_ty s = true -> spec_ty (node_type n) = true -> erase (node_type n) = erase s ->
  wrap_any n s = Some n.
Proof.
  intros Hs Hn He.
  assert (E : equals s (node_type n) = true) by (apply equals_same; auto).
  destruct n; simpl in *; rewrite E; reflexivity.
Qed.

Lemma wrap_all_same s : forall ns, spec_ty s = true ->
  Forall (fun n => spec_ty (node_type n) = true /\ erase (node_type n) = erase s) ns ->
  wrap_all ns s = Some ns.
Proof.
  unfold wrap_all. induction ns as [|n ns IH]; intros Hs HF; simpl; [reflexivity|].
  inversion HF as [|? ? [A B] HF']; subst. rewrite (wrap_same n s Hs A B), (IH Hs HF'). reflexivity.
Qed.

Lemma sjoin_same k1 k2 u : snd (sjoin (k1, u) (k2, u)) = u.
Proof.
  destruct k1, k2; simpl; try rewrite conv_b_refl; try rewrite sty_eqb_refl; simpl; auto.
  unfold cjoin. destruct u; simpl; try rewrite !sty_eqb_refl; reflexivity.
Qed.

Lemma fold_sjoin_same u : forall l x, snd x = u -> Forall (fun y => snd y = u) l ->
  snd (fold_left sjoin l x) = u.
Proof.
  induction l as [|y l IH]; intros x Hx Hall; simpl; auto.
  inversion Hall; subst. apply IH; auto. destruct x, y; simpl in *; subst. apply sjoin_same.
Qed.

Lemma same_types_all x r : same_types (x :: r) = true -> Forall (fun y : kind * sty => snd y = snd x) r.
Proof.
  simpl. induction r as [|y r IH]; simpl; intros H; constructor.
  - apply andb_true_iff in H as [H _]. apply sty_eqb_eq in H. exact H.
  - apply IH. apply andb_true_iff in H as [_ H]. exact H.
Qed.

(* ---------- the elements of a literal ---------- *)
Lemma seq_ok : forall els, Forall tc_ok els -> uniforms els = true ->
  forall ks, all_some (map spec_tc els) = Some ks ->
  exists ns, seq_outcomes (map tc els) = Some (Some (ns, false)) /\
             Forall2 (fun n (x : kind * sty) => good n (snd x)) ns ks.
Proof.
  induction els as [|e els IH]; intros HF Hu ks Hks; simpl in *.
  - inversion Hks; subst. exists []. split; [reflexivity|constructor].
  - inversion HF as [|? ? He HF']; subst. apply andb_true_iff in Hu as [Hu1 Hu2].
    destruct (spec_tc e) as [[k s]|] eqn:Es; [|discriminate].
    destruct (all_some (map spec_tc els)) as [ks'|] eqn:Ek; [|discriminate]. inversion Hks; subst ks.
    destruct (He Hu1 k s Es) as (n & Hn & Hg).
    destruct (IH HF' Hu2 ks' eq_refl) as (ns & Hns & HF2).
    exists (n :: ns). rewrite Hn, Hns. destruct Hg as (G1 & G2 & G3).
    rewrite (spec_not_none _ G1). split; [reflexivity|]. constructor; [repeat split; assumption|exact HF2].
Qed.

Lemma forall2_good ns r u : Forall2 (fun n (x : kind * sty) => good n (snd x)) ns r ->
  Forall (fun y : kind * sty => snd y = u) r -> Forall (fun n => good n u) ns.
Proof.
  induction 1 as [|n y ns r Hn HF IH]; intros Hall; constructor; inversion Hall as [|? ? Hy Hr]; subst; auto.
Qed.

Lemma lit_ok els : Forall tc_ok els -> uniforms els = true ->
  forall x r, all_some (map spec_tc els) = Some (x :: r) -> same_types (x :: r) = true ->
  exists n0 ns s, seq_outcomes (map tc els) = Some (Some (n0 :: ns, false)) /\
    combine (map node_type (n0 :: ns)) = Some s /\ wrap_all (n0 :: ns) s = Some (n0 :: ns) /\
    spec_ty s = true /\ erase s = snd x /\ Forall (fun n => infer_node n <> None) (n0 :: ns).
Proof.
  intros HF Hu x r Hks Hsame.
  destruct (seq_ok els HF Hu _ Hks) as (ns & Hns & HF2).
  inversion HF2 as [|n0 x' ns' r' Hg0 HF2' E1 E2]; subst.
  pose proof (same_types_all _ _ Hsame) as Hall.
  assert (GOOD : Forall (fun n => good n (snd x)) (n0 :: ns')).
  { constructor; [exact Hg0|]. eapply forall2_good; eauto. }
  destruct Hg0 as (G1 & G2 & G3).
  destruct (combine_from_same (map node_type ns') (node_type n0) G1) as (s & Hs & S1 & S2).
  { inversion GOOD; subst. clear -H2 G2. induction H2; simpl; constructor; auto.
    destruct H as (A & B & _). split; [exact A|congruence]. }
  exists n0, ns', s. split; [exact Hns|]. split; [exact Hs|]. split.
  - apply wrap_all_same; [exact S1|]. eapply Forall_impl; [|exact GOOD].
    intros n (A & B & _). split; [exact A|congruence].
  - split; [exact S1|]. split; [congruence|]. eapply Forall_impl; [|exact GOOD]. intros n (_ & _ & C). exact C.
Qed.

Lemma infer_list_some : forall ns, Forall (fun n => infer_node n <> None) ns ->
  (fix go (l : list node) : option (list node) :=
     match l with
     | [] => Some []
     | x :: r => match infer_node x with
                 | Some y => match go r with Some r' => Some (y :: r') | None => None end
                 | None => None
                 end
     end) ns <> None.
Proof.
  induction 1 as [|n ns Hn HF IH]; [discriminate|].
  destruct (infer_node n); [|contradiction].
  match goal with |- match ?g with _ => _ end <> None => destruct g eqn:E end; [discriminate|exact IH].
Qed.

Lemma infer_some t : spec_ty t = true -> infer t <> None.
Proof. intros H. destruct (infer_spec t H) as (t' & -> & _). discriminate. Qed.

Lemma bnt_spec_ty op lt rt : spec_ty lt = true -> spec_ty rt = true -> spec_ty (binary_node_type op lt rt) = true.
Proof. exact (binary_node_type_spec_ty op lt rt). Qed.

Lemma erase_empty_arr t : spec_ty t = true -> erase t = SEmptyArr -> t = TEmptyArr.
Proof. destruct t; simpl; intros; try discriminate; reflexivity. Qed.

Definition sbound (o : option expr) : option kind :=
  match o with
  | None => Some KConst
  | Some x => match spec_tc x with Some (k', SNum) => Some k' | _ => None end
  end.

Lemma spec_tc_ESlice l s e' : spec_tc (ESlice l s e') =
  match spec_tc l with
  | Some (k, a) =>
      match sbound s, sbound e', slice_type_s a with
      | Some k1, Some k2, Some t => Some (kjoin k (kjoin k1 k2), t)
      | _, _, _ => None
      end
  | None => None
  end.
Proof. reflexivity. Qed.

Lemma bound_tc o : opt_holds tc_ok o -> match o with Some x => uniform x | None => true end = true ->
  forall k', sbound o = Some k' ->
  match o with Some x => exists n, tc x = ONode n false /\ node_type n = TNum | None => True end.
Proof.
  destruct o as [x|]; [|auto]. simpl. intros IH Hu k' Hb.
  destruct (spec_tc x) as [[kx tx]|] eqn:Ex; [|discriminate]. destruct tx; try discriminate.
  destruct (IH Hu kx SNum Ex) as (n & Hn & N1 & N2 & _). exists n. split; [exact Hn|].
  destruct (node_type n); simpl in N1, N2; try discriminate; reflexivity.
Qed.

(* ---------- the whole-expression theorem ---------- *)
Theorem tc_uniform : forall e, tc_ok e.
Proof.
  induction e as [| | |t|t|els H|els H|op e1 e2 IHe1 IHe2|op e IHe|e IHe|e1 e2 IHe1 IHe2|e1 o1 o2 IHe1 IHo1 IHo2|e IHe|e t IHe|r IHr]
    using sexpr_ind; intros Hu k s0 Hs.
  - inversion Hs; subst. exists (NLeaf TNum). repeat split; try reflexivity; discriminate.
  - inversion Hs; subst. exists (NLeaf TString). repeat split; try reflexivity; discriminate.
  - inversion Hs; subst. exists (NLeaf TBool). repeat split; try reflexivity; discriminate.
  - (* variable *)
    inversion Hs; subst. eexists. split; [reflexivity|].
    split; [simpl; rewrite (proj1 (fixed_type_keeps _)); apply spec_embed|].
    split; [simpl; rewrite erase_fixed_type; apply erase_embed|discriminate].
  - (* call *)
    inversion Hs; subst. eexists. split; [reflexivity|].
    split; [simpl; rewrite (proj1 (fixed_type_keeps _)); apply spec_embed|].
    split; [simpl; rewrite erase_fixed_type; apply erase_embed|discriminate].
  - (* array literal *)
    rewrite uniform_EArr in Hu. apply andb_true_iff in Hu as [Hu1 Hu2].
    cbn [spec_tc] in Hs. cbn [tc].
    destruct (all_some (map spec_tc els)) as [[|x r]|] eqn:Ek; [| |discriminate].
    + inversion Hs; subst.
      destruct (seq_ok els H Hu1 [] Ek) as (ns & Hns & HF2). inversion HF2; subst. rewrite Hns.
      exists (NArrLit TEmptyArr []). repeat split; try reflexivity; discriminate.
    + destruct (lit_ok els H Hu1 x r Ek Hu2) as (n0 & ns & st & Hns & Hc & Hw & S1 & S2 & Hinf).
      rewrite Hns, Hc, Hw. inversion Hs; subst.
      exists (NArrLit (TArr false st) (n0 :: ns)). split; [reflexivity|]. split; [exact S1|]. split.
      * simpl. rewrite S2. f_equal. symmetry. apply fold_sjoin_same; [reflexivity|apply same_types_all; exact Hu2].
      * cbn [infer_node infer]. pose proof (infer_some st S1) as Hi. destruct (infer st); [|contradiction].
        pose proof (infer_list_some _ Hinf) as Hl.
        match goal with |- match ?g with _ => _ end <> None => destruct g; [discriminate|contradiction] end.
  - (* map literal *)
    rewrite uniform_EMap in Hu. apply andb_true_iff in Hu as [Hu1 Hu2].
    cbn [spec_tc] in Hs. cbn [tc].
    destruct (all_some (map spec_tc els)) as [[|x r]|] eqn:Ek; [| |discriminate].
    + inversion Hs; subst.
      destruct (seq_ok els H Hu1 [] Ek) as (ns & Hns & HF2). inversion HF2; subst. rewrite Hns.
      exists (NMapLit TEmptyMap []). repeat split; try reflexivity; discriminate.
    + destruct (lit_ok els H Hu1 x r Ek Hu2) as (n0 & ns & st & Hns & Hc & Hw & S1 & S2 & Hinf).
      rewrite Hns, Hc, Hw. inversion Hs; subst.
      exists (NMapLit (TMap false st) (n0 :: ns)). split; [reflexivity|]. split; [exact S1|]. split.
      * simpl. rewrite S2. f_equal. symmetry. apply fold_sjoin_same; [reflexivity|apply same_types_all; exact Hu2].
      * cbn [infer_node infer]. pose proof (infer_some st S1) as Hi. destruct (infer st); [|contradiction].
        pose proof (infer_list_some _ Hinf) as Hl.
        match goal with |- match ?g with _ => _ end <> None => destruct g; [discriminate|contradiction] end.
  - (* binary operator *)
    cbn [uniform] in Hu. apply andb_true_iff in Hu as [Hu Hg]. apply andb_true_iff in Hu as [Hu1 Hu2].
    cbn [spec_tc] in Hs.
    destruct (spec_tc e1) as [[k1 a]|] eqn:E1; [|discriminate].
    destruct (spec_tc e2) as [[k2 b]|] eqn:E2; [|discriminate].
    destruct (op_type op a b) as [t|] eqn:Eo; [|discriminate]. inversion Hs; subst.
    destruct (IHe1 Hu1 k1 a E1) as (ln & Hl & L1 & L2 & L3).
    destruct (IHe2 Hu2 k2 b E2) as (rn & Hr & R1 & R2 & R3).
    cbn [tc]. rewrite Hl, Hr. cbn [bind_node].
    assert (Hv : validate_binary op (node_type ln) (node_type rn) = true).
    { rewrite validate_binary_spec by assumption. rewrite L2, R2, Eo. reflexivity. }
    rewrite Hv. eexists. split; [reflexivity|]. split; [apply bnt_spec_ty; assumption|]. split; [|discriminate].
    simpl node_type.
    assert (Hgd : has_empty (node_type ln) = false \/ node_type ln = TEmptyArr).
    { apply orb_true_iff in Hg as [Hg|Hg].
      - left. apply closed_erase_inv; [exact L1|rewrite L2; exact Hg].
      - right. apply erase_empty_arr; [exact L1|]. rewrite L2. apply sty_eqb_eq. exact Hg. }
    pose proof (binop_result_type op _ _ L1 R1 Hv Hgd) as Ht. rewrite L2, R2 in Ht.
    apply op_type_iff in Ht. congruence.
  - (* unary operator *)
    cbn [uniform] in Hu. cbn [spec_tc] in Hs.
    destruct (spec_tc e) as [[k1 a]|] eqn:E1; [|discriminate].
    destruct (unop_type op a) as [t'|] eqn:Eu; [|discriminate]. inversion Hs; subst.
    destruct (IHe Hu k a E1) as (n & Hn & N1 & N2 & N3).
    cbn [tc]. rewrite Hn. cbn [bind_node].
    assert (validate_unary op (node_type n) = true /\ s0 = a) as [Hv ->].
    { destruct op, a; simpl in Eu; try discriminate; inversion Eu; subst;
        destruct (node_type n); simpl in N1, N2; try discriminate; split; reflexivity. }
    rewrite Hv. exists (NLeaf (node_type n)). split; [reflexivity|]. repeat split; try assumption; discriminate.
  - (* group *)
    cbn [uniform] in Hu. cbn [spec_tc] in Hs.
    destruct (IHe Hu k s0 Hs) as (n & Hn & N1 & N2 & N3).
    cbn [tc]. rewrite Hn. cbn [bind_node]. exists (NGroup n). split; [reflexivity|].
    split; [exact N1|]. split; [exact N2|]. cbn [infer_node].
    destruct (is_inferrer n); [|discriminate]. destruct (infer_node n); [discriminate|contradiction].
  - (* index *)
    cbn [uniform] in Hu. apply andb_true_iff in Hu as [Hu Hc]. apply andb_true_iff in Hu as [Hu1 Hu2].
    apply andb_true_iff in Hu1 as [_ Hu1].
    rewrite Hs in Hc. cbn [spec_tc] in Hs.
    destruct (spec_tc e1) as [[k1 a]|] eqn:E1; [|discriminate].
    destruct (spec_tc e2) as [[k2 b]|] eqn:E2; [|discriminate].
    destruct (index_type_s a b) as [t'|] eqn:Ei; [|discriminate]. inversion Hs; subst.
    destruct (IHe1 Hu1 k1 a E1) as (ln & Hl & L1 & L2 & L3).
    destruct (IHe2 Hu2 k2 b E2) as (rn & Hr & R1 & R2 & R3).
    cbn [tc]. rewrite Hl. cbn [bind_node].
    destruct (node_type ln) as [| | | | |f u|f u| | | |] eqn:El; simpl in L1, L2; try discriminate; subst a;
      simpl in Ei; try discriminate;
      destruct b; try discriminate; inversion Ei; subst;
      destruct (node_type rn) eqn:Er; simpl in R1, R2; try discriminate;
      simpl; rewrite Hr; cbn [bind_node]; rewrite Er; simpl.
    + eexists. split; [reflexivity|]. repeat split; try reflexivity; discriminate.
    + rewrite (infer_id u L1 (closed_erase_inv u L1 Hc)).
      eexists. split; [reflexivity|]. split; [simpl; rewrite (proj1 (fixed_type_keeps u)); exact L1|].
      split; [simpl; apply erase_fixed_type|discriminate].
    + rewrite (infer_id u L1 (closed_erase_inv u L1 Hc)).
      eexists. split; [reflexivity|]. split; [simpl; rewrite (proj1 (fixed_type_keeps u)); exact L1|].
      split; [simpl; apply erase_fixed_type|discriminate].
  - (* slice *)
    cbn [uniform] in Hu. apply andb_true_iff in Hu as [Hu Hu3]. apply andb_true_iff in Hu as [Hu1 Hu2].
    rewrite spec_tc_ESlice in Hs.
    destruct (spec_tc e1) as [[k1 a]|] eqn:E1; [|discriminate].
    destruct (sbound o1) as [kb1|] eqn:B1; [|discriminate].
    destruct (sbound o2) as [kb2|] eqn:B2; [|discriminate].
    destruct (slice_type_s a) as [t'|] eqn:Et; [|discriminate]. inversion Hs; subst.
    destruct (IHe1 Hu1 k1 a E1) as (ln & Hl & L1 & L2 & L3).
    pose proof (bound_tc o1 IHo1 Hu2 kb1 B1) as X1.
    pose proof (bound_tc o2 IHo2 Hu3 kb2 B2) as X2.
    cbn [tc]. rewrite Hl. cbn [bind_node].
    assert (s0 = a) as -> by (destruct a; simpl in Et; try discriminate; inversion Et; reflexivity).
    exists (NSlice (node_type ln) ln).
    split; [|split; [exact L1|split; [exact L2|discriminate]]].
    destruct o1 as [x|], o2 as [y|];
      try (destruct X1 as (nx & Hx & Tx)); try (destruct X2 as (ny & Hy & Ty));
      try rewrite Hx; try rewrite Hy; try rewrite Tx; try rewrite Ty;
      destruct (node_type ln) as [| | | | |f u|f u| | | |]; simpl in L1, L2; try discriminate; subst a;
      simpl in Et; try discriminate; simpl; try rewrite Tx; try rewrite Ty; reflexivity.
  - (* field access *)
    cbn [uniform] in Hu. apply andb_true_iff in Hu as [Hu1 Hc]. apply andb_true_iff in Hu1 as [_ Hu1].
    rewrite Hs in Hc. cbn [spec_tc] in Hs.
    destruct (spec_tc e) as [[k1 a]|] eqn:E1; [|discriminate].
    destruct (dot_type_s a) as [t'|] eqn:Ed; [|discriminate]. inversion Hs; subst.
    destruct (IHe Hu1 k a E1) as (ln & Hl & L1 & L2 & L3).
    cbn [tc]. rewrite Hl. cbn [bind_node].
    destruct (node_type ln) as [| | | | |f u|f u| | | |] eqn:El; simpl in L1, L2; try discriminate; subst a;
      simpl in Ed; try discriminate; inversion Ed; subst; simpl.
    rewrite (infer_id u L1 (closed_erase_inv u L1 Hc)).
    eexists. split; [reflexivity|]. split; [simpl; rewrite (proj1 (fixed_type_keeps u)); exact L1|].
    split; [simpl; apply erase_fixed_type|discriminate].
  - (* type assertion *)
    cbn [uniform] in Hu. apply andb_true_iff in Hu as [_ Hu]. cbn [spec_tc] in Hs.
    destruct (spec_tc e) as [[k1 a]|] eqn:E1; [|discriminate].
    destruct a; try discriminate.
    destruct (negb (sty_eqb t SAny) && closed t) eqn:Ec; [|discriminate]. inversion Hs; subst.
    destruct (IHe Hu k SAny E1) as (n & Hn & N1 & N2 & N3).
    cbn [tc]. rewrite Hn. cbn [bind_node].
    apply andb_true_iff in Ec as [Ec1 Ec2].
    assert (Hv : validate_assert (node_type n) (embed s0) = true).
    { apply (assert_rule _ _ N1 Ec2). unfold AssertOk. rewrite N2. split; [reflexivity|]. split; [|exact Ec2].
      apply negb_true_iff in Ec1. apply sty_eqb_neq in Ec1. exact Ec1. }
    rewrite Hv. eexists. split; [reflexivity|].
    split; [simpl; rewrite (proj1 (fixed_type_keeps _)); apply spec_embed|].
    split; [simpl; rewrite erase_fixed_type; apply erase_embed|discriminate].
  - (* loop variable: outside the fragment *)
    discriminate Hu.
Qed.

(* ====================================================================== *)
(* statement contexts: Types.check on uniform values meeting a slot of their own type *)
(* ====================================================================== *)
Lemma accepts_same : forall l r top rf, spec_ty l = true -> spec_ty r = true -> erase l = erase r ->
  accepts_from top rf l r = true.
Proof.
  induction l as [| | | | |f l IHl|f l IHl| | | |]; intros r top rf Hl Hr He;
    destruct r; simpl in Hl, Hr, He; try discriminate; try reflexivity;
    inversion He; simpl; apply IHl; assumption.
Qed.

Lemma check_accept_exact target n : spec_ty target = true -> good n (erase target) ->
  check_accept target (ONode n false) = Accept target (shown_type n).
Proof.
  intros Ht (G1 & G2 & _). unfold check_accept, accepts.
  rewrite (accepts_same target (node_type n) true false Ht G1 (eq_sym G2)).
  rewrite (wrap_same n target Ht G1 G2). reflexivity.
Qed.

Lemma check_accept_any n s : good n s -> exists shown, check_accept TAny (ONode n false) = Accept TAny shown.
Proof.
  intros (G1 & G2 & G3). unfold check_accept.
  assert (accepts TAny (node_type n) = true) as ->.
  { destruct (node_type n); simpl in G1; try discriminate; reflexivity. }
  assert (exists n', wrap_any n TAny = Some n') as (n' & ->).
  { destruct (infer_node n) as [v|] eqn:Ei; [|contradiction].
    destruct n; cbn [wrap_any node_type is_any]; cbv zeta;
      match goal with |- exists _, (if ?c then _ else _) = _ => destruct c; [eauto|] end;
      rewrite Ei; eauto. }
  eauto.
Qed.

Section Contexts.
  Context (e : expr) (k : kind) (s : sty).
  Hypothesis (Hu : uniform e = true) (Hs : spec_tc e = Some (k, s)).

  (* a value meeting a slot of its own type: assignment, parameter, variadic parameter, return *)
  Theorem impl_value : exists shown,
    check (CAssign s) e = Accept (fixed_type (embed s)) shown /\
    check (CParam s) e = Accept (fixed_type (embed s)) shown /\
    check (CVariadic s) e = Accept (fixed_type (embed s)) shown /\
    check (CReturn s) e = Accept (embed s) shown.
  Proof.
    destruct (tc_uniform e Hu k s Hs) as (n & Hn & Hg). exists (shown_type n). unfold check. rewrite Hn.
    assert (A : forall target, spec_ty target = true -> erase target = s ->
              check_accept target (ONode n false) = Accept target (shown_type n)).
    { intros target T1 T2. apply check_accept_exact; [exact T1|rewrite T2; exact Hg]. }
    assert (F1 : spec_ty (fixed_type (embed s)) = true) by (rewrite (proj1 (fixed_type_keeps _)); apply spec_embed).
    assert (F2 : erase (fixed_type (embed s)) = s) by (rewrite erase_fixed_type; apply erase_embed).
    repeat split; apply A; auto using spec_embed, erase_embed.
  Qed.

  (* ... or a slot of type any *)
  Theorem impl_value_any : exists shown, check (CAssign SAny) e = Accept TAny shown.
  Proof.
    destruct (tc_uniform e Hu k s Hs) as (n & Hn & Hg). unfold check. rewrite Hn. simpl fixed_type.
    exact (check_accept_any n s Hg).
  Qed.

  Theorem impl_cond : s = SBool -> check CCond e = Accept TBool TBool.
  Proof.
    intros ->. destruct (tc_uniform e Hu k SBool Hs) as (n & Hn & G1 & G2 & _). unfold check. rewrite Hn.
    destruct (node_type n); simpl in G1, G2; try discriminate. reflexivity.
  Qed.

  Theorem impl_decl : closed s = true -> exists T shown, check CDecl e = Accept T shown /\ erase T = s.
  Proof.
    intros Hc. destruct (tc_uniform e Hu k s Hs) as (n & Hn & G1 & G2 & G3). unfold check. rewrite Hn.
    rewrite (spec_not_none _ G1).
    assert (He : has_empty (node_type n) = false) by (apply closed_erase_inv; [exact G1|rewrite G2; exact Hc]).
    rewrite (infer_id _ G1 He).
    rewrite (wrap_same n (fixed_type (node_type n))).
    - eexists. eexists. split; [reflexivity|]. rewrite erase_fixed_type. exact G2.
    - rewrite (proj1 (fixed_type_keeps _)). exact G1.
    - exact G1.
    - symmetry. apply erase_fixed_type.
  Qed.

  Theorem impl_generic_array : is_array_b s = true -> exists shown, check CGenericArr e = Accept TGenArr shown.
  Proof.
    intros Ha. destruct (tc_uniform e Hu k s Hs) as (n & Hn & G1 & G2 & G3). unfold check, check_accept. rewrite Hn.
    rewrite accepts_generic_array.
    assert (is_array_name (node_type n) = true) as ->.
    { destruct (node_type n); simpl in G1, G2; subst s; simpl in Ha; try discriminate; reflexivity. }
    assert (wrap_any n TGenArr = Some n) as ->; [|eauto].
    destruct n; cbn [wrap_any node_type is_any is_generic]; cbv zeta;
      match goal with |- (if ?c then _ else _) = _ => destruct c; reflexivity end.
  Qed.

  Theorem impl_generic_map : is_map_b s = true -> exists shown, check CGenericMap e = Accept TGenMap shown.
  Proof.
    intros Ha. destruct (tc_uniform e Hu k s Hs) as (n & Hn & G1 & G2 & G3). unfold check, check_accept. rewrite Hn.
    rewrite accepts_generic_map.
    assert (is_map_name (node_type n) = true) as ->.
    { destruct (node_type n); simpl in G1, G2; subst s; simpl in Ha; try discriminate; reflexivity. }
    assert (wrap_any n TGenMap = Some n) as ->; [|eauto].
    destruct n; cbn [wrap_any node_type is_any is_generic]; cbv zeta;
      match goal with |- (if ?c then _ else _) = _ => destruct c; reflexivity end.
  Qed.

  (* the range operand: the same loop-variable type as the specification gives *)
  Theorem impl_range : match s with SArr u => closed u = true | _ => True end ->
    forall st sh, spec_check CRange e = SAccept st sh ->
    exists T, check CRange e = Accept T T /\ erase T = st.
  Proof.
    intros Hc st sh Hsp. destruct (tc_uniform e Hu k s Hs) as (n & Hn & G1 & G2 & G3).
    unfold spec_check in Hsp. rewrite Hs in Hsp. unfold check. rewrite Hn.
    destruct (node_type n) as [| | | | |f u|f u| | | |]; simpl in G1, G2; try discriminate; subst s;
      simpl in Hsp; try discriminate; inversion Hsp; subst; unfold range_var_type; simpl;
      try (eexists; split; reflexivity).
    rewrite (infer_id u G1 (closed_erase_inv u G1 Hc)). simpl.
    eexists. split; [reflexivity|]. rewrite erase_fixed_type. symmetry.
    clear -Hc. induction (erase u); simpl in *; try reflexivity; try discriminate; f_equal; auto.
  Qed.
End Contexts.

(* ---------- assignment to a target chain ---------- *)
Fixpoint uniform_steps (steps : list tstep) : bool :=
  match steps with
  | [] => true
  | TIdx i :: r => uniform i && uniform_steps r
  | _ :: r => uniform_steps r
  end.

Lemma target_outcome_ok : forall steps t ks st,
  spec_ty t = true -> has_empty t = false -> uniform_steps steps = true ->
  spec_steps steps = Some ks -> target_chain_s (erase t) ks = Some st ->
  exists T, target_outcome t false steps = TNode T false /\ erase T = st /\ spec_ty T = true /\ has_empty T = false.
Proof.
  induction steps as [|stp steps IH]; intros t ks st Ht He Hu Hk Hc.
  - simpl in Hk. inversion Hk; subst. simpl in Hc. inversion Hc; subst. exists t. auto.
  - destruct stp as [i| |sl|ta].
    + (* index step *)
      simpl in Hu. apply andb_true_iff in Hu as [Hu1 Hu2]. simpl in Hk.
      destruct (spec_tc i) as [[ki it]|] eqn:Ei; [|discriminate].
      destruct (spec_steps steps) as [ks'|] eqn:Ek; [|discriminate]. inversion Hk; subst ks. simpl in Hc.
      destruct (target_step_s (erase t) (SKIdx it)) as [t1|] eqn:Es; [|discriminate].
      destruct (tc_uniform i Hu1 ki it Ei) as (inode & Hi & I1 & I2 & _).
      pose proof (target_step_spec t (KIdx (node_type inode)) Ht He I1) as St.
      change (erase_step (KIdx (node_type inode))) with (SKIdx (erase (node_type inode))) in St. rewrite I2, Es in St.
      destruct St as (T1 & E1 & E2 & S1 & N1).
      destruct (IH T1 ks' st S1 N1 Hu2 eq_refl) as (T & HT & R); [rewrite E2; exact Hc|].
      exists T. split; [|exact R]. cbn [target_outcome]. rewrite Hi, E1.
      destruct t; simpl in Ht, Es; try discriminate; simpl; exact HT.
    + (* dot step *)
      simpl in Hu. simpl in Hk.
      destruct (spec_steps steps) as [ks'|] eqn:Ek; [|discriminate]. inversion Hk; subst ks. simpl in Hc.
      destruct (target_step_s (erase t) SKDot) as [t1|] eqn:Es; [|discriminate].
      pose proof (target_step_spec t KDot Ht He eq_refl) as St.
      change (erase_step KDot) with SKDot in St. rewrite Es in St.
      destruct St as (T1 & E1 & E2 & S1 & N1).
      destruct (IH T1 ks' st S1 N1 Hu eq_refl) as (T & HT & R); [rewrite E2; exact Hc|].
      exists T. split; [|exact R]. cbn [target_outcome]. rewrite E1. exact HT.
    + simpl in Hk. destruct (spec_steps steps); [|discriminate]. inversion Hk; subst ks. simpl in Hc.
      destruct (erase t); discriminate.
    + simpl in Hk. destruct (spec_steps steps); [|discriminate]. inversion Hk; subst ks. simpl in Hc.
      destruct (erase t); discriminate.
Qed.

(* v<steps> = e  with the value of exactly the target's type *)
Theorem impl_assign_to e k root steps ks st :
  uniform e = true -> closed root = true -> uniform_steps steps = true ->
  spec_steps steps = Some ks -> target_chain_s root ks = Some st -> spec_tc e = Some (k, st) ->
  exists T shown, check (CAssignTo root steps) e = Accept T shown /\ erase T = st.
Proof.
  intros Hu Hc Hus Hk Hch Hs.
  assert (F1 : spec_ty (fixed_type (embed root)) = true) by (rewrite (proj1 (fixed_type_keeps _)); apply spec_embed).
  assert (F2 : erase (fixed_type (embed root)) = root) by (rewrite erase_fixed_type; apply erase_embed).
  assert (F3 : has_empty (fixed_type (embed root)) = false).
  { rewrite (proj2 (fixed_type_keeps _)). apply closed_embed_iff. exact Hc. }
  destruct (target_outcome_ok steps _ ks st F1 F3 Hus Hk) as (T & HT & T1 & T2 & T3); [rewrite F2; exact Hch|].
  destruct (tc_uniform e Hu k st Hs) as (n & Hn & Hg).
  exists T, (shown_type n). split; [|exact T1]. unfold check. rewrite HT, Hn.
  rewrite (check_accept_exact T n T2); [reflexivity|rewrite T1; exact Hg].
Qed.

(* ====================================================================== *)
(* conversely: what the implementation types without error, the specification types *)
(* ====================================================================== *)
Definition tc_def (e : expr) : Prop :=
  uniform e = true -> forall n, tc e = ONode n false -> exists k s, spec_tc e = Some (k, s).

Lemma tc_node e (Hu : uniform e = true) k s n :
  spec_tc e = Some (k, s) -> tc e = ONode n false -> good n s.
Proof.
  intros Hs Hn. destruct (tc_uniform e Hu k s Hs) as (n' & Hn' & Hg). rewrite Hn in Hn'. inversion Hn'; subst. exact Hg.
Qed.

Lemma seq_inv : forall els ns, seq_outcomes (map tc els) = Some (Some (ns, false)) ->
  Forall (fun e => exists n, tc e = ONode n false) els.
Proof.
  induction els as [|e els IH]; intros ns H; [constructor|]. simpl in H.
  destruct (tc e) as [n er| |] eqn:Et; try discriminate.
  destruct (is_none (node_type n)); [discriminate|].
  destruct (seq_outcomes (map tc els)) as [[[ns' er']|]|] eqn:Es; try discriminate.
  inversion H; subst. apply orb_false_iff in H2 as [-> ->].
  constructor; [eauto|]. eapply IH; reflexivity.
Qed.

Lemma all_def : forall els, Forall tc_def els -> uniforms els = true ->
  Forall (fun e => exists n, tc e = ONode n false) els -> exists ks, all_some (map spec_tc els) = Some ks.
Proof.
  induction els as [|e els IH]; intros HF Hu Hn; simpl; [eauto|].
  inversion HF as [|? ? He HF']; subst. inversion Hn as [|? ? [n Hne] Hn']; subst.
  simpl in Hu. apply andb_true_iff in Hu as [Hu1 Hu2].
  destruct (He Hu1 n Hne) as (k & s & ->). destruct (IH HF' Hu2 Hn') as (ks & ->). eauto.
Qed.

Lemma bound_conv x : tc_def x -> uniform x = true ->
  forall nx, tc x = ONode nx false -> is_num (node_type nx) = true -> exists k', sbound (Some x) = Some k'.
Proof.
  intros IH Hu nx Hx Hnum. destruct (IH Hu nx Hx) as (kx & tx & Hs).
  destruct (tc_node x Hu kx tx nx Hs Hx) as (_ & G2 & _).
  simpl. rewrite Hs. destruct (node_type nx); try discriminate. simpl in G2. subst tx. eauto.
Qed.

Theorem tc_uniform_conv : forall e, tc_def e.
Proof.
  induction e as [| | |t|t|els H|els H|op e1 e2 IHe1 IHe2|op e IHe|e IHe|e1 e2 IHe1 IHe2|e1 o1 o2 IHe1 IHo1 IHo2|e IHe|e t IHe|r IHr]
    using sexpr_ind; intros Hu n Hn; try (simpl; eauto; fail).
  - (* array literal *)
    rewrite uniform_EArr in Hu. apply andb_true_iff in Hu as [Hu1 _]. cbn [tc] in Hn.
    destruct (seq_outcomes (map tc els)) as [[[ns er]|]|] eqn:Es; try discriminate.
    assert (er = false) as ->.
    { destruct ns; [inversion Hn; reflexivity|]. destruct (combine _); [|discriminate].
      destruct (wrap_all _ _); [|discriminate]. inversion Hn; reflexivity. }
    destruct (all_def els H Hu1 (seq_inv els ns Es)) as (ks & Hk). cbn [spec_tc]. rewrite Hk.
    destruct ks; eauto.
  - (* map literal *)
    rewrite uniform_EMap in Hu. apply andb_true_iff in Hu as [Hu1 _]. cbn [tc] in Hn.
    destruct (seq_outcomes (map tc els)) as [[[ns er]|]|] eqn:Es; try discriminate.
    assert (er = false) as ->.
    { destruct ns; [inversion Hn; reflexivity|]. destruct (combine _); [|discriminate].
      destruct (wrap_all _ _); [|discriminate]. inversion Hn; reflexivity. }
    destruct (all_def els H Hu1 (seq_inv els ns Es)) as (ks & Hk). cbn [spec_tc]. rewrite Hk.
    destruct ks; eauto.
  - (* binary operator *)
    cbn [uniform] in Hu. apply andb_true_iff in Hu as [Hu _]. apply andb_true_iff in Hu as [Hu1 Hu2].
    cbn [tc] in Hn.
    destruct (tc e1) as [ln le| |] eqn:E1; try discriminate. cbn [bind_node] in Hn.
    destruct (tc e2) as [rn re| |] eqn:E2; try discriminate. cbn [bind_node] in Hn.
    destruct (validate_binary op (node_type ln) (node_type rn)) eqn:Hv; [|discriminate].
    inversion Hn as [[Hn1 Hn2]]. apply orb_false_iff in Hn2 as [-> ->].
    destruct (IHe1 Hu1 ln E1) as (k1 & a & Ha). destruct (IHe2 Hu2 rn E2) as (k2 & b & Hb).
    destruct (tc_node e1 Hu1 k1 a ln Ha E1) as (L1 & L2 & _).
    destruct (tc_node e2 Hu2 k2 b rn Hb E2) as (R1 & R2 & _).
    rewrite validate_binary_spec in Hv by assumption. rewrite L2, R2 in Hv.
    cbn [spec_tc]. rewrite Ha, Hb. destruct (op_type op a b); [eauto|discriminate].
  - (* unary operator *)
    cbn [uniform] in Hu. cbn [tc] in Hn.
    destruct (tc e) as [rn re| |] eqn:E1; try discriminate. cbn [bind_node] in Hn.
    destruct (validate_unary op (node_type rn)) eqn:Hv; [|discriminate]. inversion Hn; subst.
    destruct (IHe Hu rn E1) as (k1 & a & Ha).
    destruct (tc_node e Hu k1 a rn Ha E1) as (R1 & R2 & _).
    cbn [spec_tc]. rewrite Ha.
    destruct op, (node_type rn); simpl in Hv, R1, R2; try discriminate; subst a; simpl; eauto.
  - (* group *)
    cbn [uniform] in Hu. cbn [tc] in Hn.
    destruct (tc e) as [gn ge| |] eqn:E1; try discriminate. cbn [bind_node] in Hn. inversion Hn; subst.
    exact (IHe Hu gn E1).
  - (* index *)
    cbn [uniform] in Hu. apply andb_true_iff in Hu as [Hu _]. apply andb_true_iff in Hu as [Hu1 Hu2].
    apply andb_true_iff in Hu1 as [Hne Hu1]. unfold not_empty_base in Hne.
    cbn [tc] in Hn.
    destruct (tc e1) as [ln le| |] eqn:E1; try discriminate. cbn [bind_node] in Hn.
    destruct (negb _) eqn:Hname in Hn; [discriminate|].
    destruct (tc e2) as [rn re| |] eqn:E2; try discriminate. cbn [bind_node] in Hn.
    destruct (index_type (node_type ln) (node_type rn)) as [ti|] eqn:Ei;
      [|destruct (is_generic (node_type ln)); discriminate].
    destruct (infer ti); [|discriminate]. inversion Hn as [[Hn1 Hn2]]. apply orb_false_iff in Hn2 as [-> ->].
    destruct (IHe1 Hu1 ln E1) as (k1 & a & Ha). destruct (IHe2 Hu2 rn E2) as (k2 & b & Hb).
    destruct (tc_node e1 Hu1 k1 a ln Ha E1) as (L1 & L2 & _).
    destruct (tc_node e2 Hu2 k2 b rn Hb E2) as (R1 & R2 & _).
    cbn [spec_tc]. rewrite Ha, Hb. rewrite Ha in Hne. unfold index_type in Ei.
    destruct (node_type ln); simpl in L1, L2; try discriminate; subst a; try discriminate Hne;
      destruct (node_type rn); simpl in R1, R2; try discriminate; subst b; simpl in Ei; try discriminate; simpl; eauto.
  - (* slice *)
    cbn [uniform] in Hu. apply andb_true_iff in Hu as [Hu Hu3]. apply andb_true_iff in Hu as [Hu1 Hu2].
    cbn [tc] in Hn.
    destruct (tc e1) as [ln le| |] eqn:E1; try discriminate. cbn [bind_node] in Hn.
    assert (X : le = false /\ exists k1 k2, sbound o1 = Some k1 /\ sbound o2 = Some k2 /\
                  (is_array_name (node_type ln) || is_string (node_type ln) = true)).
    { destruct o1 as [x|], o2 as [y|]; simpl in IHo1, IHo2, Hu2, Hu3; cbv zeta in Hn;
        repeat match type of Hn with
               | (if ?c then _ else _) = _ => let E := fresh "C" in destruct c eqn:E; [discriminate|]
               | match tc ?z with _ => _ end = _ => let E := fresh "T" in destruct (tc z) eqn:E; try discriminate
               end;
        match type of Hn with match ?st with _ => _ end = _ => destruct st eqn:Est; [|discriminate] end;
        inversion Hn as [[Hn1 Hn2]];
        repeat (apply orb_false_iff in Hn2 as [Hn2 ?]); subst;
        unfold slice_type in Est;
        repeat match type of Est with (if ?c then _ else _) = _ => let E := fresh "D" in destruct c eqn:E; [discriminate|] end;
        (split; [reflexivity|]);
        repeat match goal with H : negb _ = false |- _ => apply negb_false_iff in H end.
      - destruct (bound_conv x IHo1 Hu2 _ T ltac:(assumption)) as (k1 & B1).
        destruct (bound_conv y IHo2 Hu3 _ T0 ltac:(assumption)) as (k2 & B2). eauto 6.
      - destruct (bound_conv x IHo1 Hu2 _ T ltac:(assumption)) as (k1 & B1). exists k1, KConst. auto.
      - destruct (bound_conv y IHo2 Hu3 _ T ltac:(assumption)) as (k2 & B2). exists KConst, k2. auto.
      - exists KConst, KConst. auto. }
    destruct X as (-> & k1' & k2' & B1 & B2 & Hname).
    destruct (IHe1 Hu1 ln E1) as (k1 & a & Ha).
    destruct (tc_node e1 Hu1 k1 a ln Ha E1) as (L1 & L2 & _).
    rewrite spec_tc_ESlice, Ha, B1, B2.
    destruct (node_type ln); simpl in L1, L2, Hname; try discriminate; subst a; simpl; eauto.
  - (* field access *)
    cbn [uniform] in Hu. apply andb_true_iff in Hu as [Hu1 _]. apply andb_true_iff in Hu1 as [Hne Hu1].
    unfold not_empty_base in Hne. cbn [tc] in Hn.
    destruct (tc e) as [ln le| |] eqn:E1; try discriminate. cbn [bind_node] in Hn.
    destruct (dot_type (node_type ln)) as [ti|] eqn:Ed; [|destruct (is_generic (node_type ln)); discriminate].
    destruct (infer ti); [|discriminate]. inversion Hn; subst.
    destruct (IHe Hu1 ln E1) as (k1 & a & Ha).
    destruct (tc_node e Hu1 k1 a ln Ha E1) as (L1 & L2 & _).
    cbn [spec_tc]. rewrite Ha. rewrite Ha in Hne. unfold dot_type in Ed.
    destruct (node_type ln); simpl in L1, L2; try discriminate; subst a; try discriminate Hne;
      simpl in Ed; try discriminate; simpl; eauto.
  - (* type assertion *)
    cbn [uniform] in Hu. apply andb_true_iff in Hu as [Hct Hu]. cbn [tc] in Hn.
    destruct (tc e) as [an ae| |] eqn:E1; try discriminate. cbn [bind_node] in Hn.
    inversion Hn as [[Hn1 Hn2]]. apply orb_false_iff in Hn2 as [-> Hv]. apply negb_false_iff in Hv.
    destruct (IHe Hu an E1) as (k1 & a & Ha).
    destruct (tc_node e Hu k1 a an Ha E1) as (L1 & L2 & _).
    cbn [spec_tc]. rewrite Ha.
    unfold validate_assert in Hv. apply andb_true_iff in Hv as [Hv1 Hv2].
    rewrite (is_any_erase _ L1), L2 in Hv2. apply sty_eqb_eq in Hv2. subst a.
    rewrite (is_any_erase _ (spec_embed t)), erase_embed in Hv1. rewrite Hv1. simpl.
    rewrite Hct. eauto.
  - (* loop variable: outside the fragment *)
    discriminate Hu.
Qed.

(* the two directions together: on the uniform fragment the implementation builds a node without
   error exactly when the specification types the expression, and the types agree *)
Theorem tc_spec_agree e : uniform e = true ->
  forall n, tc e = ONode n false -> exists k, spec_tc e = Some (k, erase (node_type n)).
Proof.
  intros Hu n Hn. destruct (tc_uniform_conv e Hu n Hn) as (k & s & Hs).
  destruct (tc_node e Hu k s n Hs Hn) as (_ & G2 & _). exists k. rewrite G2. exact Hs.
Qed.

(* the guard [not_empty_base] is needed: the implementation (like the parser) gives  [][0]  the type
   none without an error, the specification gives  [][0]  no type.
   (Until /repo c2a6828 the witness was  [][0] == [][0]  typed bool; validateBinaryType now rejects
   none-typed operands, Types.validate_binary mirrors that, so the comparison is an error on both sides.) *)
Lemma not_empty_base_needed :
  let e := EIndex (EArr []) ELitNum in
  (exists n, tc e = ONode n false /\ node_type n = TNone) /\ spec_tc e = None.
Proof. vm_compute. split; [eexists; split; reflexivity|reflexivity]. Qed.

Lemma none_operand_comparison_rejected_now :
  tc (EBin OpEq (EIndex (EArr []) ELitNum) (EIndex (EArr []) ELitNum)) = ONil.
Proof. vm_compute. reflexivity. Qed.
