(* FormatParse.v — token-level view of the formatter's output and the round trip
   "format an expression, parse it again" on the models:
     Format.fmt_expr  (format.go)  ->  toks_of_pieces  ->  Pratt.parse_expr (expression.go).

   Token-level view: every piece the formatter writes is one token (a [T] piece is the text of
   exactly one lexer token by construction; C06's tokens_of_ast is compared element by element
   with the real lexer's tokens of Format() on every run).  [tok_of_text] gives the token type of
   such a text from the generated keyword table; a string literal token carries the QUOTED text
   as its literal (strconv.Quote is injective, so trees compare as they do on values).  This is
   a direct translation, not the lexer model Lexer.v (cheaper; what it leaves to the
   correspondence run is "lexing the rendered text yields these tokens").
   Executable definitions only; proofs in FormatParseProofs.v. *)
From Coq Require Import List String NArith ZArith Bool Arith.
From EvyV Require Import Base FmtAst Format Pratt.
From EvyV.Gen Require Import Prec.
Import ListNotations.
Local Open Scope nat_scope.

(* ---------- texts -> tokens ---------- *)
Definition punct_table : list (str * toktype) := Eval compute in
  [(s_ "[", T_LBRACKET); (s_ "]", T_RBRACKET); (s_ "{", T_LCURLY); (s_ "}", T_RCURLY);
   (s_ "(", T_LPAREN); (s_ ")", T_RPAREN); (s_ ":", T_COLON); (s_ ".", T_DOT); (s_ "...", T_DOT3);
   (s_ ":=", T_DECLARE); (s_ "=", T_ASSIGN); (s_ "+", T_PLUS); (s_ "-", T_MINUS); (s_ "!", T_BANG);
   (s_ "*", T_ASTERISK); (s_ "/", T_SLASH); (s_ "%", T_PERCENT); (s_ "==", T_EQ); (s_ "!=", T_NOT_EQ);
   (s_ "<", T_LT); (s_ ">", T_GT); (s_ "<=", T_LTEQ); (s_ ">=", T_GTEQ)].

(* the keyword table, read off the generated Token.AsIdent table *)
Definition keyword_table : list (str * toktype) :=
  flat_map (fun t => match keyword_ident t with Some n => [(s_ n, t)] | None => [] end) all_toktypes.

Fixpoint assoc_tt (k : str) (l : list (str * toktype)) : option toktype :=
  match l with [] => None | (k', v) :: t => if str_eqb k' k then Some v else assoc_tt k t end.

Definition is_digit (c : N) : bool := (N.leb 48 c && N.leb c 57)%N.

Definition tok_of_text (s : str) : token :=
  match assoc_tt s punct_table with
  | Some t => mk t
  | None =>
      match assoc_tt s keyword_table with
      | Some t => mk t
      | None =>
          match s with
          | c :: _ => if is_digit c then {| ttype := T_NUM_LIT; tlit := s |} else {| ttype := T_IDENT; tlit := s |}
          | [] => {| ttype := T_ILLEGAL; tlit := [] |}
          end
      end
  end.

Definition tok_of_piece (p : piece) : list token :=
  match p with
  | T s => [tok_of_text s]
  | Q q => [{| ttype := T_STRING_LIT; tlit := q |}]
  | Cm c => [{| ttype := T_COMMENT; tlit := c |}]
  | Sp => [mk T_WS]
  | NL => [mk T_NL]
  | Ind 0 => []
  | Ind (S _) => [mk T_WS]
  end.

Definition toks_of_pieces (ps : list piece) : list token := flat_map tok_of_piece ps.

(* ---------- the tree a re-parse must give: the formatter's tree without positions and
   without the parser.Any wrappers (typing is not part of the Pratt model) ---------- *)
Fixpoint fty_ty (t : fty) : option ty :=
  match t with
  | FTy TNnum None => Some TyNum
  | FTy TNstring None => Some TyStr
  | FTy TNbool None => Some TyBool
  | FTy TNany None => Some TyAny
  | FTy TNarr (Some s) => option_map TyArr (fty_ty s)
  | FTy TNmap (Some s) => option_map TyMap (fty_ty s)
  | _ => None
  end.

Definition op_toktype (o : fop) : toktype :=
  match o with
  | OpIllegal => T_ILLEGAL | OpPlus => T_PLUS | OpMinus => T_MINUS | OpSlash => T_SLASH | OpAsterisk => T_ASTERISK
  | OpPercent => T_PERCENT | OpOr => T_OR | OpAnd => T_AND | OpEq => T_EQ | OpNotEq => T_NOT_EQ
  | OpLt => T_LT | OpGt => T_GT | OpLtEq => T_LTEQ | OpGtEq => T_GTEQ | OpIndex => T_LBRACKET
  | OpDot => T_DOT | OpBang => T_BANG
  end.

Fixpoint fexpr_tree (e : fexpr) : tree :=
  match e with
  | FVar n => TVar n
  | FNum _ t => TNum t
  | FStr _ q => TStr q
  | FBool b => TBool b
  | FAny e => fexpr_tree e
  | FArr _ els => TArr (map fexpr_tree els)
  | FMap _ keys vals => TMap (combine keys (map fexpr_tree vals))
  | FCall n args => TCall n (map fexpr_tree args)
  | FUn op r => TUn (op_toktype op) (fexpr_tree r)
  | FBin op _ l r => TBin (op_toktype op) (fexpr_tree l) (fexpr_tree r)
  | FIdx l i => TIndex (fexpr_tree l) (fexpr_tree i)
  | FSlice l s e => TSlice (fexpr_tree l) (option_map fexpr_tree s) (option_map fexpr_tree e)
  | FDot l k => TDot (fexpr_tree l) k
  | FAssert l t => TAssert (fexpr_tree l) (fty_ty t)
  | FGroup e => TGroup (fexpr_tree e)
  end.

(* lexical side conditions: names are identifiers (not keywords), numbers are number texts
   with at most one dot, asserted types are printable and not "any" *)
Definition ident_text (s : str) : bool :=
  match tok_of_text s with {| ttype := T_IDENT; tlit := l |} => str_eqb l s | _ => false end.
Definition num_text (s : str) : bool :=
  match tok_of_text s with {| ttype := T_NUM_LIT; tlit := l |} => str_eqb l s && num_lit_ok s | _ => false end.


(* ---------- the fragment the theorem covers, and the parser-shape conditions ---------- *)
(* no array / map literal, no call (the layered grammar of PrattProofs.v has no such productions);
   a dot key is an identifier that is not a keyword (m.for is legal evy, but the grammar's
   LDot production renders the key as an IDENT token) *)
Fixpoint frag (e : fexpr) : bool :=
  match e with
  | FVar _ | FNum _ _ | FStr _ _ | FBool _ => true
  | FAny e | FGroup e | FUn _ e | FAssert e _ => frag e
  | FDot e k => frag e && ident_text k
  | FArr _ _ | FMap _ _ _ | FCall _ _ => false
  | FBin _ _ l r | FIdx l r => frag l && frag r
  | FSlice l s e => frag l && match s with Some x => frag x | None => true end && match e with Some x => frag x | None => true end
  end.

(* the level of the outermost production: binary operators 1..6 (spec.md Precedence), unary 7, the rest 8 *)
Definition binop_rank (o : fop) : option nat :=
  match o with
  | OpOr => Some 1 | OpAnd => Some 2 | OpEq | OpNotEq => Some 3
  | OpLt | OpLtEq | OpGt | OpGtEq => Some 4 | OpPlus | OpMinus => Some 5
  | OpAsterisk | OpSlash | OpPercent => Some 6
  | _ => None
  end.
Definition is_unop (o : fop) : bool := match o with OpMinus | OpBang => true | _ => false end.

Fixpoint rank_of (e : fexpr) : nat :=
  match e with
  | FAny e => rank_of e
  | FBin op _ _ _ => match binop_rank op with Some r => r | None => 0 end
  | FUn _ _ => 7
  | _ => 8
  end.

(* parser-shaped: operands sit at the level the grammar requires (left-associative binary
   operators, unary above binary, postfix forms on primaries); grouping is explicit *)
Fixpoint prec_ok (e : fexpr) : bool :=
  match e with
  | FVar _ | FNum _ _ | FStr _ _ | FBool _ => true
  | FAny e | FGroup e => prec_ok e
  | FArr _ els => forallb prec_ok els
  | FMap _ _ vals => forallb prec_ok vals
  | FCall _ args => forallb prec_ok args
  | FUn op r => is_unop op && Nat.leb 7 (rank_of r) && prec_ok r
  | FBin op _ l r =>
      match binop_rank op with
      | Some k => Nat.leb k (rank_of l) && Nat.ltb k (rank_of r) && prec_ok l && prec_ok r
      | None => false
      end
  | FIdx l i => Nat.leb 8 (rank_of l) && prec_ok l && prec_ok i
  | FSlice l s e =>
      Nat.leb 8 (rank_of l) && prec_ok l && match s with Some x => prec_ok x | None => true end
      && match e with Some x => prec_ok x | None => true end
  | FDot l _ => Nat.leb 8 (rank_of l) && prec_ok l
  | FAssert l t => Nat.leb 8 (rank_of l) && prec_ok l
  end.

(* in a whitespace-sensitive context (call argument, array element, map value) every binary
   operator outside parentheses / brackets is written tight (formatting.wss) *)
Fixpoint tight (e : fexpr) : bool :=
  match e with
  | FAny e | FUn _ e | FDot e _ | FAssert e _ => tight e
  | FBin _ w l r => w && tight l && tight r
  | FIdx l _ | FSlice l _ _ => tight l
  | _ => true
  end.

Fixpoint lex_ok (e : fexpr) : bool :=
  match e with
  | FVar n => ident_text n
  | FNum _ t => num_text t
  | FStr _ _ | FBool _ => true
  | FAny e | FGroup e | FUn _ e => lex_ok e
  | FArr _ els => forallb lex_ok els
  | FMap _ _ vals => forallb lex_ok vals
  | FCall n args => ident_text n && forallb lex_ok args
  | FBin _ _ l r | FIdx l r => lex_ok l && lex_ok r
  | FSlice l s e => lex_ok l && match s with Some x => lex_ok x | None => true end && match e with Some x => lex_ok x | None => true end
  | FDot l _ => lex_ok l
  | FAssert l t => lex_ok l && match fty_ty t with Some TyAny | None => false | Some _ => true end
  end.

(* ---------- what the list-level theorems cover (FormatParseListProofs.item_ok without its
   environment conditions): the layered fragment, array / map literals of such items,
   parenthesised calls (f a b) and bare niladic calls, as whole expressions ---------- *)
Definition wsish (t : token) : bool :=
  match ttype t with T_WS | T_NL | T_COMMENT => true | _ => false end.

(* a text whose token is neither ILLEGAL nor the keyword func (Parse drops the former and its
   signature pre-pass reacts to the latter wherever it stands) *)
Definition tok_plain (s : str) : bool :=
  match ttype (tok_of_text s) with T_ILLEGAL | T_FUNC => false | _ => true end.

(* identifiers and keywords may be map keys; not `func`: parseFuncSignatures would take it for the
   start of a function definition *)
Definition key_text (k : str) : bool :=
  let kt := tok_of_text k in
  toktype_beq (ttype (as_ident kt)) T_IDENT && str_eqb (tlit (as_ident kt)) k && negb (wsish kt)
  && negb (toktype_beq (ttype kt) T_RCURLY) && negb (toktype_beq (ttype kt) T_EOF) && tok_plain k.

Fixpoint covered (fs : list (str * bool)) (w : bool) (e : fexpr) {struct e} : bool :=
  let all := fix all (l : list fexpr) : bool := match l with [] => true | x :: t => covered fs true x && all t end in
  let fn := fun n => lookup_func n fs in
  match e with
  | FAny e' => covered fs w e'
  | FArr items els => wf_expr (FArr items els) && all els
  | FMap items keys vals => wf_expr (FMap items keys vals) && forallb key_text keys && all vals
  | FGroup (FCall n args) => ident_text n && match fn n with Some false => true | _ => false end && all args
  | FCall n [] => ident_text n && match fn n with Some true => true | _ => false end
  | _ => frag e && prec_ok e && lex_ok e && (if w then tight e else true)
  end.

(* expression positions parsed by parseTopLevelExpr: additionally  f a b ...  *)
Fixpoint covered_top (fs : list (str * bool)) (e : fexpr) : bool :=
  match e with
  | FAny e' => covered_top fs e'
  | FCall n (a :: r) => ident_text n && match lookup_func n fs with Some false => true | _ => false end && forallb (covered fs true) (a :: r)
  | _ => covered fs false e
  end.

(* ---------- entry point for the correspondence run ---------- *)
(* case: (wss ((fname niladic) ...) (var ...) fexpr fexpr2)
     wss: is the expression an item of a whitespace-sensitive list (call argument / array element / map value)
     fexpr: the expression of the tree that was formatted; fexpr2: the expression at the same place of the real re-parse
   answer: (ok|nil|oof parsed-tree tree-of-fexpr tree-of-fexpr2 errs rest frag prec_ok tight lex_ok covered (token types...)) *)
Definition fmtparse_case (x : sx) : sx :=
  match x with
  | Lst [Sym tag; pr] =>
      (* (progtoks (prog ...)): the token types of everything the formatter writes for a program,
         compared by the harness with the real lexer's tokens of Format() (WS / NL / COMMENT included) *)
      if str_eqb tag (s_ "progtoks") then
        match dec_fprog pr with
        | Some p => Lst (map (fun t => tt_sx (ttype t)) (toks_of_pieces (fmt_prog current_fixes p)))
        | None => Sym (s_ "bad-case")
        end
      else Sym (s_ "bad-case")
  | Lst [w; Lst fs; Lst vs; ex; ex2] =>
    match decode_list decode_func fs, decode_list decode_str vs, dec_fexpr ex, dec_fexpr ex2 with
    | Some funcs, Some vars, Some e, Some e2 =>
      let E := {| e_funcs := funcs; e_vars := vars; e_arity := []; e_tyerr := fun _ _ _ => false; e_fix_slice := true |} in
      let toks := toks_of_pieces (fmt_expr current_fixes 0 e) in
      let wssb := sym_is w "true" in
      let st0 := init_state (toks ++ [mk T_NL]) in
      let st := if wssb then push_wss true st0 else st0 in
      let fuel := 2 * List.length toks + 10 in
      let flags := [sx_bool (frag e); sx_bool (prec_ok e); sx_bool (tight e); sx_bool (lex_ok e);
                    sx_bool (if wssb then covered funcs true e else covered_top funcs e);
                    Lst (map (fun t => tt_sx (ttype t)) toks)] in
      (* a list item is parsed by parseExprWSS -> parseExpr; any other expression position by parseTopLevelExpr *)
      match (if wssb then parse_expr E fuel lowestPrec st else parse_toplevel E (parse_expr E fuel) fuel st) with
      | None => Lst (Sym (s_ "oof") :: Lst [] :: tree_sx (fexpr_tree e) :: tree_sx (fexpr_tree e2) :: sx_nat 0 :: sx_nat 0 :: flags)
      | Some (r, st') =>
          Lst (Sym (s_ (match r with Some _ => "ok" | None => "nil" end))
               :: match r with Some t => tree_sx t | None => Lst [] end
               :: tree_sx (fexpr_tree e) :: tree_sx (fexpr_tree e2)
               :: sx_nat (List.length (errs st')) :: sx_nat (List.length (rest st')) :: flags)
      end
    | _, _, _, _ => Sym (s_ "bad-case")
    end
  | _ => Sym (s_ "bad-case")
  end.
