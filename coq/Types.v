(* Types.v — executable model of evy's static type relation as the parser
   implements it.  No proofs here (see TypesProofs.v); no reference to the
   specification (see TypesSpec.v).

   Mirrors, decision by decision:
     pkg/parser/type.go        Type, fixedType, String, Equals, accepts, matches, infer, combineTypes
     pkg/parser/ast.go         wrapAny, the [inferrer] implementations, BinaryExpression/UnaryExpression/GroupExpression.Type
     pkg/parser/expression.go  parseBinaryExpr, validateBinaryType, validateUnaryType, parseIndexOrSliceExpr,
                               validateIndex, parseSlice, parseDotExpr, parseTypeAssertion, parseArrayLiteral,
                               parseMapLiteral
     pkg/parser/parser.go      parseInferredDeclStatement, parseAssignmentStatement, assertArgTypes,
                               parseReturnStatement, parseCondition, parseForStatement (range operand)

   Go's [*Type] values are compared BY POINTER in many places.  The interned
   variables NUM_TYPE … GENERIC_MAP are modelled as distinct constructors
   (checked by reading the parser: every [&Type{…}] outside type.go builds an
   ARRAY/MAP node with a non-nil, non-NONE_TYPE-by-construction Sub — see
   parseType, parseArrayLiteral, parseMapLiteral, parseFuncDefSignature,
   infer, combineTypes, BinaryExpression.infer; the only way to obtain an
   array whose Sub is NONE_TYPE other than EMPTY_ARRAY is a literal whose
   elements are calls of functions without result, which is the distinct
   shape [TArr _ TNone] here, printed "[]none" by Go).  All leaf types are
   the interned pointers (no code builds a fresh [&Type{Name: NUM}]), so
   pointer equality on leaves is name equality.  For composite nodes pointer
   equality is under-determined by the shape (the same variable used twice
   shares one pointer, two literals do not); [ptr_eq] takes the "all fresh"
   reading and TypesProofs.accepts_ptr_irrelevant shows the other readings
   give the same results. *)
From Coq Require Import List Bool NArith ZArith String.
From EvyV Require Import Base TypesSyntax.
From EvyV.Gen Require Import TypeNames.
Import ListNotations.

(* ---------- type.go: Type ---------- *)
Inductive ty : Set :=
| TNum | TString | TBool | TAny | TNone          (* NUM_TYPE STRING_TYPE BOOL_TYPE ANY_TYPE NONE_TYPE *)
| TArr (fx : bool) (s : ty)                      (* &Type{Name: ARRAY, Sub: s, Fixed: fx} *)
| TMap (fx : bool) (s : ty)                      (* &Type{Name: MAP,   Sub: s, Fixed: fx} *)
| TEmptyArr | TEmptyMap                          (* EMPTY_ARRAY EMPTY_MAP   (Sub: NONE_TYPE) *)
| TGenArr | TGenMap.                             (* GENERIC_ARRAY GENERIC_MAP (Sub: nil)     *)

(* field Name *)
Definition name (t : ty) : type_name :=
  match t with
  | TNum => NUM | TString => STRING | TBool => BOOL | TAny => ANY | TNone => NONE
  | TArr _ _ | TEmptyArr | TGenArr => ARRAY
  | TMap _ _ | TEmptyMap | TGenMap => MAP
  end.

(* field Sub (None = nil) *)
Definition sub (t : ty) : option ty :=
  match t with
  | TArr _ s | TMap _ s => Some s
  | TEmptyArr | TEmptyMap => Some TNone
  | _ => None
  end.

(* field Fixed *)
Definition fixed (t : ty) : bool :=
  match t with TArr f _ | TMap f _ => f | _ => false end.

Definition name_eqb (a b : type_name) : bool := Nat.eqb (type_name_index a) (type_name_index b).

Definition is_num (t : ty) : bool := match t with TNum => true | _ => false end.        (* t == NUM_TYPE *)
Definition is_string (t : ty) : bool := match t with TString => true | _ => false end.  (* t == STRING_TYPE *)
Definition is_bool (t : ty) : bool := match t with TBool => true | _ => false end.      (* t == BOOL_TYPE *)
Definition is_any (t : ty) : bool := match t with TAny => true | _ => false end.        (* t == ANY_TYPE; also t.Name == ANY *)
Definition is_none (t : ty) : bool := match t with TNone => true | _ => false end.      (* t == NONE_TYPE; also t.Name == NONE *)
Definition is_empty (t : ty) : bool := match t with TEmptyArr | TEmptyMap => true | _ => false end.   (* t == EMPTY_ARRAY || t == EMPTY_MAP *)
Definition is_empty_arr (t : ty) : bool := match t with TEmptyArr => true | _ => false end.
Definition is_empty_map (t : ty) : bool := match t with TEmptyMap => true | _ => false end.
Definition is_generic (t : ty) : bool := match t with TGenArr | TGenMap => true | _ => false end.     (* t == GENERIC_ARRAY || t == GENERIC_MAP *)
Definition is_array_name (t : ty) : bool := name_eqb (name t) ARRAY.
Definition is_map_name (t : ty) : bool := name_eqb (name t) MAP.

(* left == right on *Type, "every composite node is a fresh allocation" reading *)
Definition ptr_eq (a b : ty) : bool :=
  match a, b with
  | TNum, TNum | TString, TString | TBool, TBool | TAny, TAny | TNone, TNone
  | TEmptyArr, TEmptyArr | TEmptyMap, TEmptyMap | TGenArr, TGenArr | TGenMap, TGenMap => true
  | _, _ => false
  end.

(* func fixedType(t *Type) *Type *)
Definition fixed_type (t : ty) : ty :=
  match t with
  | TArr _ s => TArr true s
  | TMap _ s => TMap true s
  | _ => t
  end.

(* func (t *Type) String() string *)
Fixpoint type_string (t : ty) : str :=
  match t with
  | TArr _ s => type_name_format ARRAY ++ type_string s
  | TMap _ s => type_name_format MAP ++ type_string s
  | _ => type_name_format (name t)
  end.

(* func (t *Type) Equals(t2 *Type) bool — the loop, by recursion on left.
   When left has no composite Sub to walk into, the remaining iterations are
   spelled out: left.Sub is NONE_TYPE for the EMPTY shapes (one more
   iteration comparing NONE_TYPE with right.Sub) and nil otherwise (the loop
   ends and returns left == right on the two Subs). *)
Fixpoint equals (l r : ty) : bool :=
  if ptr_eq l r then true
  else if negb (name_eqb (name l) (name r)) then false
  else match l with
       | TArr _ l' | TMap _ l' => match sub r with Some r' => equals l' r' | None => false end
       | TEmptyArr | TEmptyMap => match sub r with Some r' => is_none r' | None => false end
       | _ => match sub r with None => true | Some _ => false end
       end.

(* func (t *Type) accepts(t2 *Type) bool.  [top] is "left == t",
   [rf] the sticky rightFixed variable. *)
Fixpoint accepts_from (top rf : bool) (l r : ty) : bool :=
  let rf := rf || fixed r in
  if ptr_eq l r then true
  else if is_any l && negb (is_none r) && (top || negb rf) then true
  else if negb (name_eqb (name l) (name r)) then false
  else if is_generic l then true
  else if is_empty r then true
  else match l with
       | TArr _ l' | TMap _ l' => match sub r with Some r' => accepts_from false rf l' r' | None => false end
       | TEmptyArr | TEmptyMap => match sub r with Some r' => is_none r' | None => false end
       | _ => match sub r with None => true | Some _ => false end
       end.

Definition accepts (t t2 : ty) : bool := accepts_from true false t t2.

(* func (t *Type) matches(t2 *Type) bool *)
Fixpoint matches (l r : ty) : bool :=
  if ptr_eq l r then true
  else if negb (name_eqb (name l) (name r)) then false
  else if is_empty l || is_empty r then true
  else match l with
       | TArr _ l' | TMap _ l' => match sub r with Some r' => matches l' r' | None => false end
       | TEmptyArr | TEmptyMap => match sub r with Some r' => is_none r' | None => false end
       | _ => match sub r with None => true | Some _ => false end
       end.

(* func (t *Type) infer() *Type.  None = nil dereference (t.Sub.infer() on
   the nil Sub of a GENERIC shape; never a value type in the parser). *)
Fixpoint infer (t : ty) : option ty :=
  match t with
  | TEmptyArr => Some (TArr false TAny)
  | TEmptyMap => Some (TMap false TAny)
  | TArr f s => match infer s with Some s' => Some (TArr f s') | None => None end
  | TMap f s => match infer s with Some s' => Some (TMap f s') | None => None end
  | TGenArr | TGenMap => None
  | _ => Some t
  end.

(* &Type{Name: t.Name, Sub: sub} for a composite name *)
Definition mk_composite (n : ty) (s : ty) : ty :=
  if is_array_name n then TArr false s else TMap false s.

(* func (t *Type) hasFixed() bool *)
Fixpoint has_fixed (t : ty) : bool :=
  match t with TArr f s | TMap f s => f || has_fixed s | _ => false end.

(* func mergeFixed(t, t2 *Type) *Type *)
Fixpoint merge_fixed (t t2 : ty) : ty :=
  if negb (has_fixed t2) || ptr_eq t t2 then t
  else if negb (has_fixed t) then t2
  else match t, sub t2 with
       | TArr f s, Some s2 => TArr (f || fixed t2) (merge_fixed s s2)
       | TMap f s, Some s2 => TMap (f || fixed t2) (merge_fixed s s2)
       | _, _ => t          (* t.Sub == nil || t2.Sub == nil || t == EMPTY_ARRAY || t == EMPTY_MAP *)
       end.

(* func combineTypes(types []*Type) *Type — one loop iteration.
   [comb sw a b]: combinedT and t are (a, b) when sw = false and (b, a) when
   sw = true (the recursive call combineTypes([]*Type{t.Sub, combinedT.Sub})
   swaps the roles; recursion is on [a] either way).  "return ANY_TYPE" is
   rendered as continuing with combinedT = ANY_TYPE, which is the same
   function (once combinedT is ANY_TYPE every later iteration keeps it or
   returns ANY_TYPE).  None = nil dereference (GENERIC shapes only: the
   recursive call on a nil Sub evaluates t.Fixed / combinedT.Fixed on nil). *)
Fixpoint comb (sw : bool) (a b : ty) {struct a} : option ty :=
  let c := if sw then b else a in
  let t := if sw then a else b in
  if equals c t then Some (merge_fixed c t)
  else if fixed t || fixed c then
    (if fixed c && negb (fixed t) && accepts c t then Some c
     else if fixed t && negb (fixed c) && accepts t c then Some t
     else Some TAny)
  else if (is_array_name t || is_map_name t) && name_eqb (name t) (name c) then
    if is_empty t then Some c
    else if is_empty c then Some t
    else match a with
         | TArr _ a' | TMap _ a' =>
             match sub b with
             | Some b' => match comb (negb sw) a' b' with
                          | Some s => Some (mk_composite t s)
                          | None => None
                          end
             | None => None
             end
         | _ => None
         end
  else Some TAny.

Definition combine2 (c t : ty) : option ty := comb false c t.

Fixpoint combine_from (c : ty) (ts : list ty) : option ty :=
  match ts with
  | [] => Some c
  | t :: rest => match combine2 c t with Some c' => combine_from c' rest | None => None end
  end.

(* None on the empty list = index out of range on types[0] *)
Definition combine (ts : list ty) : option ty :=
  match ts with [] => None | c :: rest => combine_from c rest end.

(* ---------- AST nodes as far as wrapAny distinguishes them ---------- *)
Inductive node : Set :=
| NArrLit (t : ty) (els : list node)     (* *ArrayLiteral{T, Elements} *)
| NMapLit (t : ty) (els : list node)     (* *MapLiteral{T, Pairs} (values in Order) *)
| NBin (t : ty) (op : binop) (l r : node) (* *BinaryExpression{T, Op, Left, Right} *)
| NSlice (t : ty) (l : node)             (* *SliceExpression{T, Left} (bounds are num nodes, never converted) *)
| NGroup (e : node)                      (* *GroupExpression{Expr} *)
| NAny (e : node)                        (* *Any{Value} *)
| NLeaf (t : ty).                        (* every other expression node: Var, basic literals, FuncCall,
                                            UnaryExpression, IndexExpression, DotExpression,
                                            TypeAssertion — none is an inferrer or a composite literal *)

(* Node.Type() *)
Fixpoint node_type (n : node) : ty :=
  match n with
  | NArrLit t _ | NMapLit t _ | NBin t _ _ _ | NSlice t _ | NLeaf t => t
  | NGroup e => node_type e
  | NAny _ => TAny
  end.

Definition is_inferrer (n : node) : bool :=
  match n with NArrLit _ _ | NMapLit _ _ | NBin _ _ _ _ | NGroup _ => true | _ => false end.

Fixpoint map_opt {A B} (f : A -> option B) (l : list A) : option (list B) :=
  match l with
  | [] => Some []
  | x :: t => match f x with
              | Some y => match map_opt f t with Some t' => Some (y :: t') | None => None end
              | None => None
              end
  end.

(* the infer() methods of ArrayLiteral, MapLiteral, BinaryExpression,
   GroupExpression; identity on nodes that are not inferrers (callers test
   [val.(inferrer)]).  None = Go panic (nil dereference in Type.infer). *)
Fixpoint infer_node (n : node) : option node :=
  match n with
  | NArrLit t els =>
      match infer t with
      | Some t' => match (fix go (l : list node) : option (list node) :=
                            match l with
                            | [] => Some []
                            | x :: r => match infer_node x with
                                        | Some y => match go r with Some r' => Some (y :: r') | None => None end
                                        | None => None
                                        end
                            end) els with
                   | Some els' => Some (NArrLit t' els')
                   | None => None
                   end
      | None => None
      end
  | NMapLit t els =>
      match infer t with
      | Some t' => match (fix go (l : list node) : option (list node) :=
                            match l with
                            | [] => Some []
                            | x :: r => match infer_node x with
                                        | Some y => match go r with Some r' => Some (y :: r') | None => None end
                                        | None => None
                                        end
                            end) els with
                   | Some els' => Some (NMapLit t' els')
                   | None => None
                   end
      | None => None
      end
  | NBin t op l r => Some (if is_empty_arr t then NBin (TArr true TAny) op l r else n)
  | NGroup e =>                               (* if inf, ok := d.Expr.(inferrer); ok { inf.infer() } *)
      if is_inferrer e then match infer_node e with Some e' => Some (NGroup e') | None => None end
      else Some n
  | _ => Some n
  end.

Definition is_plus (op : binop) : bool := match op with OpPlus => true | _ => false end.
Definition is_asterisk (op : binop) : bool := match op with OpAsterisk => true | _ => false end.

(* func wrapAny(val Node, targetType *Type) Node.  None = panic("internal error …"). *)
Fixpoint wrap_any (val : node) (target : ty) {struct val} : option node :=
  let vt := node_type val in
  if equals target vt then Some val
  else if is_any target then
    match infer_node val with Some v => Some (NAny v) | None => None end
  else if is_generic target then Some val
  else if is_empty_arr vt then
    match val with
    | NArrLit _ els => Some (NArrLit target els)
    | NBin _ op l r =>
        match wrap_any l target with
        | Some l' =>
            if is_asterisk op then Some (NBin target op l' r)     (* [] * n: the right operand is the count *)
            else match wrap_any r target with
                 | Some r' => Some (NBin target op l' r')
                 | None => None
                 end
        | None => None
        end
    | NGroup e => match wrap_any e target with Some e' => Some (NGroup e') | None => None end
    | NSlice _ l => match wrap_any l target with Some l' => Some (NSlice target l') | None => None end   (* [][:] is as untyped as [] *)
    | _ => None
    end
  else if is_empty_map vt then
    match val with
    | NMapLit _ els => Some (NMapLit target els)
    | NGroup e => match wrap_any e target with Some e' => Some (NGroup e') | None => None end
    | _ => None
    end
  else
    match val with
    | NArrLit _ els =>
        if is_array_name target then
          match sub target with
          | Some st =>
              match (fix go (l : list node) : option (list node) :=
                       match l with
                       | [] => Some []
                       | x :: r => match wrap_any x st with
                                   | Some y => match go r with Some r' => Some (y :: r') | None => None end
                                   | None => None
                                   end
                       end) els with
              | Some els' => Some (NArrLit target els')
              | None => None
              end
          | None => None
          end
        else None
    | NMapLit _ els =>
        if is_map_name target then
          match sub target with
          | Some st =>
              match (fix go (l : list node) : option (list node) :=
                       match l with
                       | [] => Some []
                       | x :: r => match wrap_any x st with
                                   | Some y => match go r with Some r' => Some (y :: r') | None => None end
                                   | None => None
                                   end
                       end) els with
              | Some els' => Some (NMapLit target els')
              | None => None
              end
          | None => None
          end
        else None
    (* "Composite literals inside a grouping, concatenation, repetition or slice
       are coerced like the literals themselves." *)
    | NGroup e => match wrap_any e target with Some e' => Some (NGroup e') | None => None end
    | NBin _ op l r =>
        if is_array_name target && (is_plus op || is_asterisk op) then
          match wrap_any l target with
          | Some l' =>
              if is_plus op then
                match wrap_any r target with
                | Some r' => Some (NBin target op l' r')
                | None => None
                end
              else Some (NBin target op l' r)
          | None => None
          end
        else None
    | NSlice _ l =>
        if is_array_name target then
          match wrap_any l target with Some l' => Some (NSlice target l') | None => None end
        else None
    | _ => None
    end.

(* ---------- expression.go: typing decisions ---------- *)
Definition is_comparison (op : binop) : bool :=
  match op with OpEq | OpNotEq | OpLt | OpGt | OpLtEq | OpGtEq => true | _ => false end.

(* parseBinaryExpr: the T given to the BinaryExpression node *)
Definition binary_node_type (op : binop) (lt rt : ty) : ty :=
  let exp := if is_comparison op then TBool else lt in
  let t := if is_empty_arr exp && is_plus op then rt else exp in      (* array concatenation e.g. [] + [1 2] *)
  let t := if is_plus op && is_array_name t && equals t rt then merge_fixed t rt else t in
                                                                       (* [[1]] + [nums]: Fixed flags of both operands at every level *)
  if is_array_name t && fixed rt then fixed_type t else t.            (* [1] + nums: as rigid as nums *)

(* validateBinaryType: true = no error appended *)
Definition validate_binary (op : binop) (lt rt : ty) : bool :=
  if is_none lt || is_none rt then false       (* "takes values, found none": a call without a return value is not an operand *)
  else
  if negb (matches lt rt || (is_array_name lt && match op with OpAsterisk => true | _ => false end)) then false
  else match op with
       | OpPlus => is_num lt || is_string lt || is_array_name lt
       | OpAsterisk =>
           if negb (is_num lt || is_array_name lt) then false
           else if is_array_name lt && negb (is_num rt) then false
           else true
       | OpMinus | OpSlash | OpPercent => is_num lt
       | OpLt | OpGt | OpLtEq | OpGtEq => is_num lt || is_string lt
       | OpAnd | OpOr => is_bool lt
       | OpEq | OpNotEq => true
       end.

(* validateUnaryType; UnaryExpression.Type() is Right.Type() *)
Definition validate_unary (op : unop) (rt : ty) : bool :=
  match op with UMinus => is_num rt | UBang => is_bool rt end.

(* parseIndexOrSliceExpr + validateIndex: Some T = type of the IndexExpression, None = error *)
Definition index_type (lt it : ty) : option ty :=
  if negb (is_array_name lt || is_map_name lt || is_string lt) then None
  else if (is_array_name lt || is_string lt) && negb (is_num it) then None
  else if is_map_name lt && negb (is_string it) then None
  else if is_string lt then Some TString
  else sub lt.

(* parseIndexOrSliceExpr + parseSlice: Some T (= left.Type(), same pointer) or None = error *)
Definition slice_type (lt : ty) (st et : option ty) : option ty :=
  if negb (is_array_name lt || is_map_name lt || is_string lt) then None
  else if negb (is_array_name lt || is_string lt) then None
  else if match st with Some t => negb (is_num t) | None => false end then None
  else if match et with Some t => negb (is_num t) | None => false end then None
  else Some lt.

(* parseDotExpr *)
Definition dot_type (lt : ty) : option ty :=
  if is_map_name lt then sub lt else None.

(* parseTypeAssertion: true = no error (the node gets T = t either way) *)
Definition validate_assert (lt t : ty) : bool :=
  negb (is_any t) && is_any lt.

(* parseForStatement: type of the loop variable for  for x := range e  (one operand); None = error *)
Definition range_var_type (t : ty) : option (option ty) :=
  (* outer None: parse error; inner None: nil dereference in infer *)
  match name t with
  | STRING | MAP => Some (Some TString)
  | ARRAY => Some (match infer t with Some t' => option_map fixed_type (sub t') | None => None end)
  | NUM => Some (Some TNum)
  | _ => None
  end.

(* parseForStatement + parseStepRange on the types of the range operands:
   true = no error appended (and no nil) *)
Definition range_operands_ok (ts : list ty) : bool :=
  match ts with
  | [] => false                                            (* "range cannot be empty" *)
  | t :: rest =>
      if negb (Nat.eqb (List.length rest) 0) && negb (name_eqb (name t) NUM) then false
                                                           (* "range with more than one argument must be num" *)
      else match name t with
           | STRING | MAP | ARRAY => true
           | NUM =>                                        (* parseStepRange *)
               if Nat.ltb 3 (List.length ts) then false    (* "range can take up to 3 num arguments" *)
               else forallb is_num (firstn 3 ts)           (* "range expects num type for i-th argument" *)
           | _ => false                                    (* "expected num, string, array or map after range" *)
           end
  end.

(* ---------- parseType: source type -> *Type ---------- *)
Fixpoint embed (s : sty) : ty :=
  match s with
  | SNum => TNum | SString => TString | SBool => TBool | SAny => TAny
  | SArr s => TArr false (embed s)
  | SMap s => TMap false (embed s)
  | SEmptyArr => TEmptyArr | SEmptyMap => TEmptyMap
  end.

(* ---------- typing an expression the way parseExpr does ---------- *)
Inductive outcome : Set :=
| ONode (n : node) (err : bool)    (* a node was built; err: some error was appended on the way *)
| ONil                             (* nil ("previous error"): an error was appended and no node built *)
| OCrash.                          (* Go panic inside Parse *)

Definition bind_node (o : outcome) (k : node -> bool -> outcome) : outcome :=
  match o with ONode n e => k n e | ONil => ONil | OCrash => OCrash end.

(* elements of a composite literal: parsed left to right, the first nil aborts *)
Fixpoint seq_outcomes (os : list outcome) : option (option (list node * bool)) :=
  (* None = crash, Some None = nil, Some (Some (nodes, err)) *)
  match os with
  | [] => Some (Some ([], false))
  | OCrash :: _ => None
  | ONil :: _ => Some None
  | ONode n e :: rest =>
      if is_none (node_type n) then Some None       (* "array element has no value" / "map value has no value": error, nil *)
      else
      match seq_outcomes rest with
      | None => None
      | Some None => Some None
      | Some (Some (ns, e')) => Some (Some (n :: ns, e || e'))
      end
  end.

(* parseExprList: like seq_outcomes without the none-element rule *)
Fixpoint seq_operands (os : list outcome) : option (option (list node * bool)) :=
  match os with
  | [] => Some (Some ([], false))
  | OCrash :: _ => None
  | ONil :: _ => Some None
  | ONode n e :: rest =>
      match seq_operands rest with
      | None => None
      | Some None => Some None
      | Some (Some (ns, e')) => Some (Some (n :: ns, e || e'))
      end
  end.

Definition wrap_all (ns : list node) (t : ty) : option (list node) := map_opt (fun n => wrap_any n t) ns.

Definition opt_ty_of (o : option outcome) : option (option ty) :=
  (* for slice bounds: None = stop (nil/crash handled by caller) *)
  match o with
  | None => Some None
  | Some (ONode n _) => Some (Some (node_type n))
  | _ => None
  end.

Fixpoint tc (e : expr) : outcome :=
  match e with
  | ELitNum => ONode (NLeaf TNum) false
  | ELitStr => ONode (NLeaf TString) false
  | ELitBool => ONode (NLeaf TBool) false
  | EVar t => ONode (NLeaf (fixed_type (embed t))) false      (* parseTypedDecl: decl.Var.T = fixedType(v); lookupVar *)
  | ECall t => ONode (NLeaf (fixed_type (embed t))) false     (* FuncCall.Type() = fixedType(FuncDef.ReturnType) *)
  | EArr els =>                                               (* parseArrayLiteral *)
      match seq_outcomes (map tc els) with
      | None => OCrash
      | Some None => ONil
      | Some (Some (ns, err)) =>
          match ns with
          | [] => ONode (NArrLit TEmptyArr []) err
          | _ => match combine (map node_type ns) with
                 | None => OCrash
                 | Some s => match wrap_all ns s with
                             | None => OCrash
                             | Some ns' => ONode (NArrLit (TArr false s) ns') err
                             end
                 end
          end
      end
  | EMap els =>                                               (* parseMapLiteral (value types combined in source Order) *)
      match seq_outcomes (map tc els) with
      | None => OCrash
      | Some None => ONil
      | Some (Some (ns, err)) =>
          match ns with
          | [] => ONode (NMapLit TEmptyMap []) err
          | _ => match combine (map node_type ns) with
                 | None => OCrash
                 | Some s => match wrap_all ns s with
                             | None => OCrash
                             | Some ns' => ONode (NMapLit (TMap false s) ns') err
                             end
                 end
          end
      end
  | EBin op l r =>                                            (* parseBinaryExpr *)
      bind_node (tc l) (fun ln le =>
      bind_node (tc r) (fun rn re =>
        let lt := node_type ln in
        let rt := node_type rn in
        if validate_binary op lt rt then ONode (NBin (binary_node_type op lt rt) op ln rn) (le || re)
        else ONil))                                           (* "return nil // type error reported" *)
  | EUn op r =>                                               (* parseUnaryExpr *)
      bind_node (tc r) (fun rn re =>
        if validate_unary op (node_type rn) then ONode (NLeaf (node_type rn)) re
        else ONil)                                            (* "return nil // type error reported" *)
  | EGroup g =>                                               (* parseGroupedExpr *)
      bind_node (tc g) (fun gn ge => ONode (NGroup gn) ge)
  | EIndex l i =>                                             (* parseIndexOrSliceExpr *)
      bind_node (tc l) (fun ln le =>
        let lt := node_type ln in
        if negb (is_array_name lt || is_map_name lt || is_string lt) then ONil
        else bind_node (tc i) (fun inode ie =>
          match index_type lt (node_type inode) with
          | Some t => match infer t with                      (* T: fixedType(t.infer()) *)
                      | Some t' => ONode (NLeaf (fixed_type t')) (le || ie)
                      | None => OCrash
                      end
          | None => if is_generic lt then OCrash else ONil
          end))
  | ESlice l s e' =>                                          (* parseIndexOrSliceExpr + parseSlice *)
      bind_node (tc l) (fun ln le =>
        let lt := node_type ln in
        if negb (is_array_name lt || is_map_name lt || is_string lt) then ONil
        else
          let so := match s with Some x => Some (tc x) | None => None end in
          match so with
          | Some ONil => ONil
          | Some OCrash => OCrash
          | _ =>
              if negb (is_array_name lt || is_string lt) then ONil
              else
                let eo := match e' with Some x => Some (tc x) | None => None end in
                match eo with
                | Some ONil => ONil
                | Some OCrash => OCrash
                | _ =>
                    let errs := le || match so with Some (ONode _ x) => x | _ => false end
                                   || match eo with Some (ONode _ x) => x | _ => false end in
                    let st := match so with Some (ONode n _) => Some (node_type n) | _ => None end in
                    let et := match eo with Some (ONode n _) => Some (node_type n) | _ => None end in
                    match slice_type lt st et with
                    | Some t => ONode (NSlice t ln) errs
                    | None => ONil
                    end
                end
          end)
  | EDot l =>                                                 (* parseDotExpr *)
      bind_node (tc l) (fun ln le =>
        match dot_type (node_type ln) with
        | Some t => match infer t with                        (* T: fixedType(left.Type().Sub.infer()) *)
                    | Some t' => ONode (NLeaf (fixed_type t')) le
                    | None => OCrash
                    end
        | None => if is_generic (node_type ln) then OCrash else ONil
        end)
  | EAssert a t =>                                            (* parseTypeAssertion *)
      bind_node (tc a) (fun an ae =>
        ONode (NLeaf (fixed_type (embed t))) (ae || negb (validate_assert (node_type an) (embed t))))
  | ELoopVar rng =>                                           (* parseForStatement: forNode.LoopVar.T, read by lookupVar *)
      bind_node (tc rng) (fun rn re =>
        match range_var_type (node_type rn) with
        | Some (Some vt) => ONode (NLeaf vt) re
        | Some None => OCrash
        | None => ONode (NLeaf TNone) true                    (* "expected num, string, array or map after range": LoopVar.T stays NONE_TYPE *)
        end)
  end.

(* ---------- statement contexts (parser.go) ---------- *)
(* ---------- parser.go: parseAssignmentTarget ---------- *)
(* one step of the chain at the level of types: the index expression is
   represented by its type *)
Inductive kstep : Set := KIdx (it : ty) | KDot | KSlice | KAssert.

(* the loop body of parseAssignmentTarget for a node of type [t]:
   Some (Some T): the new node has type T; Some None: error, nil; None: Go panic *)
Definition target_step (t : ty) (k : kstep) : option (option ty) :=
  match k with
  | KIdx it =>
      if is_string t then Some None                        (* cannot index string on left side of "=" *)
      else match index_type t it with                      (* parseIndexOrSliceExpr(n, false) *)
           | Some e => match infer e with Some e' => Some (Some (fixed_type e')) | None => None end
           | None => if is_generic t then None else Some None
           end
  | KDot =>
      match dot_type t with                                (* parseDotExpr *)
      | Some e => match infer e with Some e' => Some (Some (fixed_type e')) | None => None end
      | None => if is_generic t then None else Some None
      end
  | KSlice => Some None                                    (* allowSlice = false: "expected ]" or unexpected ":" *)
  | KAssert => Some None                                   (* parseDotExpr: not a map / "expected map key" *)
  end.

Fixpoint target_chain (t : ty) (ks : list kstep) : option (option ty) :=
  match ks with
  | [] => Some (Some t)
  | k :: rest => match target_step t k with
                 | Some (Some t') => target_chain t' rest
                 | other => other
                 end
  end.

(* the chain with its index expressions: (type, error flag) | nil | crash *)
Inductive toutcome : Set := TNode (t : ty) (err : bool) | TNil | TCrash.

Fixpoint target_outcome (t : ty) (err : bool) (steps : list tstep) : toutcome :=
  match steps with
  | [] => TNode t err
  | TIdx i :: rest =>
      if is_string t then TNil
      else if negb (is_array_name t || is_map_name t || is_string t) then TNil
      else match tc i with
           | OCrash => TCrash
           | ONil => TNil
           | ONode inode ie =>
               match target_step t (KIdx (node_type inode)) with
               | Some (Some t') => target_outcome t' (err || ie) rest
               | Some None => TNil
               | None => TCrash
               end
           end
  | TDot :: rest =>
      match target_step t KDot with
      | Some (Some t') => target_outcome t' err rest
      | Some None => TNil
      | None => TCrash
      end
  | TSlice s :: _ =>
      if is_string t then TNil
      else if negb (is_array_name t || is_map_name t || is_string t) then TNil
      else match s with
           | Some x => match tc x with OCrash => TCrash | _ => TNil end
           | None => TNil
           end
  | TAssert _ :: _ => TNil
  end.

Inductive result : Set :=
| Accept (static : ty) (shown : ty)   (* static: the type the context ends up with (declared variable / target / loop
                                         variable); shown: the type of the value node as typeof would report it when the
                                         target is any (node type under the Any wrapper) *)
| Reject
| Crash.

Definition shown_type (n : node) : ty :=
  match n with NAny e => node_type e | _ => node_type n end.

(* accepts + wrapAny, as in parseAssignmentStatement / assertArgTypes / parseReturnStatement *)
Definition check_accept (target : ty) (o : outcome) : result :=
  match o with
  | OCrash => Crash
  | ONil => Reject
  | ONode n err =>
      if accepts target (node_type n) then
        match wrap_any n target with
        | None => Crash
        | Some n' => if err then Reject else Accept target (shown_type n')
        end
      else Reject
  end.

Definition check (c : ctx) (e : expr) : result :=
  match c with
  | CDecl =>
      match tc e with
      | OCrash => Crash
      | ONil => Reject
      | ONode n err =>
          let vt := node_type n in
          if is_none vt then Reject
          else match infer vt with
               | None => Crash
               | Some it =>
                   let t := fixed_type it in
                   match wrap_any n t with
                   | None => Crash
                   | Some n' => if err then Reject else Accept t (shown_type n')
                   end
               end
      end
  | CAssign t => check_accept (fixed_type (embed t)) (tc e)
  | CParam t => check_accept (fixed_type (embed t)) (tc e)
  | CVariadic t => check_accept (fixed_type (embed t)) (tc e)
  | CReturn t => check_accept (embed t) (tc e)
  | CGenericArr => check_accept TGenArr (tc e)
  | CGenericMap => check_accept TGenMap (tc e)
  | CCond =>
      match tc e with
      | OCrash => Crash
      | ONil => Reject
      | ONode n err => if is_bool (node_type n) && negb err then Accept TBool TBool else Reject
      end
  | CAssignTo root steps =>
      (* parseAssignmentStatement: the target is parsed first; nil aborts before the value is parsed *)
      match target_outcome (fixed_type (embed root)) false steps with
      | TCrash => Crash
      | TNil => Reject
      | TNode t terr =>
          match check_accept t (tc e) with
          | Accept st sh => if terr then Reject else Accept st sh
          | other => other
          end
      end
  | CAssignCall _ => Reject        (* "cannot assign to f as it is a function not a variable" *)
  | CRangeMore rest =>
      (* parseExprList: operands left to right, the first nil aborts ("range cannot be empty") *)
      match seq_operands (map tc (e :: rest)) with
      | None => Crash
      | Some None => Reject
      | Some (Some (ns, err)) =>
          if range_operands_ok (map node_type ns) && negb err then
            match ns with
            | [n] => match range_var_type (node_type n) with
                     | Some (Some vt) => Accept vt vt
                     | Some None => Crash
                     | None => Reject
                     end
            | _ => Accept TNum TNum
            end
          else Reject
      end
  | CRange =>
      match tc e with
      | OCrash => Crash
      | ONil => Reject
      | ONode n err =>
          match range_var_type (node_type n) with
          | None => Reject
          | Some None => Crash
          | Some (Some vt) => if err then Reject else Accept vt vt
          end
      end
  end.

(* ================= wire format ================= *)
Local Open Scope string_scope.

Fixpoint dec_ty (x : sx) : option ty :=
  match x with
  | Sym _ =>
      if sym_is x "num" then Some TNum else if sym_is x "string" then Some TString
      else if sym_is x "bool" then Some TBool else if sym_is x "any" then Some TAny
      else if sym_is x "none" then Some TNone
      else if sym_is x "earr" then Some TEmptyArr else if sym_is x "emap" then Some TEmptyMap
      else if sym_is x "garr" then Some TGenArr else if sym_is x "gmap" then Some TGenMap
      else None
  | Lst [k; Int f; s] =>
      match dec_ty s with
      | Some s' =>
          if sym_is k "arr" then Some (TArr (negb (Z.eqb f 0)) s')
          else if sym_is k "map" then Some (TMap (negb (Z.eqb f 0)) s')
          else None
      | None => None
      end
  | _ => None
  end.

Fixpoint enc_ty (t : ty) : sx :=
  match t with
  | TNum => Sym (s_ "num") | TString => Sym (s_ "string") | TBool => Sym (s_ "bool")
  | TAny => Sym (s_ "any") | TNone => Sym (s_ "none")
  | TEmptyArr => Sym (s_ "earr") | TEmptyMap => Sym (s_ "emap")
  | TGenArr => Sym (s_ "garr") | TGenMap => Sym (s_ "gmap")
  | TArr f s => Lst [Sym (s_ "arr"); Int (if f then 1 else 0)%Z; enc_ty s]
  | TMap f s => Lst [Sym (s_ "map"); Int (if f then 1 else 0)%Z; enc_ty s]
  end.

Definition enc_oty (o : option ty) : sx :=
  match o with Some t => enc_ty t | None => Sym (s_ "crash") end.

Fixpoint dec_sty (x : sx) : option sty :=
  match x with
  | Sym _ =>
      if sym_is x "num" then Some SNum else if sym_is x "string" then Some SString
      else if sym_is x "bool" then Some SBool else if sym_is x "any" then Some SAny
      else if sym_is x "earr" then Some SEmptyArr else if sym_is x "emap" then Some SEmptyMap
      else None
  | Lst [k; s] =>
      match dec_sty s with
      | Some s' => if sym_is k "arr" then Some (SArr s') else if sym_is k "map" then Some (SMap s') else None
      | None => None
      end
  | _ => None
  end.

Definition dec_binop (x : sx) : option binop :=
  if sym_is x "+" then Some OpPlus else if sym_is x "-" then Some OpMinus
  else if sym_is x "*" then Some OpAsterisk else if sym_is x "/" then Some OpSlash
  else if sym_is x "%" then Some OpPercent else if sym_is x "==" then Some OpEq
  else if sym_is x "!=" then Some OpNotEq else if sym_is x "<" then Some OpLt
  else if sym_is x ">" then Some OpGt else if sym_is x "<=" then Some OpLtEq
  else if sym_is x ">=" then Some OpGtEq else if sym_is x "and" then Some OpAnd
  else if sym_is x "or" then Some OpOr else None.

Fixpoint dec_expr (x : sx) : option expr :=
  match x with
  | Sym _ =>
      if sym_is x "n" then Some ELitNum else if sym_is x "s" then Some ELitStr
      else if sym_is x "b" then Some ELitBool else None
  | Lst (k :: args) =>
      let dec_list := fix go (l : list sx) : option (list expr) :=
        match l with
        | [] => Some []
        | y :: r => match dec_expr y with
                    | Some e => match go r with Some r' => Some (e :: r') | None => None end
                    | None => None
                    end
        end in
      let dec_opt := fun (y : sx) =>
        if sym_is y "_" then Some None
        else match dec_expr y with Some e => Some (Some e) | None => None end in
      if sym_is k "var" then
        match args with [t] => option_map EVar (dec_sty t) | _ => None end
      else if sym_is k "call" then
        match args with [t] => option_map ECall (dec_sty t) | _ => None end
      else if sym_is k "arr" then option_map EArr (dec_list args)
      else if sym_is k "map" then option_map EMap (dec_list args)
      else if sym_is k "bin" then
        match args with
        | [o; l; r] => match dec_binop o, dec_expr l, dec_expr r with
                       | Some o, Some l, Some r => Some (EBin o l r)
                       | _, _, _ => None
                       end
        | _ => None
        end
      else if sym_is k "neg" then match args with [a] => option_map (EUn UMinus) (dec_expr a) | _ => None end
      else if sym_is k "not" then match args with [a] => option_map (EUn UBang) (dec_expr a) | _ => None end
      else if sym_is k "group" then match args with [a] => option_map EGroup (dec_expr a) | _ => None end
      else if sym_is k "loopvar" then match args with [a] => option_map ELoopVar (dec_expr a) | _ => None end
      else if sym_is k "index" then
        match args with
        | [l; i] => match dec_expr l, dec_expr i with Some l, Some i => Some (EIndex l i) | _, _ => None end
        | _ => None
        end
      else if sym_is k "slice" then
        match args with
        | [l; s; e] => match dec_expr l, dec_opt s, dec_opt e with
                       | Some l, Some s, Some e => Some (ESlice l s e)
                       | _, _, _ => None
                       end
        | _ => None
        end
      else if sym_is k "dot" then match args with [a] => option_map EDot (dec_expr a) | _ => None end
      else if sym_is k "assert" then
        match args with
        | [a; t] => match dec_expr a, dec_sty t with Some a, Some t => Some (EAssert a t) | _, _ => None end
        | _ => None
        end
      else None
  | _ => None
  end.

Definition dec_opt_expr (y : sx) : option (option expr) :=
  if sym_is y "_" then Some None
  else match dec_expr y with Some e => Some (Some e) | None => None end.

Definition dec_tstep (x : sx) : option tstep :=
  match x with
  | Sym _ => if sym_is x "dot" then Some TDot else None
  | Lst [k; a] =>
      if sym_is k "idx" then option_map TIdx (dec_expr a)
      else if sym_is k "slice" then option_map TSlice (dec_opt_expr a)
      else if sym_is k "assert" then option_map TAssert (dec_sty a)
      else None
  | _ => None
  end.

Fixpoint dec_tsteps (l : list sx) : option (list tstep) :=
  match l with
  | [] => Some []
  | x :: r => match dec_tstep x, dec_tsteps r with
              | Some s, Some r' => Some (s :: r')
              | _, _ => None
              end
  end.

Definition dec_ctx (x : sx) : option ctx :=
  match x with
  | Sym _ =>
      if sym_is x "decl" then Some CDecl else if sym_is x "cond" then Some CCond
      else if sym_is x "range" then Some CRange else if sym_is x "garr" then Some CGenericArr
      else if sym_is x "gmap" then Some CGenericMap else None
  | Lst [k; t] =>
      if sym_is k "rangemore" then
        match t with
        | Lst more =>
            (fix go (l : list sx) (acc : list expr) : option ctx :=
               match l with
               | [] => Some (CRangeMore (rev acc))
               | y :: r => match dec_expr y with Some e => go r (e :: acc) | None => None end
               end) more []
        | _ => None
        end
      else
      match dec_sty t with
      | Some t =>
          if sym_is k "assign" then Some (CAssign t) else if sym_is k "param" then Some (CParam t)
          else if sym_is k "variadic" then Some (CVariadic t) else if sym_is k "return" then Some (CReturn t)
          else if sym_is k "assigncall" then Some (CAssignCall t)
          else None
      | None => None
      end
  | Lst [k; t; Lst steps] =>
      if sym_is k "target" then
        match dec_sty t, dec_tsteps steps with
        | Some t, Some st => Some (CAssignTo t st)
        | _, _ => None
        end
      else None
  | _ => None
  end.

Definition enc_result (r : result) : sx :=
  match r with
  | Accept st sh => Lst [Sym (s_ "accept"); Str (type_string st); Str (type_string sh); enc_ty st]
  | Reject => Lst [Sym (s_ "reject")]
  | Crash => Lst [Sym (s_ "crash")]
  end.

Definition bit (b : bool) : N := if b then 49%N else 48%N.

Fixpoint dec_tys (l : list sx) : option (list ty) :=
  match l with
  | [] => Some []
  | x :: r => match dec_ty x with
              | Some t => match dec_tys r with Some r' => Some (t :: r') | None => None end
              | None => None
              end
  end.

(* entry point.  Requests:
     (row L (R…))        -> (accepts-bits matches-bits equals-bits matches-flipped-bits) for L against every R
     (unary (T…))        -> ((infer fixedType String) …)
     (combine ((T…) …))  -> (T-or-crash …)
     (prog ctx expr)     -> (accept static shown ty) | (reject) | (crash)   — implementation model *)
Definition types_case (x : sx) : sx :=
  match x with
  | Lst (k :: args) =>
      if sym_is k "row" then
        match args with
        | [a; Lst rs] =>
            match dec_ty a, dec_tys rs with
            | Some l, Some rs =>
                Lst [Str (map (fun r => bit (accepts l r)) rs);
                     Str (map (fun r => bit (matches l r)) rs);
                     Str (map (fun r => bit (equals l r)) rs)]
            | _, _ => Sym (s_ "decode-error")
            end
        | _ => Sym (s_ "decode-error")
        end
      else if sym_is k "unary" then
        match args with
        | [Lst l] =>
            match dec_tys l with
            | Some ts => Lst (map (fun t => Lst [enc_oty (infer t); enc_ty (fixed_type t); Str (type_string t)]) ts)
            | None => Sym (s_ "decode-error")
            end
        | _ => Sym (s_ "decode-error")
        end
      else if sym_is k "combine" then
        match args with
        | [Lst l] =>
            Lst (map (fun y => match y with
                               | Lst ts => match dec_tys ts with
                                           | Some ts => enc_oty (combine ts)
                                           | None => Sym (s_ "decode-error")
                                           end
                               | _ => Sym (s_ "decode-error")
                               end) l)
        | _ => Sym (s_ "decode-error")
        end
      else if sym_is k "prog" then
        match args with
        | [c; e] =>
            match dec_ctx c, dec_expr e with
            | Some c, Some e => enc_result (check c e)
            | _, _ => Sym (s_ "decode-error")
            end
        | _ => Sym (s_ "decode-error")
        end
      else Sym (s_ "decode-error")
  | _ => Sym (s_ "decode-error")
  end.
