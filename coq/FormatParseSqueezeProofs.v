(* FormatParseSqueezeProofs.v — C06: the judgements of an accepted parse do not depend on empty
   statements, so they transfer from the tree the parser returns for a source (one empty statement
   per blank line: [raw_tree]) to the tree of the formatted text (runs squeezed: [stmt_tree] /
   [body_trees]).  This lifts the accepted-program round trip from already squeezed sources to
   arbitrary comment-free ones. *)
From Coq Require Import List String NArith ZArith Bool Arith Lia.
From EvyV Require Import Base FmtAst Format FormatProofs Pratt PrattProofs Parser ParserProofs ParserRules ParserScope ParserCursor
  FormatParse FormatParseProofs FormatParseListProofs FormatParseStmtProofs FormatParseBlockProofs FormatParseProgProofs FormatParseAcceptProofs.
From EvyV.Gen Require Import Prec.
Import ListNotations.
Local Open Scope nat_scope.

(* the tree parser.Parse builds for the statement the formatter tree describes: every EmptyStmt kept *)
Fixpoint raw_tree (st : fstmt) : stmt :=
  let body := fix body (l : list fstmt) : list stmt := match l with [] => [] | x :: t => raw_tree x :: body t end in
  match st with
  | FmtAst.SEmpty _ => Parser.SEmpty
  | FmtAst.STypedDecl n t _ => Parser.STypedDecl n (fty_ty t)
  | FmtAst.SInferredDecl n v _ => Parser.SInferredDecl n (fexpr_tree v)
  | FmtAst.SAssign t v _ => Parser.SAssign (fexpr_tree t) (fexpr_tree v)
  | FmtAst.SCall n args _ => Parser.SCallStmt (TCall n (map fexpr_tree args))
  | FmtAst.SReturn v _ => Parser.SReturn (match v with Some e => Some (fexpr_tree e) | None => None end)
  | FmtAst.SBreak _ => Parser.SBreak
  | FmtAst.SIf (CBlock c _ b) elifs els _ =>
      Parser.SIf ((Some (fexpr_tree c), blk_of (body b))
                  :: (fix go (l : list cblock) : list (option tree * block) :=
                        match l with
                        | [] => []
                        | CBlock c _ b :: r => (Some (fexpr_tree c), blk_of (body b)) :: go r
                        end) elifs)
                 (match els with Some (_, b) => Some (blk_of (body b)) | None => None end)
  | FmtAst.SWhile c _ b _ => Parser.SWhile (Some (fexpr_tree c)) (blk_of (body b))
  | FmtAst.SFor lv r _ b _ => Parser.SFor lv (range_trees r) (blk_of (body b))
  | FmtAst.SFunc n rt ps v _ b _ =>
      Parser.SFunc n (match rt with Some _ => true | None => false end)
                   (map fst ps ++ match v with Some p => [fst p] | None => [] end) (blk_of (body b))
  | FmtAst.SOn n ps _ b _ => Parser.SOn n (map fst ps) (blk_of (body b))
  end.
Definition raw_trees (l : list fstmt) : list stmt := map raw_tree l.
Definition raw_cb (cb : cblock) : option tree * block :=
  match cb with CBlock c _ b => (Some (fexpr_tree c), blk_of (raw_trees b)) end.

Lemma raw_tree_if c ch b elifs els ce :
  raw_tree (FmtAst.SIf (CBlock c ch b) elifs els ce)
  = Parser.SIf (raw_cb (CBlock c ch b) :: map raw_cb elifs)
               (match els with Some (_, eb) => Some (blk_of (raw_trees eb)) | None => None end).
Proof.
  cbn [raw_tree raw_cb]. f_equal. f_equal.
  induction elifs as [|[c' ch' b'] rest IH]; [reflexivity|]. cbn [map raw_cb]. rewrite <- IH. reflexivity.
Qed.

(* what the judgements look at *)
Definition same_j (a b : stmt) : Prop :=
  (forall T G, scope_stmt T a G = scope_stmt T b G) /\
  (forall k inl, stmt_ok k inl a = stmt_ok k inl b) /\
  stmt_term a = stmt_term b /\ is_empty_stmt a = is_empty_stmt b /\ stmt_returns a = stmt_returns b.

(* lists: the raw list against the squeezed one *)
Lemma lists_same body : Forall (fun st => same_j (raw_tree st) (stmt_tree st)) body -> forall e,
  (forall T G, scope_stmts T (raw_trees body) G = scope_stmts T (body_trees e body) G) /\
  (forall k inl, forallb (stmt_ok k inl) (raw_trees body) = forallb (stmt_ok k inl) (body_trees e body)) /\
  no_dead (raw_trees body) = no_dead (body_trees e body) /\
  forallb is_empty_stmt (raw_trees body) = forallb is_empty_stmt (body_trees e body) /\
  existsb stmt_term (raw_trees body) = existsb stmt_term (body_trees e body) /\
  existsb stmt_returns (raw_trees body) = existsb stmt_returns (body_trees e body).
Proof.
  induction 1 as [|x l Hx _ IH]; intro e; [repeat split; reflexivity|].
  cbn [raw_trees map body_trees]. fold (raw_trees l). destruct (is_blank x) eqn:Hb.
  - rewrite (is_blank_empty x Hb). cbn [raw_tree].
    destruct (IH true) as (I1 & I2 & I3 & I4 & I5 & I6).
    destruct e; cbn [scope_stmts scope_stmt obind forallb stmt_ok no_dead stmt_term is_empty_stmt existsb stmt_returns andb orb];
      repeat split; intros; auto.
  - destruct Hx as (J1 & J2 & J3 & J4 & J5). destruct (IH false) as (I1 & I2 & I3 & I4 & I5 & I6).
    cbn [scope_stmts forallb no_dead existsb]. rewrite J3, J4, J5, I3, I4, I5, I6. repeat split; intros; auto.
    + rewrite J1. destruct (scope_stmt T (stmt_tree x) G); cbn [obind]; [apply I1|reflexivity].
    + rewrite J2, I2. reflexivity.
Qed.

Lemma blocks_same body : Forall (fun st => same_j (raw_tree st) (stmt_tree st)) body ->
  (forall T G, scope_block T (blk_of (raw_trees body)) G = scope_block T (blk_of (body_trees false body)) G) /\
  (forall k inl, block_ok k inl (blk_of (raw_trees body)) = block_ok k inl (blk_of (body_trees false body))) /\
  block_term (blk_of (raw_trees body)) = block_term (blk_of (body_trees false body)) /\
  block_returns (blk_of (raw_trees body)) = block_returns (blk_of (body_trees false body)).
Proof.
  intro H. destruct (lists_same body H false) as (I1 & I2 & I3 & I4 & I5 & I6). unfold blk_of.
  repeat split; intros.
  - rewrite !scope_block_eq, I1. reflexivity.
  - cbn [block_ok]. rewrite I2, I3. reflexivity.
  - exact I5.
  - exact I6.
Qed.

Lemma cbs_same cbs : Forall (Pblock (fun st => same_j (raw_tree st) (stmt_tree st))) cbs ->
  (forall T G, scope_brs T (map raw_cb cbs) G = scope_brs T (map cb_tree cbs) G) /\
  (forall k inl, forallb (fun cb => block_ok k inl (snd cb)) (map raw_cb cbs) = forallb (fun cb => block_ok k inl (snd cb)) (map cb_tree cbs)) /\
  forallb (fun cb => block_term (snd cb)) (map raw_cb cbs) = forallb (fun cb => block_term (snd cb)) (map cb_tree cbs) /\
  forallb (fun cb => block_returns (snd cb)) (map raw_cb cbs) = forallb (fun cb => block_returns (snd cb)) (map cb_tree cbs).
Proof.
  induction 1 as [|[c ch b] r Hx _ IH]; [repeat split; reflexivity|]. cbn [Pblock] in Hx.
  destruct (blocks_same b Hx) as (B1 & B2 & B3 & B4). destruct IH as (I1 & I2 & I3 & I4).
  cbn [map raw_cb cb_tree scope_brs forallb fst snd]. repeat split; intros.
  - destruct (use_vars _ _); cbn [obind]; [|reflexivity]. rewrite B1. destruct (scope_block _ _ _); cbn [obind]; [apply I1|reflexivity].
  - rewrite B2, I2. reflexivity.
  - rewrite B3, I3. reflexivity.
  - rewrite B4, I4. reflexivity.
Qed.

Theorem raw_same : forall st, same_j (raw_tree st) (stmt_tree st).
Proof.
  induction st using fstmt_ind'; try (repeat split; reflexivity).
  - (* if *)
    destruct ifb as [c ch b]. rewrite raw_tree_if, stmt_tree_if.
    assert (Hall : Forall (Pblock (fun st => same_j (raw_tree st) (stmt_tree st))) (CBlock c ch b :: elifs)) by (constructor; assumption).
    destruct (cbs_same _ Hall) as (C1 & C2 & C3 & C4). cbn [map] in C1, C2, C3, C4.
    assert (He : match els with Some (_, eb) => Forall (fun st => same_j (raw_tree st) (stmt_tree st)) eb | None => True end)
      by (destruct els as [[ce eb]|]; [exact (H1 ce eb eq_refl) | exact I]).
    repeat split; intros.
    + rewrite !scope_if_eq, C1. destruct (scope_brs T _ G); cbn [obind]; [|reflexivity].
      destruct els as [[ce eb]|]; [|reflexivity]. apply (proj1 (blocks_same eb He)).
    + cbn [stmt_ok]. rewrite C2. destruct els as [[ce eb]|]; [|reflexivity]. rewrite (proj1 (proj2 (blocks_same eb He))). reflexivity.
    + cbn [stmt_term]. destruct els as [[ce eb]|]; [|reflexivity]. rewrite C3, (proj1 (proj2 (proj2 (blocks_same eb He)))). reflexivity.
    + cbn [stmt_returns]. destruct els as [[ce eb]|]; [|reflexivity]. rewrite C4, (proj2 (proj2 (proj2 (blocks_same eb He)))). reflexivity.
  - (* while *)
    destruct (blocks_same body H) as (B1 & B2 & B3 & B4).
    change (raw_tree (FmtAst.SWhile cond ch body ce)) with (Parser.SWhile (Some (fexpr_tree cond)) (blk_of (raw_trees body))).
    rewrite stmt_tree_while. repeat split; intros; cbn [scope_stmt stmt_ok]; rewrite ?B2; try reflexivity.
    destruct (use_vars _ _); cbn [obind]; [apply B1|reflexivity].
  - (* for *)
    destruct (blocks_same body H) as (B1 & B2 & B3 & B4).
    change (raw_tree (FmtAst.SFor lv r ch body ce)) with (Parser.SFor lv (range_trees r) (blk_of (raw_trees body))).
    rewrite stmt_tree_for. repeat split; intros; cbn [stmt_ok]; rewrite ?B2; try reflexivity.
    rewrite !scope_for_eq. destruct (match lv with Some n => _ | None => _ end); cbn [obind]; [|reflexivity].
    destruct (use_vars _ _); cbn [obind]; [apply B1|reflexivity].
  - (* func *)
    destruct (blocks_same body H) as (B1 & B2 & B3 & B4).
    change (raw_tree (FmtAst.SFunc n rt ps v ch body ce)) with
      (Parser.SFunc n (match rt with Some _ => true | None => false end) (map fst ps ++ match v with Some p => [fst p] | None => [] end) (blk_of (raw_trees body))).
    change (stmt_tree (FmtAst.SFunc n rt ps v ch body ce)) with
      (Parser.SFunc n (match rt with Some _ => true | None => false end) (map fst ps ++ match v with Some p => [fst p] | None => [] end) (blk_of (body_trees false body))).
    repeat split; intros; cbn [scope_stmt stmt_ok]; rewrite ?B2, ?B4; try reflexivity.
    destruct (declare_all _ _ _); cbn [obind]; [apply B1|reflexivity].
  - (* on *)
    destruct (blocks_same body H) as (B1 & B2 & B3 & B4).
    change (raw_tree (FmtAst.SOn n ps ch body ce)) with (Parser.SOn n (map fst ps) (blk_of (raw_trees body))).
    change (stmt_tree (FmtAst.SOn n ps ch body ce)) with (Parser.SOn n (map fst ps) (blk_of (body_trees false body))).
    repeat split; intros; cbn [stmt_ok]; rewrite ?B2; try reflexivity.
    rewrite !scope_on_eq. destruct (lookup_evn _ _); [|reflexivity]. destruct (map fst ps); [apply B1|].
    destruct (Nat.eqb _ _); [|reflexivity]. destruct (declare_all _ _ _); cbn [obind]; [apply B1|reflexivity].
Qed.

(* ---------- the static rules (calls, typing sites) likewise ---------- *)
Definition same_s (a b : stmt) : Prop := forall B F, stmt_sok B F a <-> stmt_sok B F b.

Lemma lists_same_s body : Forall (fun st => same_s (raw_tree st) (stmt_tree st)) body -> forall e B F,
  Forall (stmt_sok B F) (raw_trees body) <-> Forall (stmt_sok B F) (body_trees e body).
Proof.
  induction 1 as [|x l Hx _ IH]; intros e B F; [split; intro; constructor|].
  cbn [raw_trees map body_trees]. fold (raw_trees l). destruct (is_blank x) eqn:Hb.
  - rewrite (is_blank_empty x Hb). cbn [raw_tree]. destruct e.
    + split; [intro H; inversion H; subst; apply IH; assumption | intro H; constructor; [exact I | apply (IH true); exact H]].
    + split; intro H; inversion H; subst; constructor; try exact I; [apply IH | apply (IH true)]; assumption.
  - split; intro H; inversion H; subst; constructor; try (apply (Hx B F); assumption); [apply IH | apply (IH false)]; assumption.
Qed.

Lemma blocks_same_s body : Forall (fun st => same_s (raw_tree st) (stmt_tree st)) body -> forall B F,
  block_sok B F (blk_of (raw_trees body)) <-> block_sok B F (blk_of (body_trees false body)).
Proof.
  intros H B F. unfold blk_of. cbn [block_sok]. rewrite !stmts_sok_fix. apply (lists_same_s body H false).
Qed.

Lemma cbs_same_s cbs : Forall (Pblock (fun st => same_s (raw_tree st) (stmt_tree st))) cbs -> forall B F,
  Forall (cb_sok B F) (map raw_cb cbs) <-> Forall (cb_sok B F) (map cb_tree cbs).
Proof.
  induction 1 as [|[c ch b] r Hx _ IH]; intros B F; [split; intro; constructor|]. cbn [Pblock] in Hx.
  cbn [map raw_cb cb_tree]. pose proof (blocks_same_s b Hx B F) as Hb.
  split; intro H; inversion H as [|? ? [H1 H2] H3]; subst; constructor; try (split; [exact H1|]; cbn [snd] in *; apply Hb; exact H2); apply IH; exact H3.
Qed.

Theorem raw_same_s : forall st, same_s (raw_tree st) (stmt_tree st).
Proof.
  induction st using fstmt_ind'; try (intros B F; reflexivity).
  - destruct ifb as [c ch b]. intros B F. rewrite raw_tree_if, stmt_tree_if. cbn [stmt_sok].
    pose proof (cbs_same_s elifs H0 B F) as Hc. cbn [Pblock] in H. pose proof (blocks_same_s b H B F) as Hb1.
    rewrite !(brs_sok_fix B F).
    assert (He : match els with Some (_, eb) => (block_sok B F (blk_of (raw_trees eb)) <-> block_sok B F (blk_of (body_trees false eb))) | None => True end)
      by (destruct els as [[ce eb]|]; [exact (blocks_same_s eb (H1 ce eb eq_refl) B F) | exact I]).
    cbn [raw_cb cb_tree fst snd]. destruct els as [[ce eb]|]; tauto.
  - intros B F. change (raw_tree (FmtAst.SWhile cond ch body ce)) with (Parser.SWhile (Some (fexpr_tree cond)) (blk_of (raw_trees body))).
    rewrite stmt_tree_while. cbn [stmt_sok]. pose proof (blocks_same_s body H B F). tauto.
  - intros B F. change (raw_tree (FmtAst.SFor lv r ch body ce)) with (Parser.SFor lv (range_trees r) (blk_of (raw_trees body))).
    rewrite stmt_tree_for. cbn [stmt_sok]. pose proof (blocks_same_s body H B F). tauto.
  - intros B F. pose proof (blocks_same_s body H B F) as Hb. exact Hb.
  - intros B F. pose proof (blocks_same_s body H B F) as Hb. exact Hb.
Qed.

(* ---------- programs ---------- *)
Lemma prog_same p : structure_ok (raw_trees p) = structure_ok (body_trees false p) /\
                    (forall T, scope_prog T (raw_trees p) = scope_prog T (body_trees false p)) /\
                    (forall B F, stmts_sok B F (raw_trees p) <-> stmts_sok B F (body_trees false p)).
Proof.
  assert (H : Forall (fun st => same_j (raw_tree st) (stmt_tree st)) p) by (apply Forall_forall; intros; apply raw_same).
  assert (H' : Forall (fun st => same_s (raw_tree st) (stmt_tree st)) p) by (apply Forall_forall; intros; apply raw_same_s).
  destruct (lists_same p H false) as (I1 & I2 & I3 & _). split; [|split].
  - unfold structure_ok. rewrite I2, I3. reflexivity.
  - intro T. unfold scope_prog. rewrite I1. reflexivity.
  - intros B F. exact (lists_same_s p H' false B F).
Qed.

Section Lift.
  Variable B : benv.
  Hypothesis BT : forall s t n, b_tyerr B s t n = false.
  Variable fx : fixes.

  Hypothesis TOK : tbl_ok (builtin_table B).

  (* the source may contain any number of blank lines anywhere *)
  Theorem program_roundtrip_source p raw eof0 poss eof :
    parse B raw eof0 = Accept (raw_trees p) -> fn_table B raw = builtin_table B ->
    p <> [] -> eokb B (builtin_table B) (G0 B) p ->
    List.length poss = List.length (toks_of_pieces (fmt_prog fx p)) ->
    parse B (combine (toks_of_pieces (fmt_prog fx p)) poss) eof = Accept (body_trees false p).
  Proof.
    intros Hacc Hfn Hne He Hlen. destruct (prog_same p) as (S1 & S2 & S3).
    apply (program_roundtrip_judged B BT fx TOK p poss eof Hne He); [| | |exact Hlen].
    - rewrite <- S1. exact (accept_structure B raw eof0 _ Hacc).
    - apply S3. rewrite <- Hfn. exact (accept_static B raw eof0 _ Hacc).
    - rewrite <- S2, <- Hfn. exact (accept_scoped B raw eof0 _ Hacc).
  Qed.
End Lift.
